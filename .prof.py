import sys, time, collections
sys.path.insert(0, "/tmp/eng/C02/engine")
from core.loader import Repo
from rules import c02
from rules.c02_sym import *
repo = Repo(sys.argv[1] if len(sys.argv)>1 else None)
g = repo.cls(c02.NXGRAPH, "NetworkxGraph")
R = Sym("imp")
def entry(it):
    return it.instantiate(g, [[Sym("module","str")],[R],Sym("level_limit","optint")], {}, None, None)
t=time.time()
ex = Explorer(repo, opaque={f"{c02.TYPES_MOD}::get_parent_modules"}, max_runs=100000)
runs = ex.explore(entry)
print(len(runs), time.time()-t)
print(collections.Counter((r.outcome, len(r.body_runs)) for r in runs))
mains=[r for r in runs if r.main]
print(len(mains))
for r in mains[:3]:
    print([ (show(a),v) for a,v in r.trace])
sites=collections.Counter(r.body_runs for r in runs)
for k,v in sites.most_common(10): print(v,k)
