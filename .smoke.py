import sys, ast, time
sys.path.insert(0, "/tmp/eng/C02/engine")
from core.loader import Repo
from rules.c02_sym import *
from rules import c02_builtins
from rules.c02_builtins import Interp
repo = Repo()
CONV = "pytestarch.eval_structure_generation.file_import.converter"
IT = "pytestarch.eval_structure_generation.file_import.import_types"
def alias(n): return ANode("alias", {"name": Sym(n,"str"), "asname": None})
imp = ANode("Import", {"names":[alias("n1"), alias("n2")]})
frm = ANode("ImportFrom", {"module": Sym("P","optstr"), "names":[alias("m1"), alias("m2")], "level": Sym("level","nat")})
tree = lambda: ANode("Module", {"body":[imp, frm], "type_ignores":[]})
def entry(it):
    conv = it.instantiate(repo.cls(CONV,"ImportConverter"), [], {}, None, None)
    nm = it.instantiate(repo.cls(IT,"NamedModule"), [tree(), Sym("importer","str")], {}, None, None)
    f = it.getattr_value(conv, "convert")
    res = it.call(f, [[nm], Sym("prefix","anystr"), Sym("internal","set")], {})
    out=[]
    for r in res:
        out.append((r.ci.name, it.call(it.getattr_value(r,"importer"),[],{}), it.call(it.getattr_value(r,"importee"),[],{})))
    return out
t=time.time()
ex = Explorer(repo, opaque={"pytestarch.eval_structure.types::get_parent_modules"})
runs = ex.explore(entry)
print(len(runs), time.time()-t)
for r in runs[:6]:
    print(r.outcome, r.raised)
    for a,v in r.trace: print("    ", show(a), v)
    for x in (r.value or []): print("   ->", x[0], show(x[1]), show(x[2]))
print(ex.fallbacks)
print("=== relative")
for r in runs:
    if r.path.get(App("eq",(Sym("level","nat"),0))) is False and all(v for a,v in r.trace if "n1" in show(a) or "n2" in show(a)):
        print(r.outcome, r.raised)
        for a,v in r.trace: print("    ", show(a), v)
        for x in (r.value or []): print("   ->", x[0], show(x[1]), show(x[2]))
