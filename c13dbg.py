import sys, time
sys.path.insert(0, '/tmp/eng/C13/engine')
from pathlib import Path
from core.loader import Repo, AnalysisError
import importlib
def go(root):
    import rules.c13 as c
    t = time.time()
    try:
        res = c.run(Repo(Path(root)))
    except AnalysisError as e:
        print("ANALYSIS-ERROR", e); return
    for o in res.obligations:
        if not o.ok or '-v' in sys.argv:
            print(("ok  " if o.ok else "VIOL"), o.rule, o.construct[-90:], "\n       ", o.detail[:400])
    for u in res.undecided: print("UNDECIDED", u)
    print(f"{len(res.obligations)} obligations, {len(res.violations)} violations, {time.time()-t:.2f}s")
for r in [a for a in sys.argv[1:] if not a.startswith('-')]:
    print("=====", r); go(r if r.startswith('/') else f'/tmp/c13r/{r}')
