import itertools, random, warnings
warnings.simplefilter("ignore")
from pytestarch import Rule
from pytestarch.eval_structure.evaluable_graph import EvaluableArchitectureGraph
from pytestarch.eval_structure.networkxgraph import NetworkxGraph
from pytestarch.eval_structure_generation.file_import.import_types import AbsoluteImport
def G(mods, imps):
    return EvaluableArchitectureGraph(NetworkxGraph(list(mods), [AbsoluteImport(a,b) for a,b in imps]))
MODS = ["r","r.a","r.a.x","r.a.y","r.b","r.b.x","r.c","r.d"]
def desc(m, strict=False):
    return {x for x in MODS if (x.startswith(m+".") or (x==m and not strict))}
def related(a,b): return a==b or a.startswith(b+".") or b.startswith(a+".")
def build(verb, direction, exc, subs, objs, skind="n", okind="n"):
    r = Rule().modules_that()
    r = r.are_named(subs) if skind=="n" else r.are_sub_modules_of(subs)
    r = getattr(r, verb)()
    name = {("imp",False):"import_modules_that",("imp",True):"import_modules_except_modules_that",("by",False):"be_imported_by_modules_that",("by",True):"be_imported_by_modules_except_modules_that"}[(direction,exc)]
    r = getattr(r,name)()
    r = r.are_named(objs) if okind=="n" else r.are_sub_modules_of(objs)
    return r
def verdict(rule, ev):
    try: rule.assert_applies(ev); return True
    except AssertionError: return False
def ref(verb, direction, exc, subs, objs, E, skind, okind):
    E2 = E if direction=="imp" else {(b,a) for a,b in E}
    Ss = [desc(s, skind=="p") for s in subs]; Os=[desc(o, okind=="p") for o in objs]
    allO = set().union(*Os)
    def edge(S,O): return any(u in S and v in O for u,v in E2)
    def other(S): return any(u in S and v not in S and v not in allO for u,v in E2)
    ok=True
    for S in Ss:
        if not exc:
            if verb in("should","should_only"): ok &= all(edge(S,O) for O in Os)
            if verb=="should_not": ok &= not any(edge(S,O) for O in Os)
            if verb=="should_only": ok &= not other(S)
        else:
            if verb in("should","should_only"): ok &= other(S)
            if verb=="should_not": ok &= not other(S)
            if verb=="should_only": ok &= not any(edge(S,O) for O in Os)
    return ok
random.seed(1)
leafs=[m for m in MODS if m!="r"]
mism={}
N=0
for it in range(4000):
    k=random.randint(0,6)
    E=set()
    while len(E)<k:
        a,b=random.sample(leafs,2)
        if not related(a,b): E.add((a,b))
    ev=G(MODS,E)
    ns=random.randint(1,2); no=random.randint(1,2)
    picks=random.sample(["r.a","r.b","r.c","r.d","r.a.x","r.b.x"], ns+no)
    if any(related(x,y) for x,y in itertools.combinations(picks,2)): continue
    subs,objs=picks[:ns],picks[ns:]
    skind=random.choice("np"); okind=random.choice("np")
    if skind=="p" and any(not desc(s,True) for s in subs): continue
    if okind=="p" and any(not desc(o,True) for o in objs): continue
    for verb in("should","should_only","should_not"):
      for direction in("imp","by"):
        for exc in(False,True):
            N+=1
            got=verdict(build(verb,direction,exc,subs,objs,skind,okind),ev)
            exp=ref(verb,direction,exc,subs,objs,E,skind,okind)
            if got!=exp:
                key=(verb,direction,exc,skind,okind,len(subs)>1,len(objs)>1)
                mism.setdefault(key,[]).append((subs,objs,sorted(E),got,exp))
print("evaluated",N,"mismatch classes",len(mism))
for k,v in sorted(mism.items()):
    print(k,len(v),v[0])
