import os, sys, tempfile, shutil, textwrap
from pathlib import Path
from pytestarch import get_evaluable_architecture, Rule, LayerRule, LayeredArchitecture
from pytestarch.eval_structure.evaluable_architecture import ModuleNameFilter

def mk(tree):
    d = Path(tempfile.mkdtemp(prefix="pp"))
    for rel, src in tree.items():
        p = d/rel; p.parent.mkdir(parents=True, exist_ok=True); p.write_text(textwrap.dedent(src))
    return d

def edges(ev):
    g = ev._graph._graph
    return sorted((a,b) for a,b,d in g.edges(data=True) if not d['inherits'])

# C02 nesting
d = mk({"root/__init__.py":"", "root/a.py": """
if 1:
    import root.b
else:
    import root.c
try:
    import root.d
except Exception:
    import root.e
else:
    import root.f
finally:
    import root.g
for i in []:
    import root.h
else:
    import root.i
while 0:
    pass
else:
    import root.j
with open('x') as f:
    import root.k
match 1:
    case 1:
        import root.l
def f():
    class C:
        import root.m
try:
    pass
except* ValueError:
    import root.n
""", **{f"root/{x}.py":"" for x in "bcdefghijklmn"}})
ev = get_evaluable_architecture(str(d/"root"), str(d/"root"))
print("C02 nesting:", edges(ev))
shutil.rmtree(d)

# C02 from forms
d = mk({"root/__init__.py":"", "root/pkg/__init__.py":"", "root/pkg/sub.py":"", "root/pkg/other.py":"X=1",
 "root/a.py":"from root.pkg import sub\nfrom root.pkg import X\n", 
 "root/pkg/b.py":"from . import sub\nfrom .other import X\nfrom .. import a\nfrom ..pkg import other\n",
 "root/c.py":"from root.pkg import *\nimport root.pkg.sub as s, root.a\n",
 "root/pkg/__init__.py":"from . import sub\nfrom .other import X\n",
 })
ev = get_evaluable_architecture(str(d/"root"), str(d/"root"))
print("C02 forms:", edges(ev))
shutil.rmtree(d)
