from pytestarch import Rule
from pytestarch.eval_structure.evaluable_graph import EvaluableArchitectureGraph
from pytestarch.eval_structure.networkxgraph import NetworkxGraph
from pytestarch.eval_structure_generation.file_import.import_types import AbsoluteImport
def G(mods, imps, level=None):
    return EvaluableArchitectureGraph(NetworkxGraph(mods, [AbsoluteImport(a,b) for a,b in imps], level))
def run(label, f):
    try:
        r=f(); print(label, "-> PASS", r if r is not None else "")
    except AssertionError as e:
        print(label, "-> AssertionError:", str(e).replace("\n"," | "))
    except Exception as e:
        print(label, "-> EXC", type(e).__name__, e)
ev = G(["p","p.m","p.y","p.z","p.x","p.w"], [("p.z","p.m"),("p.x","p.z"),("p.w","p.x")])
run("C03 backward transitive", lambda: Rule().modules_that().are_named("p.m").should_not().be_imported_by_modules_except_modules_that().are_named("p.y").assert_applies(ev))
run("C03 should_only be imported by y", lambda: Rule().modules_that().are_named("p.m").should_only().be_imported_by_modules_that().are_named("p.y").assert_applies(ev))
run("C03 should_not be imported by anything", lambda: Rule().modules_that().are_named("p.m").should_not().be_imported_by_anything().assert_applies(ev))
# forward mirror
ev2 = G(["p","p.m","p.y","p.z","p.x","p.w"], [("p.m","p.z"),("p.z","p.x"),("p.x","p.w")])
run("C03 forward mirror", lambda: Rule().modules_that().are_named("p.m").should_not().import_modules_except_modules_that().are_named("p.y").assert_applies(ev2))
