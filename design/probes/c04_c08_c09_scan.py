import os, sys, tempfile, shutil, textwrap, traceback
from pathlib import Path
from pytestarch import get_evaluable_architecture, Rule
def mk(tree):
    d = Path(tempfile.mkdtemp(prefix="pp"))
    for rel, src in tree.items():
        p = d/rel; p.parent.mkdir(parents=True, exist_ok=True); p.write_text(textwrap.dedent(src))
    return d
def edges(ev):
    g = ev._graph._graph
    return sorted((a,b) for a,b,d in g.edges(data=True) if not d['inherits'])
tree = {"root/__init__.py":"", "root/sub/__init__.py":"", "root/sub/pk/__init__.py":"", "root/sub/pk/m.py":"import root.sub.pk.n\nimport pk.o\nimport sub.pk.p\nfrom . import n\nimport root.subx.q\nimport root.other.z\n",
  "root/sub/pk/n.py":"", "root/sub/pk/o.py":"", "root/sub/pk/p.py":"", "root/subx/__init__.py":"", "root/subx/q.py":"import root.sub.pk.n", "root/other/z.py":"", "root/sub/pkx.py":"import root.sub.pk.m", "root/sub/nodunder/f.py": "from ..pk import m\nfrom root.sub import pk"}
d = mk(tree)
for mp in ["root", "root/sub", "root/sub/pk"]:
    ev = get_evaluable_architecture(str(d/"root"), str(d/mp))
    print("C04 module_path", mp, "\n   mods:", sorted(ev.modules), "\n   edges:", edges(ev))
for k in [1,2]:
  for mp in ["root", "root/sub"]:
    ev = get_evaluable_architecture(str(d/"root"), str(d/mp), level_limit=k)
    print("C09 limit",k,"module_path", mp, "\n   mods:", sorted(ev.modules), "\n   edges:", edges(ev))
# C08
for ex in [("*pk*",), ("*pk",), ("*/pk",), ("*subx*","*__pycache__*"), ("*m.py",), ("*.py",)]:
    ev = get_evaluable_architecture(str(d/"root"), str(d/"root"), exclusions=ex)
    print("C08", ex, sorted(ev.modules), edges(ev))
shutil.rmtree(d)
