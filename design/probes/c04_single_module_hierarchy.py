"""Probe for D20 (C04): a scan that yields one module two or more levels below the root must still connect the ancestor chain.

    PYTHONPATH=/repo/src /venv/bin/python design/probes/c04_single_module_hierarchy.py

Before /repo 75806b6 the printed edge list was [('proj.a.b', 'proj.a.b.c')] only: `_add_edges_within_module_hierarchy` asked for the edge
(proj, proj.a) before proj.a was a node and `_create_edge` silently skips edges between non-nodes. Not run by any check (static only)."""
import tempfile
from pathlib import Path

from pytestarch import get_evaluable_architecture

with tempfile.TemporaryDirectory() as tmp:
    root = Path(tmp) / "proj"
    (root / "a" / "b" / "c").mkdir(parents=True)
    arch = get_evaluable_architecture(str(root), str(root / "a" / "b" / "c"))
    edges = sorted(arch._graph._graph.edges)
    print(sorted(arch.modules))
    print(edges)
    assert edges == [("proj", "proj.a"), ("proj.a", "proj.a.b"), ("proj.a.b", "proj.a.b.c")], edges
