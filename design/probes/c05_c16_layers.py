import os, sys, tempfile, shutil, textwrap, traceback
from pathlib import Path
from pytestarch import get_evaluable_architecture, Rule, LayerRule, LayeredArchitecture
from pytestarch.eval_structure.evaluable_graph import EvaluableArchitectureGraph
from pytestarch.eval_structure.networkxgraph import NetworkxGraph
from pytestarch.eval_structure_generation.file_import.import_types import AbsoluteImport

def G(mods, imps, level=None):
    return EvaluableArchitectureGraph(NetworkxGraph(mods, [AbsoluteImport(a,b) for a,b in imps], level))
def run(label, f):
    try:
        f(); print(label, "-> PASS")
    except AssertionError as e:
        print(label, "-> AssertionError:", str(e).replace("\n"," | "))
    except Exception as e:
        print(label, "-> EXC", type(e).__name__, e)

# C05: regex layer unused by the rule
ev = G(["r","r.a","r.b","r.c","r.d"], [("r.a","r.b")])
arch = LayeredArchitecture().layer("A").containing_modules(["r.a"]).layer("B").containing_modules("r.b").layer("C").have_modules_with_names_matching(r"r\.c")
run("C05 unused regex layer", lambda: LayerRule().based_on(arch).layers_that().are_named("A").should().access_layers_that().are_named("B").assert_applies(ev))
arch2 = LayeredArchitecture().layer("A").containing_modules(["r.a"]).layer("B").containing_modules("r.b").layer("C").containing_modules("r.c")
run("C05 unused named layer", lambda: LayerRule().based_on(arch2).layers_that().are_named("A").should().access_layers_that().are_named("B").assert_applies(ev))
# C05 intra-layer import as the only 'other'
ev2 = G(["r","r.a","r.a2","r.b","r.c"], [("r.a","r.a2")])
arch3 = LayeredArchitecture().layer("A").containing_modules(["r.a","r.a2"]).layer("B").containing_modules("r.b")
run("C05 should access except B, only intra-layer import (expect fail)", lambda: LayerRule().based_on(arch3).layers_that().are_named("A").should().access_layers_except_layers_that().are_named("B").assert_applies(ev2))
run("C05 should_not access except B, only intra-layer import (expect pass)", lambda: LayerRule().based_on(arch3).layers_that().are_named("A").should_not().access_layers_except_layers_that().are_named("B").assert_applies(ev2))
run("C05 should_not access any (expect pass)", lambda: LayerRule().based_on(arch3).layers_that().are_named("A").should_not().access_any_layer().assert_applies(ev2))

# C16: string duplicates
def c16():
    a = LayeredArchitecture().layer("A").containing_modules("mod").layer("B").containing_modules("mod")
    print("   accepted:", a)
run("C16 str dup", c16)
def c16b():
    a = LayeredArchitecture().layer("A").containing_modules(["mod"]).layer("B").containing_modules(["mod"])
run("C16 list dup", c16b)
def c16c():
    a = LayeredArchitecture().layer("A").containing_modules(["m"]).layer("B").containing_modules("mm")
    print("   accepted:", a)
run("C16 str 'mm' vs list ['m'] (should be accepted)", c16c)
def c16d():
    a = LayeredArchitecture().layer("A").have_modules_with_names_matching("x").layer("B").have_modules_with_names_matching("x")
    print("   accepted:", a)
run("C16 regex dup", c16d)
def c16e():
    a = LayeredArchitecture().layer("A").containing_modules([])
    a.layer("B")
run("C16 empty list then layer", c16e)
