"""D19 probe: a layer rule whose object layers mix a regex-defined and a name-defined layer.

`Rule._add_modules` created its per-module factory lambdas inside the loop without binding `name_is_regex`, so every module of one
`are_named([...])` call got the regex flag of the *last* module.
"""
from pytestarch import LayeredArchitecture, LayerRule
from pytestarch.eval_structure.evaluable_graph import EvaluableArchitectureGraph
from pytestarch.eval_structure.networkxgraph import NetworkxGraph
from pytestarch.eval_structure_generation.file_import.import_types import AbsoluteImport

mods = ["p", "p.a", "p.ab", "p.b", "p.c"]
imps = [AbsoluteImport("p.c", "p.ab")]
ev = EvaluableArchitectureGraph(NetworkxGraph(mods, imps))


def arch():
    return (
        LayeredArchitecture()
        .layer("A").containing_modules(["p.a"])
        .layer("B").have_modules_with_names_matching(r"^p\.b$")
        .layer("C").containing_modules(["p.c"])
    )


def run(objs):
    try:
        LayerRule().based_on(arch()).layers_that().are_named("C").should_not().access_layers_that().are_named(objs).assert_applies(ev)
        return "PASS"
    except AssertionError as e:
        return "AssertionError: " + str(e)
    except Exception as e:  # noqa
        return f"EXC {type(e).__name__} {e}"


print("C05 mixed [regex, name] (expect PASS):", run(["B", "A"]))
print("C05 mixed [name, regex] (expect PASS, p.ab is not in layer A):", run(["A", "B"]))
