import tempfile, os
from pathlib import Path
from pytestarch.diagram_extension.diagram_parser import PumlParser
def P(text):
    f = tempfile.NamedTemporaryFile("w", suffix=".puml", delete=False); f.write(text); f.close()
    try:
        r = PumlParser().parse(Path(f.name)); return (sorted(r.all_modules), {k: sorted(v) for k,v in sorted(r.dependencies.items())})
    except Exception as e:
        return ("EXC", type(e).__name__, str(e)[:80])
    finally: os.unlink(f.name)
cases = {
 "basic": "@startuml\n[A] --> [B]\n[B] -> [C]\n[D] <-- [A]\n[D] <- [C]\n[A] -uses-> [D]\n[C] <-x- [B]\n@enduml",
 "alias mix": "@startuml\n[Module A] as a\ncomponent [B] as b\ncomponent C\na --> b\n[B] --> C\nC --> a\n@enduml",
 "alias later": "@startuml\na --> [B]\n[A] as a\n@enduml",
 "alias+name same dependor": "@startuml\n[A] as a\na --> [B]\n[A] --> [C]\n@enduml",
 "dotted": "@startuml\n[src.a.b] --> [src.c]\n@enduml",
 "dotted decl": "@startuml\n[src.a.b] as x\ncomponent src.c\nx --> src.c\n@enduml",
 "noise": "hello @startuml nothing\n@startuml\n[A] --> [B]\n@enduml\ntrailing [X] --> [Y]",
 "notags": "[A] --> [B]",
 "two per line/indent": "@startuml\n  [A] --> [B]\n\t[C] --> [D]\n@enduml",
 "long arrow": "@startuml\n[A] ---> [B]\n[A] ..> [C]\n[A] -up-> [D]\n@enduml",
 "trailing label": "@startuml\n[A] --> [B] : uses\n[C] <-- [D] : uses\n@enduml",
 "decl with alias bare ref": "@startuml\ncomponent [My Comp] as mc\nmc --> [Other]\n@enduml",
 "start only": "@startuml\n[A] --> [B]\n",
 "empty diagram": "@startuml\n@enduml",
 "same line tags": "@startuml [A] --> [B] @enduml",
 "nested enduml": "@startuml\n[A] --> [B]\n@enduml\n@startuml\n[C] --> [D]\n@enduml",
 "underscore/digits": "@startuml\n[a_1] --> [b2]\n@enduml",
 "spaces in bracket arrows": "@startuml\n[Mod A] --> [Mod B]\n@enduml",
}
for k,v in cases.items(): print(k, "=>", P(v))
