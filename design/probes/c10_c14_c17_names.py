import os, sys, tempfile, shutil, textwrap, traceback
from pathlib import Path
from pytestarch import get_evaluable_architecture, Rule, LayerRule, LayeredArchitecture
from pytestarch.eval_structure.evaluable_graph import EvaluableArchitectureGraph
from pytestarch.eval_structure.networkxgraph import NetworkxGraph
from pytestarch.eval_structure_generation.file_import.import_types import AbsoluteImport

def mk(tree):
    d = Path(tempfile.mkdtemp(prefix="pp"))
    for rel, src in tree.items():
        p = d/rel; p.parent.mkdir(parents=True, exist_ok=True); p.write_text(textwrap.dedent(src))
    return d
def edges(ev):
    g = ev._graph._graph
    return sorted((a,b) for a,b,d in g.edges(data=True) if not d['inherits'])
def G(mods, imps, level=None):
    return EvaluableArchitectureGraph(NetworkxGraph(mods, [AbsoluteImport(a,b) for a,b in imps], level))
def run(label, f):
    try:
        r=f(); print(label, "-> PASS", r if r is not None else "")
    except AssertionError as e:
        print(label, "-> AssertionError:", str(e).replace("\n"," | "))
    except Exception as e:
        print(label, "-> EXC", type(e).__name__, e)

# C10
d = mk({"root/__init__.py":"", "root/handlers.py":"import logging.handlers\nimport os\n", "root/a.py":"import root.handlers\nimport rootx.foo\nimport xlogging\n"})
for kw in [dict(), dict(exclude_external_libraries=False), dict(exclude_external_libraries=False, external_exclusions=("*handlers",)),
           dict(exclude_external_libraries=False, regex_external_exclusions=("logging",)),dict(exclude_external_libraries=False, external_exclusions=("root*",))]:
    ev = get_evaluable_architecture(str(d/"root"), str(d/"root"), **kw)
    print("C10", kw, sorted(ev.modules), edges(ev))
# relative root path: substring test in ImporteeModuleCalculator
os.chdir(d)
ev = get_evaluable_architecture("root", "root", exclude_external_libraries=False)
print("C10 relative root:", sorted(ev.modules), edges(ev))
d2 = mk({"o/__init__.py":"", "o/a.py":"import os\nimport collections.abc\n"})
os.chdir(d2)
ev = get_evaluable_architecture("o", "o", exclude_external_libraries=False)
print("C10 relative root 'o':", sorted(ev.modules), edges(ev))
os.chdir(tempfile.gettempdir())
shutil.rmtree(d); shutil.rmtree(d2)

# C14: prefix siblings
ev = G(["p","p.a","p.ab","p.a.x","p.c"], [("p.ab","p.c")])
arch = LayeredArchitecture().layer("A").containing_modules(["p.a"]).layer("C").containing_modules(["p.c"])
run("C14 layer: p.ab not in layer A; A should_not access C (expect PASS)", lambda: LayerRule().based_on(arch).layers_that().are_named("A").should_not().access_layers_that().are_named("C").assert_applies(ev))
run("C14 layer msg: C should_not be accessed by anything", lambda: LayerRule().based_on(arch).layers_that().are_named("C").should_not().be_accessed_by_any_layer().assert_applies(ev))
arch2 = LayeredArchitecture().layer("A").containing_modules(["p.a"]).layer("AB").containing_modules(["p.ab"]).layer("C").containing_modules(["p.c"])
run("C14 layer mismatch: AB should_not access C", lambda: LayerRule().based_on(arch2).layers_that().are_named("AB").should_not().access_layers_that().are_named("C").assert_applies(ev))
# anything w/ batch subjects p.a, p.ab
ev3 = G(["p","p.a","p.ab","p.c"], [("p.ab","p.c")])
run("C14 anything dedupe: [p.a,p.ab] should_not import anything (expect FAIL p.ab imports p.c)", lambda: Rule().modules_that().are_named(["p.a","p.ab"]).should_not().import_anything().assert_applies(ev3))
# C17 labels
run("C17 labels", lambda: ev._graph._create_plot_labels_with_alias({"p.a":"A"}))
ev4 = G(["p","p.a+","p.c"], [])
run("C17 labels meta", lambda: G(["p","p.a","p.axb","p.a.b"],[])._graph._create_plot_labels_with_alias({"p.a":"A"}))
run("C17 labels dotregex", lambda: G(["pxa","p.a","p"],[])._graph._create_plot_labels_with_alias({"p.a":"A"}))
