import os, sys, tempfile, shutil, textwrap
from pathlib import Path
from pytestarch import get_evaluable_architecture
def mk(tree):
    d = Path(tempfile.mkdtemp(prefix="pp"))
    for rel, src in tree.items():
        p = d/rel; p.parent.mkdir(parents=True, exist_ok=True); p.write_text(textwrap.dedent(src))
    return d
def edges(ev):
    g = ev._graph._graph
    return sorted((a,b) for a,b,d in g.edges(data=True) if not d['inherits'])
d = mk({"root/__init__.py":"def func(): pass", "root/pkg/__init__.py":"X=1", "root/pkg/b.py":"from . import X\nfrom .. import func\nfrom root.pkg import X\nimport os.path\n", "rootlib/__init__.py":"", })
for kw in [dict(), dict(exclude_external_libraries=False)]:
    ev = get_evaluable_architecture(str(d/"root"), str(d/"root"), **kw)
    print("phantom?", kw, sorted(ev.modules), edges(ev))
# internal-prefix startswith: module_path root/pk, sibling root/pkx external to module_path
d2 = mk({"root/__init__.py":"", "root/pk/__init__.py":"", "root/pk/a.py":"import root.pkx.z\nimport rootlib.q\nimport root.pk.b\n", "root/pk/b.py":"", "root/pkx/z.py":""})
for kw in [dict(), dict(exclude_external_libraries=False), dict(exclude_external_libraries=False, external_exclusions=("root.pkx*",)), dict(exclude_external_libraries=False, external_exclusions=("rootlib*",))]:
    ev = get_evaluable_architecture(str(d2/"root"), str(d2/"root/pk"), **kw)
    print("prefix", kw, sorted(ev.modules), edges(ev))
ev = get_evaluable_architecture(str(d2/"root"), str(d2/"root"), exclude_external_libraries=False, external_exclusions=("rootlib*",))
print("prefix root==module", sorted(ev.modules), edges(ev))
shutil.rmtree(d); shutil.rmtree(d2)
