import itertools, random, warnings
warnings.simplefilter("ignore")
exec(open(__file__.replace("c11_c12_laws","c01_reference_diff")).read().split("random.seed(1)")[0])
random.seed(2)
leafs=[m for m in MODS if m!="r"]
viol={}
def note(k, info): viol.setdefault(k,[]).append(info)
N=0
for it in range(3000):
    k=random.randint(0,6)
    E=set()
    while len(E)<k:
        a,b=random.sample(leafs,2)
        if not related(a,b): E.add((a,b))
    ev=G(MODS,E)
    cand=["r.a","r.b","r.c","r.d","r.a.x","r.b.x","r.a.y"]
    s=random.choice(cand); o=random.choice(cand)
    skind=random.choice("np"); okind=random.choice("np")
    if skind=="p" and not desc(s,True): continue
    if okind=="p" and not desc(o,True): continue
    def V(verb,direction,exc,subs=[s],objs=[o],sk=skind,ok=okind):
        try: return verdict(build(verb,direction,exc,subs,objs,sk,ok),ev)
        except Exception as e: return "EXC:"+type(e).__name__
    info=(s,skind,o,okind,sorted(E))
    N+=1
    # duality
    for verb in ("should","should_not"):
        a=V(verb,"imp",False); b=V(verb,"by",False,[o],[s],okind,skind)
        if a!=b: note(("dual",verb,related(s,o)),info+(a,b))
    # negation
    for exc in (False,True):
      for d in ("imp","by"):
        a=V("should",d,exc); b=V("should_not",d,exc)
        if isinstance(a,bool) and isinstance(b,bool) and a==b: note(("neg",d,exc,related(s,o)),info+(a,b))
        # decomposition
        so=V("should_only",d,exc); sh=V("should",d,exc); sn=V("should_not",d,not exc)
        if all(isinstance(x,bool) for x in (so,sh,sn)) and so!=(sh and sn): note(("decomp",d,exc,related(s,o)),info+(so,sh,sn))
    # C11 batch conjunction subjects
    s2=random.choice(cand)
    if s2!=s and skind=="n":
      for verb in ("should","should_only","should_not"):
        for d in ("imp","by"):
          for exc in (False,True):
            a=V(verb,d,exc,[s,s2],[o]); b1=V(verb,d,exc,[s],[o]); b2=V(verb,d,exc,[s2],[o])
            if all(isinstance(x,bool) for x in (a,b1,b2)) and a!=(b1 and b2): note(("batchS",verb,d,exc,related(s,s2),related(s,o) or related(s2,o)),info+(s2,a,b1,b2))
    o2=random.choice(cand)
    if o2!=o and okind=="n":
      for verb in ("should","should_not"):
        for d in ("imp","by"):
            a=V(verb,d,False,[s],[o,o2]); b1=V(verb,d,False,[s],[o]); b2=V(verb,d,False,[s],[o2])
            if all(isinstance(x,bool) for x in (a,b1,b2)) and a!=(b1 and b2): note(("batchO",verb,d,related(o,o2)),info+(o2,a,b1,b2))
print("N",N,"violation classes",len(viol))
for k,v in sorted(viol.items(), key=str): print(k,len(v),v[0])
