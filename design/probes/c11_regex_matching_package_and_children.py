"""should_not().access_any_layer() with a subject layer given by a regex that matches a package *and* its sub modules."""
import os, tempfile
from pytestarch import LayeredArchitecture, LayerRule, get_evaluable_architecture

base = tempfile.mkdtemp(prefix="c05_item3_")
root = os.path.join(base, "proj")
files = {
    "proj/__init__.py": "",
    "proj/storage/__init__.py": "",
    "proj/storage/tables.py": "from proj.domain import model\n",
    "proj/domain/__init__.py": "",
    "proj/domain/model.py": "",
}
for rel, text in files.items():
    p = os.path.join(base, rel)
    os.makedirs(os.path.dirname(p), exist_ok=True)
    open(p, "w").write(text)
ev = get_evaluable_architecture(root, root)

def verdict(storage_spec, alias="access_any_layer", behavior="should_not", subject="storage"):
    arch = LayeredArchitecture()
    for layer, spec in {"storage": storage_spec, "domain": ["proj.domain"]}.items():
        arch = arch.layer(layer)
        arch = arch.have_modules_with_names_matching(spec) if isinstance(spec, str) else arch.containing_modules(spec)
    rule = getattr(getattr(LayerRule().based_on(arch).layers_that().are_named(subject), behavior)(), alias)()
    try:
        rule.assert_applies(ev)
        return "passes"
    except AssertionError as e:
        return "FAILS: " + str(e).replace("\n", " | ")[:150]

print("named  ['proj.storage']           :", verdict(["proj.storage"]))
print("regex  proj\\.storage$  (pkg only)  :", verdict(r"proj\.storage$"))
print("regex  proj\\.storage   (pkg+subs)  :", verdict(r"proj\.storage"))
print("regex  proj\\.storage\\..* (subs only):", verdict(r"proj\.storage\..*"))
print("--- equivalent long form: should_not access_layers_except_layers_that are_named(storage) is not offered; try should_not access_layers_that(domain)")
def verdict2(storage_spec):
    arch = LayeredArchitecture()
    for layer, spec in {"storage": storage_spec, "domain": ["proj.domain"]}.items():
        arch = arch.layer(layer)
        arch = arch.have_modules_with_names_matching(spec) if isinstance(spec, str) else arch.containing_modules(spec)
    rule = LayerRule().based_on(arch).layers_that().are_named("storage").should_not().access_layers_that().are_named("domain")
    try:
        rule.assert_applies(ev); return "passes"
    except AssertionError as e:
        return "FAILS: " + str(e).replace("\n", " | ")[:150]
for spec in (["proj.storage"], r"proj\.storage$", r"proj\.storage", r"proj\.storage\..*"):
    print("should_not access_layers_that domain, storage =", spec, ":", verdict2(spec))
print("--- module rule analogue")
from pytestarch import Rule
for label, rule in {
    "name proj.storage": Rule().modules_that().are_named("proj.storage"),
    "regex proj\\.storage": Rule().modules_that().have_name_matching(r"proj\.storage"),
    "names [proj.storage, proj.storage.tables]": Rule().modules_that().are_named(["proj.storage", "proj.storage.tables"]),
}.items():
    try:
        rule.should_not().import_anything().assert_applies(ev); print(label, ": passes")
    except AssertionError as e:
        print(label, ": FAILS:", str(e).replace("\n", " | ")[:120])
print("--- layer listing a package and its child by name")
print(verdict(["proj.storage", "proj.storage.tables"]))
print("--- be_accessed_by_any_layer, domain by regex")
def verdict3(domain_spec):
    arch = LayeredArchitecture()
    for layer, spec in {"storage": ["proj.storage"], "domain": domain_spec}.items():
        arch = arch.layer(layer)
        arch = arch.have_modules_with_names_matching(spec) if isinstance(spec, str) else arch.containing_modules(spec)
    rule = LayerRule().based_on(arch).layers_that().are_named("domain").should_not().be_accessed_by_any_layer()
    try:
        rule.assert_applies(ev); return "passes"
    except AssertionError as e:
        return "FAILS: " + str(e).replace("\n", " | ")[:150]
for spec in (["proj.domain"], r"proj\.domain$", r"proj\.domain"):
    print(spec, verdict3(spec))
