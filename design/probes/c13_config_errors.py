import os, sys, tempfile, shutil, textwrap, traceback
from pathlib import Path
from pytestarch import get_evaluable_architecture, Rule, LayerRule, LayeredArchitecture, DiagramRule
from pytestarch.eval_structure.evaluable_graph import EvaluableArchitectureGraph
from pytestarch.eval_structure.networkxgraph import NetworkxGraph
from pytestarch.eval_structure_generation.file_import.import_types import AbsoluteImport
from pytestarch.diagram_extension.diagram_parser import PumlParser

def G(mods, imps, level=None):
    return EvaluableArchitectureGraph(NetworkxGraph(mods, [AbsoluteImport(a,b) for a,b in imps], level))
def run(label, f):
    try:
        r=f(); print(label, "-> PASS", r if r is not None else "")
    except AssertionError as e:
        print(label, "-> AssertionError:", str(e).replace("\n"," | "))
    except Exception as e:
        print(label, "-> EXC", type(e).__name__, e)

ev = G(["p","p.a","p.b","p.c"], [("p.a","p.b")])
run("C13 should import_anything", lambda: Rule().modules_that().are_named("p.a").should().import_anything().assert_applies(ev))
run("C13 should_only import_anything", lambda: Rule().modules_that().are_named("p.a").should_only().be_imported_by_anything().assert_applies(ev))
run("C13 should_not import_anything", lambda: Rule().modules_that().are_named("p.c").should_not().import_anything().assert_applies(ev))
run("C13 should+should_only", lambda: Rule().modules_that().are_named("p.a").should().should_only().import_modules_that().are_named("p.b").assert_applies(ev))
run("C13 unknown subj", lambda: Rule().modules_that().are_named("p.zz").should_not().import_modules_that().are_named("p.b").assert_applies(ev))
run("C13 unknown obj", lambda: Rule().modules_that().are_named("p.a").should_not().import_modules_that().are_named("p.zz").assert_applies(ev))
run("C13 unknown obj except", lambda: Rule().modules_that().are_named("p.a").should_not().import_modules_except_modules_that().are_named("p.zz").assert_applies(ev))
run("C13 unknown obj imported-by except", lambda: Rule().modules_that().are_named("p.a").should_not().be_imported_by_modules_except_modules_that().are_named("p.zz").assert_applies(ev))
run("C13 unknown subj imported-by except", lambda: Rule().modules_that().are_named("p.zz").should().be_imported_by_modules_except_modules_that().are_named("p.a").assert_applies(ev))
run("C13 unknown submodules-of obj", lambda: Rule().modules_that().are_named("p.a").should_not().import_modules_that().are_sub_modules_of("p.zz").assert_applies(ev))
run("C13 empty list subj", lambda: Rule().modules_that().are_named([]).should_not().import_modules_that().are_named("p.b").assert_applies(ev))
run("C13 str(rule) anything", lambda: str(Rule().modules_that().are_named("p.c").should_not().import_anything()))
arch = LayeredArchitecture().layer("A").containing_modules(["p.a"]).layer("B").containing_modules("p.b")
run("C13 layer undefined", lambda: LayerRule().based_on(arch).layers_that().are_named("A").should().access_layers_that().are_named("ZZ").assert_applies(ev))
run("C13 layer batch subj", lambda: LayerRule().based_on(arch).layers_that().are_named(["A","B"]).should().access_layers_that().are_named("B").assert_applies(ev))
run("C13 layer subj twice", lambda: LayerRule().based_on(arch).layers_that().are_named("A").are_named("B").should().access_layers_that().are_named("B").assert_applies(ev))
run("C13 layer: layer with unknown module", lambda: LayerRule().based_on(LayeredArchitecture().layer("A").containing_modules(["p.a"]).layer("B").containing_modules("p.zz")).layers_that().are_named("A").should_not().access_layers_that().are_named("B").assert_applies(ev))
run("C13 layer: unmentioned layer with unknown module", lambda: LayerRule().based_on(LayeredArchitecture().layer("A").containing_modules(["p.a"]).layer("B").containing_modules("p.b").layer("Z").containing_modules("p.zz")).layers_that().are_named("A").should().access_layers_that().are_named("B").assert_applies(ev))
run("C13 layer rule w/o object", lambda: LayerRule().based_on(arch).layers_that().are_named("A").should().access_layers_that().assert_applies(ev))
run("C13 diagram nofile", lambda: DiagramRule().assert_applies(ev))
run("C13 level-limited deep", lambda: Rule().modules_that().are_named("p.a.x").should_not().import_modules_that().are_named("p.b").assert_applies(G(["p","p.a","p.a.x","p.b"],[],1)))
