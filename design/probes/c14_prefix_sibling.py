import os, sys, tempfile, shutil, textwrap
from pathlib import Path
from pytestarch import get_evaluable_architecture
def mk(tree):
    d = Path(tempfile.mkdtemp(prefix="pp"))
    for rel, src in tree.items():
        p = d/rel; p.parent.mkdir(parents=True, exist_ok=True); p.write_text(textwrap.dedent(src))
    return d
def edges(ev):
    g = ev._graph._graph
    return sorted((a,b) for a,b,d in g.edges(data=True) if not d['inherits'])
d2 = mk({"root/__init__.py":"", "root/pk/__init__.py":"", "root/pk/a.py":"import root.pkx.z\nimport root.qq.z\n", "root/pkx/z.py":"", "root/qq/z.py":""})
ev = get_evaluable_architecture(str(d2/"root"), str(d2/"root/pk"), exclude_external_libraries=False, regex_external_exclusions=(r"root\.pkx$",r"root\.qq$"), exclusions=None, regex_exclusions=("zzz",))
print(sorted(ev.modules), edges(ev))
shutil.rmtree(d2)
