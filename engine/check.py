#!/venv/bin/python
"""Entry point of the static checks.

    check.py <Cxx> [--tier quick|thorough]     decide one property on /repo's current working tree
    check.py --replay <path>                   re-run the rule named in a replay file
    check.py --self-check                      interpreter / dependency / parse sanity (MANIFEST.setup_cmd)
    check.py --list                            list properties and rules

Exit codes: 0 = every obligation discharged (known findings are printed as KNOWN-FINDING lines);
            1 = `VIOLATION property=<id> replay=<path>` (a construct violates a rule and is not a listed finding);
            2 = `ANALYSIS-ERROR ...` (anchor vanished, unknown idiom, floor not reached, checker crashed) - never a pass.
"""

from __future__ import annotations

import argparse
import importlib
import json
import os
import sys
import traceback
from pathlib import Path

HERE = Path(__file__).resolve().parent
sys.path.insert(0, str(HERE))

from core.loader import AnalysisError, Repo, repo_root  # noqa: E402
from core.report import Result, Timer, is_known, load_known_findings, write_evidence, write_replay  # noqa: E402

PROPERTIES = [f"C{i:02d}" for i in range(1, 18)]


def load_rules(pid: str):
    try:
        return importlib.import_module(f"rules.{pid.lower()}")
    except ModuleNotFoundError as e:
        raise AnalysisError(f"no rule module for {pid}: {e}") from e


def analyse(pid: str, root: Path | None = None) -> Result:
    repo = Repo(root)
    mod = load_rules(pid)
    res: Result = mod.run(repo)
    res.analysed.setdefault("files", len(repo.modules))
    res.analysed.setdefault("functions", len(repo.funcs))
    res.analysed.setdefault("classes", len(repo.classes))
    res.analysed.setdefault("source_digest", repo.digest)
    res.analysed.setdefault("repo", str(repo.root))
    for rule, (expected, found) in res.floors.items():
        # a floor miss next to reported violations is a consequence of the violation, not a vacuous pass
        if found < expected and not res.violations:
            raise AnalysisError(f"{pid} {rule}: only {found} instance(s) found, floor is {expected} (rule would pass vacuously)")
    if res.undecided and not res.violations:
        u = res.undecided[0]
        raise AnalysisError(f"{pid} {u['rule']}: cannot classify `{u['construct']}` ({u['detail']}); {len(res.undecided)} undecided construct(s) - no verdict")
    return res


def run_check(pid: str, tier: str, seed: int) -> int:
    timer = Timer()
    res = analyse(pid)
    known = load_known_findings()
    new, hits = [], []
    for ob in res.violations:
        k = is_known(ob, pid, known)
        if k is not None:
            hits.append((ob, k))
        else:
            new.append(ob)
    extra = {}
    if tier == "thorough":
        import selftest

        extra = selftest.run(pid, seed)
    path = write_evidence(res, tier, seed, timer.elapsed, new, hits, extra)
    print(
        f"{pid} [{tier}] analysed {res.analysed.get('files')} files / {res.analysed.get('functions')} functions; "
        f"{len(res.obligations)} obligations, {sum(1 for o in res.obligations if o.ok)} discharged; evidence {path}"
    )
    for ob, k in hits:
        print(f"KNOWN-FINDING: property={pid} {k.text} [{ob.rule} {ob.construct}]")
    code = 0
    for n, ob in enumerate(new, 1):
        rp = write_replay(pid, ob, n, str(repo_root()))
        print(f"  {ob.rule} {ob.where} {ob.construct}\n      {ob.detail}")
        print(f"VIOLATION property={pid} replay={rp}")
        code = 1
    if tier == "thorough" and extra.get("selftest_failures"):
        for line in extra["selftest_failures"]:
            print(f"ANALYSIS-ERROR selftest {pid}: {line}")
        code = code or 2
    return code


def self_check() -> int:
    import ast as _ast

    import networkx  # noqa: F401

    repo = Repo()
    n = sum(1 for _ in repo.modules)
    if sys.version_info[:2] != (3, 12):
        print(f"note: running under Python {sys.version_info[:2]}, pytestarch's interpreter is 3.12")
    print(f"self-check ok: python {sys.version.split()[0]}, networkx {networkx.__version__}, {n} modules parsed, ast grammar classes: {len([c for c in vars(_ast).values() if isinstance(c, type) and issubclass(c, _ast.AST)])}")
    return 0


def main(argv: list[str]) -> int:
    ap = argparse.ArgumentParser()
    ap.add_argument("property", nargs="?")
    ap.add_argument("--tier", default=os.environ.get("VERIF_TIER", "quick"), choices=["quick", "thorough"])
    ap.add_argument("--replay")
    ap.add_argument("--self-check", action="store_true")
    ap.add_argument("--list", action="store_true")
    args = ap.parse_args(argv)
    seed = int(os.environ.get("VERIF_SEED", "0") or 0)
    try:
        if args.self_check:
            return self_check()
        if args.list:
            for pid in PROPERTIES:
                try:
                    mod = load_rules(pid)
                    print(pid, (mod.__doc__ or "").strip().splitlines()[0])
                except AnalysisError:
                    print(pid, "(no rules)")
            return 0
        if args.replay:
            doc = json.loads(Path(args.replay).read_text())
            pid = doc["property_id"]
            print(f"replaying {doc['rule']} on {doc['construct']}")
            return run_check(pid, "quick", seed)
        if not args.property:
            ap.error("property id required")
        return run_check(args.property.upper(), args.tier, seed)
    except AnalysisError as e:
        print(f"ANALYSIS-ERROR {e}")
        return 2
    except Exception:  # a crash of the checker is never a verdict
        traceback.print_exc()
        print("ANALYSIS-ERROR checker crashed (traceback above)")
        return 2


if __name__ == "__main__":
    sys.exit(main(sys.argv[1:]))
