"""Statement-level control-flow graph, dominance and syntax-directed path conditions.

Covers the statement kinds that occur in src/pytestarch (If, For, While, Try/handlers/else/finally, With, Match,
Return, Raise, Continue, Break, simple statements). Comprehensions and conditional expressions are handled at
expression level by `expr_conditions`.
"""

from __future__ import annotations

import ast
from typing import Iterable

import networkx as nx

from .loader import AnalysisError, ancestors, parent

ENTRY = "<ENTRY>"
EXIT = "<EXIT>"  # normal return
RAISE = "<RAISE>"  # exceptional exit
END = "<END>"  # virtual join of EXIT and RAISE (for post-dominance)

Cond = tuple[ast.expr, bool]


def _is_const_true(e: ast.expr) -> bool:
    return isinstance(e, ast.Constant) and bool(e.value) is True


class CFG:
    def __init__(self, fn: ast.AST) -> None:
        self.fn = fn
        self.g = nx.DiGraph()
        self.g.add_nodes_from([ENTRY, EXIT, RAISE, END])
        body = [ast.Return(value=fn.body)] if isinstance(fn, ast.Lambda) else fn.body
        self._handlers: list[list[ast.ExceptHandler]] = []
        out = self._seq(body, [(ENTRY, None)], None)
        self._link(out, EXIT)
        self.g.add_edge(EXIT, END)
        self.g.add_edge(RAISE, END)
        self._idom: dict | None = None
        self._ipdom: dict | None = None

    # ------------------------------------------------------------- construction
    def _link(self, preds: Iterable[tuple[object, object]], node: object) -> None:
        for p, label in preds:
            if self.g.has_edge(p, node):
                self.g[p][node]["labels"].add(label)
            else:
                self.g.add_edge(p, node, labels={label})

    def _seq(self, stmts: list[ast.stmt], preds: list, loop: dict | None) -> list:
        for s in stmts:
            preds = self._stmt(s, preds, loop)
        return preds

    def _may_raise_to_handlers(self, s: object) -> None:
        # conservative: any statement inside a try body may transfer control to each of its handlers
        if self._handlers:
            for h in self._handlers[-1]:
                self._link([(s, "exc")], h)

    def _stmt(self, s: ast.stmt, preds: list, loop: dict | None) -> list:
        self.g.add_node(s)
        self._link(preds, s)
        self._may_raise_to_handlers(s)
        if isinstance(s, ast.If):
            t = self._seq(s.body, [(s, True)], loop)
            f = self._seq(s.orelse, [(s, False)], loop) if s.orelse else [(s, False)]
            return t + f
        if isinstance(s, (ast.For, ast.AsyncFor, ast.While)):
            info = {"header": s, "breaks": []}
            body_out = self._seq(s.body, [(s, True)], info)
            self._link(body_out, s)
            exits = [] if (isinstance(s, ast.While) and _is_const_true(s.test)) else [(s, False)]
            if s.orelse:
                exits = self._seq(s.orelse, exits, loop)
            return exits + info["breaks"]
        if isinstance(s, (ast.Try, getattr(ast, "TryStar", ast.Try))):
            self._handlers.append(list(s.handlers))
            body_out = self._seq(s.body, [(s, None)], loop)
            self._handlers.pop()
            outs = self._seq(s.orelse, body_out, loop) if s.orelse else body_out
            for h in s.handlers:
                self.g.add_node(h)
                self._link([(s, "exc")], h)
                self._may_raise_to_handlers(h)
                outs = outs + self._seq(h.body, [(h, None)], loop)
            if s.finalbody:
                outs = self._seq(s.finalbody, outs, loop)
            return outs
        if isinstance(s, (ast.With, ast.AsyncWith)):
            return self._seq(s.body, [(s, None)], loop)
        if isinstance(s, ast.Match):
            outs: list = []
            wildcard = False
            for i, case in enumerate(s.cases):
                outs += self._seq(case.body, [(s, ("case", i))], loop)
                if isinstance(case.pattern, ast.MatchAs) and case.pattern.pattern is None and case.guard is None:
                    wildcard = True
            if not wildcard:
                outs.append((s, "nomatch"))
            return outs
        if isinstance(s, ast.Return):
            self._link([(s, None)], EXIT)
            return []
        if isinstance(s, ast.Raise):
            if not self._handlers:
                self._link([(s, None)], RAISE)
            else:
                # may be caught by an enclosing handler or propagate
                self._link([(s, None)], RAISE)
            return []
        if isinstance(s, ast.Continue):
            if loop is None:
                raise AnalysisError("continue outside loop")
            self._link([(s, None)], loop["header"])
            return []
        if isinstance(s, ast.Break):
            if loop is None:
                raise AnalysisError("break outside loop")
            loop["breaks"].append((s, None))
            return []
        # simple statement (incl. nested def/class, which do not execute their bodies here)
        return [(s, None)]

    # ------------------------------------------------------------- queries
    @property
    def idom(self) -> dict:
        if self._idom is None:
            self._idom = nx.immediate_dominators(self.g, ENTRY)
        return self._idom

    @property
    def ipdom(self) -> dict:
        if self._ipdom is None:
            self._ipdom = nx.immediate_dominators(self.g.reverse(copy=True), END)
        return self._ipdom

    def reachable(self, node: object) -> bool:
        return node in self.idom

    def dominates(self, a: object, b: object) -> bool:
        """Every path ENTRY -> b passes through a (a == b counts)."""
        if b not in self.idom:
            return True  # b unreachable: vacuous
        n = b
        while True:
            if n is a:
                return True
            d = self.idom.get(n)
            if d is None or d is n:
                return False
            n = d

    def postdominates(self, a: object, b: object) -> bool:
        """Every path b -> END passes through a."""
        if b not in self.ipdom:
            return True
        n = b
        while True:
            if n is a:
                return True
            d = self.ipdom.get(n)
            if d is None or d is n:
                return False
            n = d

    def stmts(self) -> list[ast.AST]:
        return [n for n in self.g.nodes if isinstance(n, ast.AST)]

    def paths_avoiding(self, src: object, dst: object, avoid: set) -> bool:
        """True if dst is reachable from src without passing through any node of `avoid`."""
        seen = {src}
        stack = [src]
        while stack:
            n = stack.pop()
            if n is dst:
                return True
            for m in self.g.successors(n):
                if m in seen or (m in avoid and m is not dst):
                    continue
                seen.add(m)
                stack.append(m)
        return False


# --------------------------------------------------------------------------- termination


def always_exits(stmts: list[ast.stmt]) -> bool:
    """The block never falls through (every path ends in return / raise / continue / break)."""
    for s in stmts:
        if isinstance(s, (ast.Return, ast.Raise, ast.Continue, ast.Break)):
            return True
        if isinstance(s, ast.If) and s.orelse and always_exits(s.body) and always_exits(s.orelse):
            return True
        if isinstance(s, (ast.With, ast.AsyncWith)) and always_exits(s.body):
            return True
        if isinstance(s, ast.Try):
            if s.finalbody and always_exits(s.finalbody):
                return True
            if always_exits(s.body + s.orelse) and all(always_exits(h.body) for h in s.handlers):
                return True
        if isinstance(s, ast.While) and _is_const_true(s.test) and not any(isinstance(n, ast.Break) for n in ast.walk(s)):
            return True
    return False


def exit_kinds(stmts: list[ast.stmt]) -> set[str]:
    """Kinds of the early exits a block can take ('return', 'raise', 'continue', 'break', 'fall')."""
    kinds: set[str] = set()
    for s in stmts:
        if isinstance(s, ast.Return):
            kinds.add("return")
            return kinds
        if isinstance(s, ast.Raise):
            kinds.add("raise")
            return kinds
        if isinstance(s, ast.Continue):
            kinds.add("continue")
            return kinds
        if isinstance(s, ast.Break):
            kinds.add("break")
            return kinds
        if isinstance(s, ast.If):
            a = exit_kinds(s.body)
            b = exit_kinds(s.orelse) if s.orelse else {"fall"}
            kinds |= (a | b) - {"fall"}
            if "fall" not in a and "fall" not in b:
                return kinds
        elif isinstance(s, (ast.With, ast.AsyncWith, ast.For, ast.AsyncFor, ast.While, ast.Try)):
            for blk in (getattr(s, "body", []), getattr(s, "orelse", []), getattr(s, "finalbody", [])):
                kinds |= exit_kinds(blk) - {"fall"}
            for h in getattr(s, "handlers", []):
                kinds |= exit_kinds(h.body) - {"fall"}
    kinds.add("fall")
    return kinds


# --------------------------------------------------------------------------- path conditions


def _targets(node: ast.AST) -> set[str]:
    """Textual keys of everything a statement (re)binds or stores into: names and attribute chains."""
    out: set[str] = set()

    def add_target(t: ast.AST) -> None:
        if isinstance(t, (ast.Tuple, ast.List)):
            for e in t.elts:
                add_target(e)
        elif isinstance(t, ast.Starred):
            add_target(t.value)
        elif isinstance(t, ast.Name):
            out.add(t.id)
        elif isinstance(t, ast.Attribute):
            out.add(ast.unparse(t))
        elif isinstance(t, ast.Subscript):
            out.add(ast.unparse(t.value))

    for n in ast.walk(node):
        if isinstance(n, ast.Assign):
            for t in n.targets:
                add_target(t)
        elif isinstance(n, (ast.AugAssign, ast.AnnAssign)):
            add_target(n.target)
        elif isinstance(n, (ast.For, ast.AsyncFor)):
            add_target(n.target)
        elif isinstance(n, ast.comprehension):
            pass  # comprehension variables are scoped
        elif isinstance(n, ast.NamedExpr):
            add_target(n.target)
        elif isinstance(n, (ast.With, ast.AsyncWith)):
            for it in n.items:
                if it.optional_vars is not None:
                    add_target(it.optional_vars)
        elif isinstance(n, ast.ExceptHandler) and n.name:
            out.add(n.name)
        elif isinstance(n, ast.Delete):
            for t in n.targets:
                add_target(t)
        elif isinstance(n, ast.Call) and isinstance(n.func, ast.Attribute) and n.func.attr in MUTATORS:
            # x.append(...) changes the truthiness / membership facts about x
            out.add(ast.unparse(n.func.value))
    return out


MUTATORS = {
    "append", "extend", "add", "update", "remove", "pop", "clear", "sort", "insert", "discard", "popitem", "setdefault",
    "reverse", "difference_update", "intersection_update", "symmetric_difference_update", "appendleft", "popleft",
}


def _mentions(e: ast.expr, killed: set[str]) -> bool:
    for n in ast.walk(e):
        if isinstance(n, ast.Name) and n.id in killed:
            return True
        if isinstance(n, ast.Attribute) and ast.unparse(n) in killed:
            return True
    return False


def _kill(conds: list[Cond], killed: set[str]) -> list[Cond]:
    if not killed:
        return conds
    return [c for c in conds if not _mentions(c[0], killed)]


def path_conditions(fn: ast.AST) -> dict[ast.AST, list[Cond]]:
    """For every statement of `fn`: branch conditions (with polarity) that hold whenever it executes.

    Syntax-directed: enclosing branch tests, plus the negation of every preceding early-exit test in the same block;
    a condition is dropped as soon as something it mentions is re-assigned or mutated.
    """
    out: dict[ast.AST, list[Cond]] = {}

    def block(stmts: list[ast.stmt], conds: list[Cond]) -> list[Cond]:
        conds = list(conds)
        for s in stmts:
            out[s] = list(conds)
            if isinstance(s, ast.If):
                block(s.body, conds + [(s.test, True)])
                block(s.orelse, conds + [(s.test, False)])
                body_exits = always_exits(s.body)
                else_exits = bool(s.orelse) and always_exits(s.orelse)
                killed = _targets(s)
                conds = _kill(conds, killed)
                if body_exits and not _mentions(s.test, killed):
                    conds = conds + [(s.test, False)]
                if else_exits and not _mentions(s.test, killed):
                    conds = conds + [(s.test, True)]
            elif isinstance(s, (ast.For, ast.AsyncFor)):
                killed = _targets(s)
                inner = _kill(conds, killed)
                block(s.body, inner)
                block(s.orelse, inner)
                conds = inner
            elif isinstance(s, ast.While):
                killed = _targets(s)
                inner = _kill(conds, killed)
                block(s.body, inner + ([(s.test, True)] if not _mentions(s.test, set()) else []))
                block(s.orelse, inner)
                conds = inner
                if not any(isinstance(n, ast.Break) for n in ast.walk(s)) and not _mentions(s.test, killed):
                    conds = conds + [(s.test, False)]
            elif isinstance(s, ast.Try):
                killed = _targets(s)
                block(s.body, conds)
                inner = _kill(conds, killed)
                for h in s.handlers:
                    out[h] = list(inner)
                    block(h.body, inner)
                block(s.orelse, inner)
                block(s.finalbody, inner)
                conds = inner
            elif isinstance(s, (ast.With, ast.AsyncWith)):
                conds = _kill(conds, {t for it in s.items if it.optional_vars is not None for t in _targets(ast.Assign(targets=[it.optional_vars], value=ast.Constant(0)))})
                conds = block(s.body, conds)
            elif isinstance(s, ast.Match):
                for case in s.cases:
                    block(case.body, _kill(conds, _targets(s)))
                conds = _kill(conds, _targets(s))
            else:
                conds = _kill(conds, _targets(s))
        return conds

    body = [ast.Return(value=fn.body)] if isinstance(fn, ast.Lambda) else fn.body
    block(body, [])
    return out


def expr_conditions(node: ast.AST) -> list[Cond]:
    """Conditions implied by the position of `node` inside its enclosing statement's expression tree."""
    conds: list[Cond] = []
    child = node
    for p in ancestors(node):
        if isinstance(p, ast.stmt):
            break
        if isinstance(p, ast.BoolOp):
            idx = next((i for i, v in enumerate(p.values) if v is child), None)
            if idx:
                pol = isinstance(p.op, ast.And)
                conds += [(v, pol) for v in p.values[:idx]]
        elif isinstance(p, ast.IfExp):
            if child is p.body:
                conds.append((p.test, True))
            elif child is p.orelse:
                conds.append((p.test, False))
        elif isinstance(p, (ast.ListComp, ast.SetComp, ast.GeneratorExp, ast.DictComp)):
            elts = [p.key, p.value] if isinstance(p, ast.DictComp) else [p.elt]
            if any(child is e for e in elts):
                for g in p.generators:
                    conds += [(c, True) for c in g.ifs]
        elif isinstance(p, ast.comprehension):
            pass
        child = p
    return conds


def stmt_of(node: ast.AST) -> ast.AST | None:
    n: ast.AST | None = node
    while n is not None and not isinstance(n, (ast.stmt, ast.ExceptHandler)):
        n = parent(n)
    return n


def conditions_at(fn: ast.AST, node: ast.AST, pc: dict[ast.AST, list[Cond]] | None = None) -> list[Cond]:
    """All conditions known to hold when `node` (statement or sub-expression) is evaluated inside `fn`."""
    pc = pc if pc is not None else path_conditions(fn)
    s = stmt_of(node)
    base = list(pc.get(s, [])) if s is not None else []
    # a sub-expression of a compound statement's *body* is covered by the body statement itself; a node in the header
    # (test / iter) only gets the header's conditions
    return base + expr_conditions(node)
