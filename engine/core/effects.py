"""Effect analysis: which objects a function may write to (attribute / item stores, mutating method calls).

A write is classified by the root of its receiver:
  self       - the instance the method is bound to (field named)
  classvar   - state shared by all instances: a class attribute (also when reached through `self.`), `cls.x`, `Class.x`
  global     - a module-level name
  param      - a (non-self) parameter: the obligation moves to the call sites
  local      - a local variable; `fresh` tells whether it can only hold objects created inside this function
  unknown
Freshness: a local is fresh if every assignment to it in the function is a literal, a comprehension, a constructor call, a call
of a builtin that builds a new container (list/set/dict/sorted/...), `.copy()`, or a call of a repo function all of whose returns
are fresh.
"""

from __future__ import annotations

import ast
from dataclasses import dataclass

from .cfg import MUTATORS
from .loader import FuncInfo, Repo, own_nodes
from .types import Types, members

FRESH_BUILTINS = {"list", "set", "dict", "tuple", "frozenset", "sorted", "defaultdict", "OrderedDict", "Counter", "deque", "str", "int", "bool", "map", "filter", "zip", "enumerate", "reversed", "range", "len", "replace", "partial", "product", "iter"}
ALL_MUTATORS = MUTATORS | {"__setitem__", "__delitem__"}


@dataclass
class Write:
    fi: FuncInfo
    node: ast.AST  # the store / call
    how: str  # "attr-store" | "item-store" | "call:<method>" | "del" | "global-store"
    root_kind: str  # self | classvar | global | param | local | unknown
    root: str  # variable / class name
    field: str  # attribute path below the root ("_graph", "_configuration.should", "")
    fresh: bool  # receiver can only be an object created in this function


def _root_and_path(e: ast.AST) -> tuple[ast.AST, list[str]]:
    path: list[str] = []
    while True:
        if isinstance(e, ast.Attribute):
            path.append(e.attr)
            e = e.value
        elif isinstance(e, ast.Subscript):
            path.append("[]")
            e = e.value
        elif isinstance(e, ast.Call) and isinstance(e.func, ast.Attribute) and e.func.attr in ("setdefault", "get", "__getitem__"):
            # d.setdefault(k, set()).update(..) mutates (a value inside) d
            path.append("[]")
            e = e.func.value
        else:
            break
    return e, list(reversed(path))


class Effects:
    def __init__(self, repo: Repo, types: Types) -> None:
        self.repo = repo
        self.T = types
        self._fresh_ret: dict[str, bool] = {}
        self._writes: dict[str, list[Write]] = {}
        self._in_progress: set[str] = set()

    # ------------------------------------------------------------------ freshness
    def returns_fresh(self, f: FuncInfo) -> bool:
        if f.fq in self._fresh_ret:
            return self._fresh_ret[f.fq]
        if f.fq in self._in_progress:
            return False
        self._in_progress.add(f.fq)
        try:
            if isinstance(f.node, ast.Lambda):
                ok = self.fresh_expr(f, f.node.body)
            else:
                rets = [n.value for n in own_nodes(f.node) if isinstance(n, ast.Return) and n.value is not None]
                ok = bool(rets) and all(self.fresh_expr(f, r) for r in rets)
        finally:
            self._in_progress.discard(f.fq)
        self._fresh_ret[f.fq] = ok
        return ok

    def fresh_expr(self, f: FuncInfo, e: ast.expr, depth: int = 0) -> bool:
        if depth > 6:
            return False
        if isinstance(e, (ast.Constant, ast.JoinedStr, ast.List, ast.Set, ast.Dict, ast.Tuple, ast.ListComp, ast.SetComp, ast.DictComp, ast.GeneratorExp, ast.Compare, ast.BoolOp, ast.UnaryOp, ast.Lambda)):
            if isinstance(e, ast.BoolOp):
                return all(self.fresh_expr(f, v, depth + 1) for v in e.values)
            return True
        if isinstance(e, ast.BinOp):
            return True  # list + list, str + str build new objects
        if isinstance(e, ast.IfExp):
            return self.fresh_expr(f, e.body, depth + 1) and self.fresh_expr(f, e.orelse, depth + 1)
        if isinstance(e, ast.Name):
            return self.fresh_local(f, e.id, depth + 1)
        if isinstance(e, ast.Call):
            fn = e.func
            if isinstance(fn, ast.Name) and fn.id in FRESH_BUILTINS and self.repo.resolve_name(f.module, fn) in (None, f"collections.{fn.id}", f"functools.{fn.id}", f"itertools.{fn.id}", f"dataclasses.{fn.id}"):
                return True
            if isinstance(fn, ast.Attribute) and fn.attr in ("copy", "union", "intersection", "difference", "symmetric_difference", "split", "rsplit", "join", "replace", "strip", "format", "keys", "values", "items", "lower", "upper", "relative_to", "resolve", "with_suffix"):
                return True
            if self.T.ctor_class(f, e) is not None:
                return True
            cs, how = self.T.callees(f, e, byname_fallback=False)
            if cs:
                return all(self.returns_fresh(c) or self.T.returns_self(c) and isinstance(fn, ast.Attribute) and self.fresh_expr(f, fn.value, depth + 1) for c in cs)
            if how == "lib":
                fq = self.repo.resolve_name(f.module, fn) if isinstance(fn, (ast.Name, ast.Attribute)) else None
                return fq is not None and not fq.startswith("pytestarch")
            return False
        if isinstance(e, ast.Subscript):
            return isinstance(e.slice, ast.Slice)  # slicing copies
        return False

    def fresh_local(self, f: FuncInfo, name: str, depth: int = 0) -> bool:
        if isinstance(f.node, ast.Lambda) or name in f.param_names:
            return False
        values: list[ast.expr] = []
        for n in own_nodes(f.node):
            if isinstance(n, ast.Assign):
                for t in n.targets:
                    if isinstance(t, ast.Name) and t.id == name:
                        values.append(n.value)
                    elif isinstance(t, (ast.Tuple, ast.List)) and any(isinstance(x, ast.Name) and x.id == name for x in t.elts):
                        return False
            elif isinstance(n, ast.AnnAssign) and isinstance(n.target, ast.Name) and n.target.id == name and n.value is not None:
                values.append(n.value)
            elif isinstance(n, (ast.For, ast.AsyncFor)) and any(isinstance(x, ast.Name) and x.id == name for x in ast.walk(n.target)):
                return False  # element of some container
            elif isinstance(n, ast.comprehension) and any(isinstance(x, ast.Name) and x.id == name for x in ast.walk(n.target)):
                return False
            elif isinstance(n, (ast.With, ast.AsyncWith)):
                for it in n.items:
                    if it.optional_vars is not None and any(isinstance(x, ast.Name) and x.id == name for x in ast.walk(it.optional_vars)):
                        return True  # context-managed resource opened here
        if not values:
            return False
        return all(self.fresh_expr(f, v, depth + 1) for v in values)

    # ------------------------------------------------------------------ writes
    def writes(self, f: FuncInfo) -> list[Write]:
        if f.fq in self._writes:
            return self._writes[f.fq]
        out: list[Write] = []
        self._writes[f.fq] = out
        if isinstance(f.node, ast.Lambda):
            nodes = list(own_nodes(f.node))
        else:
            nodes = list(own_nodes(f.node))
        globals_declared: set[str] = set()
        for n in nodes:
            if isinstance(n, (ast.Global, ast.Nonlocal)):
                globals_declared |= set(n.names)
        for n in nodes:
            if isinstance(n, (ast.Assign, ast.AugAssign, ast.AnnAssign)):
                targets = n.targets if isinstance(n, ast.Assign) else [n.target]
                if isinstance(n, ast.AnnAssign) and n.value is None:
                    continue
                for t in targets:
                    for el in (t.elts if isinstance(t, (ast.Tuple, ast.List)) else [t]):
                        if isinstance(el, ast.Attribute):
                            out.append(self._classify(f, el.value, [el.attr], n, "attr-store"))
                        elif isinstance(el, ast.Subscript):
                            out.append(self._classify(f, el.value, ["[]"], n, "item-store"))
                        elif isinstance(el, ast.Name) and el.id in globals_declared:
                            out.append(Write(f, n, "global-store", "global", el.id, "", False))
            elif isinstance(n, ast.Delete):
                for t in n.targets:
                    if isinstance(t, ast.Attribute):
                        out.append(self._classify(f, t.value, [t.attr], n, "del"))
                    elif isinstance(t, ast.Subscript):
                        out.append(self._classify(f, t.value, ["[]"], n, "del"))
            elif isinstance(n, ast.Call) and isinstance(n.func, ast.Attribute) and n.func.attr in MUTATORS:
                recv_t = self.T.expr(f, n.func.value)
                # only container / unknown receivers: `Rule.update(...)`-like repo methods are handled through the call graph
                if any(m[0] == "cls" and self.repo.lookup_method(self.repo.classes[m[1]], n.func.attr) for m in members(recv_t) if m[0] == "cls" and m[1] in self.repo.classes):
                    continue
                if any(m[0] == "b" and m[1] == "str" for m in members(recv_t)):
                    continue
                if any(m[0] == "lib" and m[1] in ("pathlib.Path", "re.Match", "re.Pattern") for m in members(recv_t)):
                    continue
                out.append(self._classify(f, n.func.value, [], n, f"call:{n.func.attr}"))
        return out

    def _classify(self, f: FuncInfo, recv: ast.AST, suffix: list[str], node: ast.AST, how: str) -> Write:
        root, path = _root_and_path(recv)
        path = path + suffix
        field = ".".join(p for p in path if p != "[]") if path else ""
        if isinstance(root, ast.Name):
            name = root.id
            first = f.params[0].arg if f.params else None
            bound = f.cls is not None and f.outer is None and not f.is_staticmethod
            if bound and name == first and not f.is_classmethod:
                # self.<attr>...: class-level state if <attr> is only defined in a class body (never assigned on the instance)
                if path and path[0] != "[]" and self._is_class_level(f, path[0]) and (len(path) > 1 or how != "attr-store"):
                    return Write(f, node, how, "classvar", f.cls.name, field, False)
                return Write(f, node, how, "self", name, field, False)
            if bound and name == first and f.is_classmethod:
                return Write(f, node, how, "classvar", f.cls.name, field, False)
            if name in f.param_names:
                return Write(f, node, how, "param", name, field, False)
            # enclosing function's variables (closures)
            outer = f.outer
            while outer is not None:
                if name in outer.param_names or any(isinstance(x, ast.Name) and x.id == name and isinstance(x.ctx, ast.Store) for x in own_nodes(outer.node)):
                    return Write(f, node, how, "local", name, field, self.fresh_local(outer, name))
                outer = outer.outer
            if self._is_local(f, name):
                return Write(f, node, how, "local", name, field, self.fresh_local(f, name))
            if name in f.module.classes or (self.repo.resolve_name(f.module, root) or "") in self.repo.classes:
                return Write(f, node, how, "classvar", name, field, False)
            if name in f.module.constants or name in f.module.imports:
                return Write(f, node, how, "global", name, field, False)
            return Write(f, node, how, "unknown", name, field, False)
        if isinstance(root, ast.Call):
            # e.g. self._get_x().append(..): fresh iff the call returns fresh
            return Write(f, node, how, "local", ast.unparse(root)[:40], field, self.fresh_expr(f, root))
        return Write(f, node, how, "unknown", ast.unparse(root)[:40], field, False)

    @staticmethod
    def _is_local(f: FuncInfo, name: str) -> bool:
        for n in own_nodes(f.node):
            if isinstance(n, ast.Name) and n.id == name and isinstance(n.ctx, ast.Store):
                return True
            if isinstance(n, ast.ExceptHandler) and n.name == name:
                return True
        return False

    def _is_class_level(self, f: FuncInfo, attr: str) -> bool:
        """`attr` is defined in a class body of the MRO and never assigned through `self.` in any method."""
        assert f.cls is not None
        in_body = False
        for c in self.repo.mro(f.cls):
            if attr in c.class_attrs:
                in_body = True
            for m in [*c.methods.values(), *c.extra_methods]:
                if not m.params or m.is_classmethod or m.is_staticmethod:
                    continue
                selfname = m.params[0].arg
                for n in own_nodes(m.node):
                    tgts = []
                    if isinstance(n, ast.Assign):
                        tgts = n.targets
                    elif isinstance(n, (ast.AnnAssign, ast.AugAssign)):
                        tgts = [n.target]
                    for t in tgts:
                        for el in (t.elts if isinstance(t, (ast.Tuple, ast.List)) else [t]):
                            if isinstance(el, ast.Attribute) and isinstance(el.value, ast.Name) and el.value.id == selfname and el.attr == attr:
                                return False
        return in_body
