"""Constant / partial evaluation of string expressions (module constants, f-strings, single-return helper methods)."""

from __future__ import annotations

import ast

from .loader import FuncInfo, ModuleInfo, Repo, own_nodes


def fold(repo: Repo, mod: ModuleInfo, e: ast.AST, fi: FuncInfo | None = None, env: dict[str, str] | None = None, depth: int = 0) -> str | None:
    """The string an expression denotes if it is built only from constants; None otherwise."""
    if depth > 25:
        return None
    env = env or {}
    if isinstance(e, ast.Constant):
        return e.value if isinstance(e.value, str) else None
    if isinstance(e, ast.JoinedStr):
        parts = []
        for v in e.values:
            if isinstance(v, ast.Constant):
                parts.append(str(v.value))
            elif isinstance(v, ast.FormattedValue):
                if v.conversion != -1 or v.format_spec is not None:
                    return None
                s = fold(repo, mod, v.value, fi, env, depth + 1)
                if s is None:
                    return None
                parts.append(s)
        return "".join(parts)
    if isinstance(e, ast.BinOp) and isinstance(e.op, ast.Add):
        a = fold(repo, mod, e.left, fi, env, depth + 1)
        b = fold(repo, mod, e.right, fi, env, depth + 1)
        return a + b if a is not None and b is not None else None
    if isinstance(e, ast.Name):
        if e.id in env:
            return env[e.id]
        if fi is not None and not isinstance(fi.node, ast.Lambda):
            if e.id in fi.param_names:
                return None
            assigns = [
                n for n in own_nodes(fi.node)
                if isinstance(n, ast.Assign) and any(isinstance(t, ast.Name) and t.id == e.id for t in n.targets)
            ]
            others = [
                n for n in own_nodes(fi.node)
                if isinstance(n, ast.Name) and n.id == e.id and isinstance(n.ctx, ast.Store)
            ]
            if len(assigns) == 1 and len(others) == 1:
                return fold(repo, mod, assigns[0].value, fi, env, depth + 1)
            if others:
                return None
        if e.id in mod.constants:
            return fold(repo, mod, mod.constants[e.id], None, None, depth + 1)
        fq = repo.resolve_name(mod, e)
        if fq:
            m2, _, attr = fq.rpartition(".")
            om = repo.modules.get(m2)
            if om is not None and attr in om.constants:
                return fold(repo, om, om.constants[attr], None, None, depth + 1)
        return None
    if isinstance(e, ast.Attribute):
        fq = repo.resolve_name(mod, e)
        if fq:
            m2, _, attr = fq.rpartition(".")
            om = repo.modules.get(m2)
            if om is not None and attr in om.constants:
                return fold(repo, om, om.constants[attr], None, None, depth + 1)
        return None
    if isinstance(e, ast.Call):
        callee = _simple_callee(repo, mod, e, fi)
        if callee is None:
            return None
        body = [s for s in callee.body if not (isinstance(s, ast.Expr) and isinstance(s.value, ast.Constant))]
        if len(body) != 1 or not isinstance(body[0], ast.Return) or body[0].value is None:
            return None
        params = callee.param_names
        if callee.cls is not None and not callee.is_staticmethod:
            params = params[1:]
        if len(e.args) > len(params) or any(isinstance(a, ast.Starred) for a in e.args):
            return None
        new_env: dict[str, str] = {}
        for p, a in zip(params, e.args):
            s = fold(repo, mod, a, fi, env, depth + 1)
            if s is None:
                return None
            new_env[p] = s
        for k in e.keywords:
            if k.arg is None or k.arg not in params:
                return None
            s = fold(repo, mod, k.value, fi, env, depth + 1)
            if s is None:
                return None
            new_env[k.arg] = s
        return fold(repo, callee.module, body[0].value, callee, new_env, depth + 1)
    return None


def _simple_callee(repo: Repo, mod: ModuleInfo, call: ast.Call, fi: FuncInfo | None) -> FuncInfo | None:
    f = call.func
    if isinstance(f, ast.Attribute) and isinstance(f.value, ast.Name) and fi is not None and fi.cls is not None:
        if fi.params and f.value.id == fi.params[0].arg or f.value.id == fi.cls.name:
            return repo.lookup_method(fi.cls, f.attr)
    if isinstance(f, ast.Attribute) and isinstance(f.value, ast.Name) and f.value.id in mod.classes:
        return repo.lookup_method(mod.classes[f.value.id], f.attr)
    if isinstance(f, ast.Name):
        if f.id in mod.functions:
            return mod.functions[f.id]
        fq = repo.resolve_name(mod, f)
        if fq:
            m2, _, attr = fq.rpartition(".")
            om = repo.modules.get(m2)
            if om is not None and attr in om.functions:
                return om.functions[attr]
    return None
