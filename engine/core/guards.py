"""Boolean formulas extracted from the AST, evaluated over all assignments of their atoms (finite-domain evaluation).

A formula is a nested tuple: ("atom", key) | ("const", bool) | ("not", f) | ("and", [f...]) | ("or", [f...]).
Atoms are normalised sub-expressions (`x in S`, `isinstance(m, list)`, `self._rule is None`, truthiness `bool(x)`).
Nothing from the repository is executed: the evaluator below interprets formulas this module built itself.
"""

from __future__ import annotations

import ast
import itertools
from typing import Callable, Iterable

from .loader import AnalysisError, norm

Formula = tuple

TRUE: Formula = ("const", True)
FALSE: Formula = ("const", False)


def atom(key: str) -> Formula:
    return ("atom", key)


def f_not(f: Formula) -> Formula:
    if f[0] == "const":
        return ("const", not f[1])
    if f[0] == "not":
        return f[1]
    return ("not", f)


def f_and(fs: Iterable[Formula]) -> Formula:
    fs = [f for f in fs if f != TRUE]
    if any(f == FALSE for f in fs):
        return FALSE
    if not fs:
        return TRUE
    return fs[0] if len(fs) == 1 else ("and", list(fs))


def f_or(fs: Iterable[Formula]) -> Formula:
    fs = [f for f in fs if f != FALSE]
    if any(f == TRUE for f in fs):
        return TRUE
    if not fs:
        return FALSE
    return fs[0] if len(fs) == 1 else ("or", list(fs))


def _len_arg(e: ast.expr) -> ast.expr | None:
    if isinstance(e, ast.Call) and isinstance(e.func, ast.Name) and e.func.id == "len" and len(e.args) == 1:
        return e.args[0]
    return None


def _const_int(e: ast.expr) -> int | None:
    if isinstance(e, ast.Constant) and isinstance(e.value, int) and not isinstance(e.value, bool):
        return e.value
    return None


def to_formula(e: ast.expr, subst: Callable[[ast.expr], Formula | None] | None = None) -> Formula:
    """Formula of an expression evaluated for truthiness. `subst` may map sub-expressions to formulas (inlining)."""
    if subst is not None:
        r = subst(e)
        if r is not None:
            return r
    if isinstance(e, ast.Constant):
        return ("const", bool(e.value))
    if isinstance(e, ast.BoolOp):
        parts = [to_formula(v, subst) for v in e.values]
        return f_and(parts) if isinstance(e.op, ast.And) else f_or(parts)
    if isinstance(e, ast.UnaryOp) and isinstance(e.op, ast.Not):
        return f_not(to_formula(e.operand, subst))
    if isinstance(e, ast.IfExp):
        c = to_formula(e.test, subst)
        return f_or([f_and([c, to_formula(e.body, subst)]), f_and([f_not(c), to_formula(e.orelse, subst)])])
    if isinstance(e, ast.Call) and isinstance(e.func, ast.Name) and e.func.id in ("any", "all") and len(e.args) == 1:
        arg = e.args[0]
        if isinstance(arg, (ast.List, ast.Tuple)):
            parts = [to_formula(v, subst) for v in arg.elts]
            return f_or(parts) if e.func.id == "any" else f_and(parts)
    if isinstance(e, ast.Call) and isinstance(e.func, ast.Name) and e.func.id == "bool" and len(e.args) == 1:
        return to_formula(e.args[0], subst)
    if isinstance(e, ast.Compare) and len(e.ops) == 1:
        left, op, right = e.left, e.ops[0], e.comparators[0]
        if isinstance(op, ast.NotIn):
            return f_not(atom(f"{norm(left)} in {norm(right)}"))
        if isinstance(op, ast.In):
            return atom(f"{norm(left)} in {norm(right)}")
        if isinstance(op, ast.IsNot):
            return f_not(atom(f"{norm(left)} is {norm(right)}"))
        if isinstance(op, ast.Is):
            return atom(f"{norm(left)} is {norm(right)}")
        # len(x) comparisons with 0/1 -> truthiness of x
        la, ci = _len_arg(left), _const_int(right)
        if la is not None and ci is not None:
            t = to_formula(la, subst) if subst is not None and subst(la) is not None else atom(f"bool({norm(la)})")
            if (isinstance(op, ast.Gt) and ci == 0) or (isinstance(op, ast.GtE) and ci == 1) or (isinstance(op, ast.NotEq) and ci == 0):
                return t
            if (isinstance(op, ast.Eq) and ci == 0) or (isinstance(op, ast.Lt) and ci == 1) or (isinstance(op, ast.LtE) and ci == 0):
                return f_not(t)
        if isinstance(op, (ast.Eq, ast.NotEq)) and not isinstance(right, (ast.Constant, ast.List)) and not isinstance(left, ast.Constant):
            a, b = sorted([norm(left), norm(right)])  # equality is symmetric: one canonical atom
            eq = atom(f"{a} == {b}")
            return eq if isinstance(op, ast.Eq) else f_not(eq)
        if isinstance(op, ast.NotEq):
            if isinstance(right, ast.List) and not right.elts:
                return atom(f"bool({norm(left)})")
            return f_not(atom(f"{norm(left)} == {norm(right)}"))
        if isinstance(op, ast.Eq):
            if isinstance(right, ast.List) and not right.elts:
                return f_not(atom(f"bool({norm(left)})"))
            if isinstance(right, ast.Constant) and right.value is True:
                return to_formula(left, subst)
            if isinstance(right, ast.Constant) and right.value is False:
                return f_not(to_formula(left, subst))
            return atom(f"{norm(left)} == {norm(right)}")
        return atom(norm(e))
    if isinstance(e, ast.Compare):
        # chained comparison a < b < c  ==  (a < b) and (b < c)
        parts = []
        left = e.left
        for op, right in zip(e.ops, e.comparators):
            parts.append(to_formula(ast.Compare(left=left, ops=[op], comparators=[right]), subst))
            left = right
        return f_and(parts)
    if isinstance(e, ast.Call) and isinstance(e.func, ast.Name) and e.func.id == "isinstance":
        return atom(norm(e))
    if isinstance(e, ast.NamedExpr):
        return to_formula(e.value, subst)
    # any other expression used for its truthiness
    return atom(f"bool({norm(e)})")


def conds_formula(conds: list[tuple[ast.expr, bool]], subst=None) -> Formula:
    return f_and([to_formula(e, subst) if pol else f_not(to_formula(e, subst)) for e, pol in conds])


def atoms_of(f: Formula) -> set[str]:
    if f[0] == "atom":
        return {f[1]}
    if f[0] == "const":
        return set()
    if f[0] == "not":
        return atoms_of(f[1])
    out: set[str] = set()
    for g in f[1]:
        out |= atoms_of(g)
    return out


def evaluate(f: Formula, env: dict[str, bool]) -> bool:
    tag = f[0]
    if tag == "const":
        return f[1]
    if tag == "atom":
        return env[f[1]]
    if tag == "not":
        return not evaluate(f[1], env)
    if tag == "and":
        return all(evaluate(g, env) for g in f[1])
    if tag == "or":
        return any(evaluate(g, env) for g in f[1])
    raise AnalysisError(f"bad formula {f!r}")


def assignments(atoms: Iterable[str], limit: int = 14):
    atoms = sorted(set(atoms))
    if len(atoms) > limit:
        raise AnalysisError(f"formula over {len(atoms)} atoms exceeds the enumeration bound {limit}")
    for values in itertools.product([False, True], repeat=len(atoms)):
        yield dict(zip(atoms, values))


def implies(premise: Formula, conclusion: Formula, constraints: Formula = TRUE) -> bool:
    """premise -> conclusion on every assignment satisfying `constraints` (exhaustive enumeration)."""
    names = atoms_of(premise) | atoms_of(conclusion) | atoms_of(constraints)
    for env in assignments(names):
        if evaluate(constraints, env) and evaluate(premise, env) and not evaluate(conclusion, env):
            return False
    return True


def equivalent(a: Formula, b: Formula, constraints: Formula = TRUE) -> bool:
    return implies(a, b, constraints) and implies(b, a, constraints)


def satisfiable(f: Formula, constraints: Formula = TRUE) -> bool:
    names = atoms_of(f) | atoms_of(constraints)
    return any(evaluate(constraints, env) and evaluate(f, env) for env in assignments(names))


def truth_table(f: Formula, atoms: list[str]) -> list[tuple[tuple[bool, ...], bool]]:
    extra = atoms_of(f) - set(atoms)
    if extra:
        raise AnalysisError(f"formula mentions atoms outside the table domain: {sorted(extra)}")
    rows = []
    for values in itertools.product([False, True], repeat=len(atoms)):
        rows.append((values, evaluate(f, dict(zip(atoms, values)))))
    return rows


def show(f: Formula) -> str:
    tag = f[0]
    if tag == "const":
        return str(f[1])
    if tag == "atom":
        return f[1]
    if tag == "not":
        return f"not({show(f[1])})"
    sep = " and " if tag == "and" else " or "
    return "(" + sep.join(show(g) for g in f[1]) + ")"
