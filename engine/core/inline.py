"""Boolean helper inlining: a call to (or property read of) a small repo helper whose result is a boolean combination of
tests over its parameters is replaced, inside guard formulas, by that combination with the arguments substituted.

This makes every guard-based rule insensitive to "extract predicate" / "inline predicate" refactorings:

    if name == m or name.startswith(f"{m}."):            ==            if self._is_module_or_submodule_of(name, m):

Only *private* helpers (leading underscore), nested functions / lambdas bound to a local name and module-level functions of the
same module are inlined: public methods such as AbstractGraph.parent_child_relationship are vocabulary of the rules themselves
and stay atoms.  Nothing is executed; the helper's body must consist of if / return / single-assignment locals only.
"""

from __future__ import annotations

import ast
from typing import Callable

from .cfg import conditions_at, path_conditions
from .guards import FALSE, Formula, f_and, f_not, f_or, to_formula
from .loader import FuncInfo, Repo, own_nodes
from .types import Types, members

MAX_DEPTH = 4


def _simple_body(fi: FuncInfo) -> bool:
    """if / return / docstring / single-target assignments of locals / pass / raise only (no loops, try, with)."""
    if isinstance(fi.node, ast.Lambda):
        return True
    for n in own_nodes(fi.node):
        if isinstance(n, (ast.For, ast.AsyncFor, ast.While, ast.Try, ast.With, ast.AsyncWith, ast.Match, ast.Yield, ast.YieldFrom, ast.Await, ast.Global, ast.Nonlocal, ast.AugAssign, ast.Delete)):
            return False
        if isinstance(n, ast.Assign) and not (len(n.targets) == 1 and isinstance(n.targets[0], ast.Name)):
            return False
    return True


def inlinable(caller: FuncInfo, callee: FuncInfo) -> bool:
    """Private helpers, nested callables, module-level functions and static/class methods with a simple body.

    Public *instance* methods are the vocabulary of the rules (graph.parent_child_relationship, filter.is_excluded, ...): they
    read object state the caller cannot see and stay atoms.
    """
    if callee.is_abstract or not _simple_body(callee):
        return False
    if isinstance(callee.node, ast.Lambda) or callee.outer is not None:
        return True
    name = callee.name
    if name.startswith("__") and name.endswith("__"):
        return False
    if name.startswith("_"):
        return True
    return callee.cls is None or callee.is_staticmethod or callee.is_classmethod


class _Subst(ast.NodeTransformer):
    def __init__(self, ctx: FuncInfo, env: dict[str, ast.expr]) -> None:
        self.ctx = ctx
        self.env = env

    def visit_Name(self, node: ast.Name):  # noqa: N802
        if isinstance(node.ctx, ast.Load) and node.id in self.env:
            return self.env[node.id]  # already a tagged copy
        return node

    def visit_Lambda(self, node):  # noqa: N802
        return node

    def generic_visit(self, node):
        return super().generic_visit(node)


def _tagged_copy(e, ctx: FuncInfo):
    """Downward copy in which every node remembers the original node and the function it came from (for type resolution)."""
    if isinstance(e, list):
        return [_tagged_copy(x, ctx) for x in e]
    if not isinstance(e, ast.AST):
        return e
    new = type(e)()
    for f in e._fields:
        if hasattr(e, f):
            setattr(new, f, _tagged_copy(getattr(e, f), ctx))
    for a in ("lineno", "col_offset", "end_lineno", "end_col_offset"):
        if hasattr(e, a):
            setattr(new, a, getattr(e, a))
    new._orig = getattr(e, "_orig", (ctx, e))  # type: ignore[attr-defined]
    return new


def origin(e: ast.AST, default_ctx: FuncInfo) -> tuple[FuncInfo, ast.AST]:
    return getattr(e, "_orig", (default_ctx, e))


def _bind(callee: FuncInfo, call: ast.Call | None, recv: ast.expr | None, caller_ctx: FuncInfo) -> dict[str, ast.expr] | None:
    params = callee.params
    a = callee.node.args
    if a.vararg or a.kwarg:
        return None
    names = [p.arg for p in params]
    env: dict[str, ast.expr] = {}
    pos = list(names[: len(a.posonlyargs) + len(a.args)])
    if callee.cls is not None and callee.outer is None and not callee.is_staticmethod and pos:
        first = pos.pop(0)
        if recv is not None and not callee.is_classmethod:
            env[first] = recv
    if call is not None:
        if any(isinstance(x, ast.Starred) for x in call.args) or any(k.arg is None for k in call.keywords):
            return None
        if len(call.args) > len(pos):
            return None
        for p, x in zip(pos, call.args):
            env[p] = x
        for k in call.keywords:
            if k.arg not in names:
                return None
            env[k.arg] = k.value
    # defaults
    defaults = list(a.defaults)
    pos_all = [*a.posonlyargs, *a.args]
    for p, d in zip(pos_all[len(pos_all) - len(defaults):], defaults):
        env.setdefault(p.arg, d)
    for p, d in zip(a.kwonlyargs, a.kw_defaults):
        if d is not None:
            env.setdefault(p.arg, d)
    for n in names:
        if n not in env and not (callee.cls is not None and callee.outer is None and n == names[0]):
            return None
    return env


class BoolInliner:
    def __init__(self, repo: Repo, types: Types) -> None:
        self.repo = repo
        self.T = types
        self.exclude: Callable[[FuncInfo], bool] | None = None
        self._pc: dict[int, dict] = {}

    def _pcs(self, fi: FuncInfo) -> dict:
        k = id(fi.node)
        if k not in self._pc:
            self._pc[k] = path_conditions(fi.node)
        return self._pc[k]

    # ------------------------------------------------------------------ resolution
    def _callee_of(self, ctx: FuncInfo, node: ast.AST) -> tuple[FuncInfo, ast.Call | None, ast.expr | None] | None:
        """(callee, call node or None for a property read, receiver expression) if `node` is an inlinable helper use."""
        c_ctx, orig = origin(node, ctx)
        if isinstance(node, ast.Call) and isinstance(orig, ast.Call):
            try:
                cs, how = self.T.callees(c_ctx, orig, byname_fallback=False)
            except Exception:  # noqa: BLE001
                return None
            if len(cs) != 1 or how not in ("repo",):
                return None
            callee = cs[0]
            if callee.is_property or not inlinable(c_ctx, callee) or (self.exclude and self.exclude(callee)):
                return None
            recv = node.func.value if isinstance(node.func, ast.Attribute) else None
            return callee, node, recv
        if isinstance(node, ast.Attribute) and isinstance(orig, ast.Attribute) and isinstance(node.ctx, ast.Load):
            try:
                bt = self.T.expr(c_ctx, orig.value)
            except Exception:  # noqa: BLE001
                return None
            impls: list[FuncInfo] = []
            for m in members(bt):
                if m[0] == "cls":
                    ci = self.repo.classes.get(m[1])
                    if ci is not None:
                        impls += [i for i in self.repo.implementations(ci, orig.attr)]
                else:
                    return None
            impls = [i for n, i in enumerate(impls) if i not in impls[:n]]
            if len(impls) == 1 and impls[0].is_property and inlinable(c_ctx, impls[0]) and not (self.exclude and self.exclude(impls[0])):
                return impls[0], None, node.value
        return None

    # ------------------------------------------------------------------ summaries
    def summary(self, callee: FuncInfo, env: dict[str, ast.expr], depth: int, keep=None) -> Formula | None:
        """Truthiness of the helper's result with parameters replaced by `env` (tagged expressions)."""
        if depth > MAX_DEPTH:
            return None
        body_rets = [ast.Return(value=callee.node.body)] if isinstance(callee.node, ast.Lambda) else [n for n in own_nodes(callee.node) if isinstance(n, ast.Return)]
        if not body_rets:
            return None
        # single-assignment locals are substituted by their (substituted) values; re-assigned parameters defeat the summary
        local_env = dict(env)
        if not isinstance(callee.node, ast.Lambda):
            counts: dict[str, int] = {}
            for n in own_nodes(callee.node):
                if isinstance(n, ast.Name) and isinstance(n.ctx, ast.Store):
                    counts[n.id] = counts.get(n.id, 0) + 1
                if isinstance(n, ast.NamedExpr):
                    return None
            if any(p in counts for p in callee.param_names):
                return None
            if any(c > 1 for c in counts.values()):
                return None
            for n in own_nodes(callee.node):
                if isinstance(n, ast.Assign):
                    v = _Subst(callee, local_env).visit(_tagged_copy(n.value, callee))
                    local_env[n.targets[0].id] = v
        sub = self.subst(callee, depth + 1, keep)
        parts = []
        for r in body_rets:
            if r.value is None:
                continue
            conds = [] if isinstance(callee.node, ast.Lambda) else conditions_at(callee.node, r, self._pcs(callee))
            fs = []
            for e, pol in conds:
                e2 = _Subst(callee, local_env).visit(_tagged_copy(e, callee))
                f = to_formula(e2, sub)
                fs.append(f if pol else f_not(f))
            v2 = _Subst(callee, local_env).visit(_tagged_copy(r.value, callee))
            fs.append(to_formula(v2, sub))
            parts.append(f_and(fs))
        return f_or(parts) if parts else FALSE

    def subst(self, ctx: FuncInfo, depth: int = 0, keep=None) -> Callable[[ast.expr], Formula | None]:
        """`keep`: fq names (or a predicate) of helpers that must stay atoms (vocabulary of the calling rule)."""

        def kept(f: FuncInfo) -> bool:
            if keep is None:
                return False
            return keep(f) if callable(keep) else f.fq in keep

        def sub(e: ast.expr) -> Formula | None:
            if not isinstance(e, (ast.Call, ast.Attribute)):
                return None
            hit = self._callee_of(ctx, e)
            if hit is None:
                return None
            callee, call, recv = hit
            if kept(callee):
                return None
            c_ctx, _ = origin(e, ctx)
            tagged_call = None
            if call is not None:
                tagged_call = ast.Call(func=call.func, args=[a if hasattr(a, "_orig") else _tagged_copy(a, c_ctx) for a in call.args], keywords=[ast.keyword(arg=k.arg, value=k.value if hasattr(k.value, "_orig") else _tagged_copy(k.value, c_ctx)) for k in call.keywords])
            recv_t = None if recv is None else (recv if hasattr(recv, "_orig") else _tagged_copy(recv, c_ctx))
            env = _bind(callee, tagged_call, recv_t, c_ctx)
            if env is None:
                return None
            return self.summary(callee, env, depth, keep)

        return sub
