"""Statement-level inlining: a *view* of a function in which calls of small repo helpers are replaced by the helpers' bodies.

Rules that look for a mechanism ("where is the worklist pushed", "which options does draw() consume", "is the existence check
before the loop") are written against the view of a *public entry point*.  "Extract method" / "inline method" / "move helper to
another module" refactorings then leave the view (almost) unchanged, while a behavioural change is still visible in it.

    view = inline_view(repo, fi)            # synthetic FuncInfo; view.node is a fresh FunctionDef with parents set
    view.origin[node]                       # (FuncInfo, original node) the copied node came from (diagnostics)

What is inlined (depth-bounded, never recursive):
  * `helper(args)` / `self._helper(args)` / `Class._helper(args)` used as an expression statement  -> body (trailing `return` dropped)
  * `x = helper(args)` (also annotated / tuple targets)  where the helper ends in a single `return e`  -> body; `x = e`
  * `return helper(args)`                                                                    -> body (its returns become returns)
  * `for v in helper(args):` where the helper is a generator with `yield e` statements only at loop/if depth -> not inlined (kept)
Helpers must be resolved uniquely (class-hierarchy analysis yields exactly one non-abstract target), have no *args/**kwargs,
no nested defs, no `global`/`nonlocal`, and (except for the `return helper()` form) no `return` other than as their last statement.

Parameters bound to plain names are renamed to the argument name; other arguments become `p: T = <arg>` assignments in front
of the body (annotation kept for the type resolver).  Locals of the helper that clash with names of the caller are suffixed.
Nothing is executed.
"""

from __future__ import annotations

import ast
from typing import Callable

from .loader import FuncInfo, Repo, own_nodes, set_parents
from .types import Types

MAX_DEPTH = 3


def _copy(e, ctx: FuncInfo, origin: dict):
    if isinstance(e, list):
        return [_copy(x, ctx, origin) for x in e]
    if not isinstance(e, ast.AST):
        return e
    new = type(e)()
    for f in e._fields:
        if hasattr(e, f):
            setattr(new, f, _copy(getattr(e, f), ctx, origin))
    for a in ("lineno", "col_offset", "end_lineno", "end_col_offset"):
        if hasattr(e, a):
            setattr(new, a, getattr(e, a))
    origin[id(new)] = (ctx, e)
    new._src = (ctx, e)  # type: ignore[attr-defined]
    return new


def _recopy(e):
    """Fresh copy of an already copied sub-tree (keeps the `_src` back references); avoids shared nodes in the view."""
    if isinstance(e, list):
        return [_recopy(x) for x in e]
    if not isinstance(e, ast.AST):
        return e
    new = type(e)()
    for f in e._fields:
        if hasattr(e, f):
            setattr(new, f, _recopy(getattr(e, f)))
    for a in ("lineno", "col_offset", "end_lineno", "end_col_offset"):
        if hasattr(e, a):
            setattr(new, a, getattr(e, a))
    if hasattr(e, "_src"):
        new._src = e._src  # type: ignore[attr-defined]
    return new


class _Rename(ast.NodeTransformer):
    def __init__(self, names: dict[str, str], exprs: dict[str, ast.expr]) -> None:
        self.names = names
        self.exprs = exprs

    def visit_Name(self, node: ast.Name):  # noqa: N802
        if node.id in self.exprs and isinstance(node.ctx, ast.Load):
            return _recopy(self.exprs[node.id])
        if node.id in self.names:
            node.id = self.names[node.id]
        return node

    def visit_arg(self, node: ast.arg):  # noqa: N802
        return node

    def visit_Lambda(self, node: ast.Lambda):  # noqa: N802
        own = {a.arg for a in [*node.args.posonlyargs, *node.args.args, *node.args.kwonlyargs]}
        saved_n, saved_e = self.names, self.exprs
        self.names = {k: v for k, v in self.names.items() if k not in own}
        self.exprs = {k: v for k, v in self.exprs.items() if k not in own}
        node.body = self.visit(node.body)
        self.names, self.exprs = saved_n, saved_e
        return node


def _names_in(node: ast.AST) -> set[str]:
    out = {n.id for n in ast.walk(node) if isinstance(n, ast.Name)}
    out |= {a.arg for n in ast.walk(node) if isinstance(n, ast.arguments) for a in [*n.posonlyargs, *n.args, *n.kwonlyargs]}
    return out


def _is_docstring(s: ast.stmt) -> bool:
    return isinstance(s, ast.Expr) and isinstance(s.value, ast.Constant) and isinstance(s.value.value, str)


def _flip_empty(st: ast.If) -> ast.If:
    """`if c: pass else: X`  ->  `if not c: X`."""
    if st.orelse and all(isinstance(x, ast.Pass) for x in st.body):
        t = st.test
        neg = t.operand if isinstance(t, ast.UnaryOp) and isinstance(t.op, ast.Not) else ast.copy_location(ast.UnaryOp(op=ast.Not(), operand=t), t)
        if hasattr(t, "_src") and not hasattr(neg, "_src"):
            neg._src = t._src  # type: ignore[attr-defined]
        st.test, st.body, st.orelse = neg, st.orelse, []
    return st


def single_exit(block: list[ast.stmt], on_return) -> tuple[list[ast.stmt], bool]:
    """Rewrites `if c: return a` / `...; return b` chains into nested if/else with `on_return(ret)` statements instead of returns.

    Returns (statements, terminated) - `terminated` is true when every path through the block ended in a return / raise.
    """
    out: list[ast.stmt] = []
    for i, st in enumerate(block):
        if isinstance(st, ast.Return):
            out += on_return(st)
            return out, True
        if isinstance(st, ast.Raise):
            out.append(st)
            return out, True
        if isinstance(st, ast.If):
            b, bt = single_exit(st.body, on_return)
            o, ot = single_exit(st.orelse, on_return)
            rest = block[i + 1:]
            if bt and ot:
                st.body, st.orelse = b or [ast.copy_location(ast.Pass(), st)], o
                out.append(_flip_empty(st))
                return out, True
            if bt or ot:
                r, rt = single_exit(rest, on_return)
                if bt:
                    st.body, st.orelse = b or [ast.copy_location(ast.Pass(), st)], o + r
                else:
                    st.body, st.orelse = (b + r) or [ast.copy_location(ast.Pass(), st)], o
                out.append(_flip_empty(st))
                return out, rt
            st.body, st.orelse = b or [ast.copy_location(ast.Pass(), st)], o
            out.append(st)
            continue
        out.append(st)
    return out, False


class Inliner:
    def __init__(self, repo: Repo, types: Types, allow: Callable[[FuncInfo, FuncInfo], bool] | None = None, max_depth: int = MAX_DEPTH) -> None:
        self.repo = repo
        self.T = types
        self.allow = allow
        self.max_depth = max_depth
        self.inlined: list[str] = []

    # ------------------------------------------------------------------ eligibility
    def _eligible(self, caller: FuncInfo, callee: FuncInfo, form: str) -> bool:
        if callee.is_abstract or callee.is_property or isinstance(callee.node, ast.Lambda):
            return False
        a = callee.node.args
        if a.vararg or a.kwarg:
            return False
        body = [s for s in callee.node.body if not _is_docstring(s)]
        if not body:
            return False
        for n in own_nodes(callee.node):
            if isinstance(n, (ast.Yield, ast.YieldFrom, ast.Await, ast.Global, ast.Nonlocal, ast.FunctionDef, ast.AsyncFunctionDef, ast.ClassDef)):
                return False
        if form in ("expr", "assign"):
            # returns are turned into assignments / dropped by the single-exit rewrite: they must not sit inside loops, try or with
            def nested_return(stmts: list[ast.stmt], inside: bool) -> bool:
                for st in stmts:
                    if isinstance(st, ast.Return) and inside:
                        return True
                    if isinstance(st, ast.If):
                        if nested_return(st.body, inside) or nested_return(st.orelse, inside):
                            return True
                    elif isinstance(st, (ast.For, ast.AsyncFor, ast.While, ast.Try, ast.With, ast.AsyncWith, ast.Match)):
                        for fld in ("body", "orelse", "finalbody"):
                            if nested_return(getattr(st, fld, []) or [], True):
                                return True
                        for h in getattr(st, "handlers", []):
                            if nested_return(h.body, True):
                                return True
                        for c in getattr(st, "cases", []):
                            if nested_return(c.body, True):
                                return True
                return False

            if nested_return(body, False):
                return False
        if self.allow is not None and not self.allow(caller, callee):
            return False
        return True

    def _resolve(self, ctx: FuncInfo, call: ast.Call) -> FuncInfo | None:
        src = getattr(call, "_src", None)
        c_ctx, orig = src if src is not None else (ctx, call)
        if not isinstance(orig, ast.Call):
            return None
        try:
            cs, how = self.T.callees(c_ctx, orig, byname_fallback=False)
        except Exception:  # noqa: BLE001
            return None
        cs = [c for c in cs if not c.is_abstract]
        if len(cs) != 1 or how != "repo":
            return None
        return cs[0]

    # ------------------------------------------------------------------ expansion
    def _expand(self, ctx: FuncInfo, call: ast.Call, callee: FuncInfo, taken: set[str], origin: dict, stack: tuple[str, ...]):
        """(prefix statements, result expression or None, body statements) for one call; None if binding fails."""
        a = callee.node.args
        params = [p.arg for p in [*a.posonlyargs, *a.args, *a.kwonlyargs]]
        pos = [p.arg for p in [*a.posonlyargs, *a.args]]
        bind: dict[str, ast.expr] = {}
        if callee.cls is not None and callee.outer is None and not callee.is_staticmethod and pos:
            first = pos.pop(0)
            if isinstance(call.func, ast.Attribute) and not callee.is_classmethod:
                bind[first] = call.func.value
            elif callee.is_classmethod:
                # `cls` is only usable for further class-level calls; bind to the class name
                bind[first] = ast.Name(id=callee.cls.name, ctx=ast.Load())
            else:
                return None
        if any(isinstance(x, ast.Starred) for x in call.args) or any(k.arg is None for k in call.keywords) or len(call.args) > len(pos):
            return None
        for p, x in zip(pos, call.args):
            bind[p] = x
        for k in call.keywords:
            if k.arg not in params:
                return None
            bind[k.arg] = k.value
        pos_all = [*a.posonlyargs, *a.args]
        for p, d in zip(pos_all[len(pos_all) - len(a.defaults):], a.defaults):
            bind.setdefault(p.arg, _copy(d, callee, origin))
        for p, d in zip(a.kwonlyargs, a.kw_defaults):
            if d is not None:
                bind.setdefault(p.arg, _copy(d, callee, origin))
        if any(p not in bind for p in params):
            return None
        body = [_copy(s, callee, origin) for s in callee.node.body if not _is_docstring(s)]
        assigned_params = {n.id for s in body for n in ast.walk(s) if isinstance(n, ast.Name) and isinstance(n.ctx, ast.Store)} & set(params)
        locals_ = ({n.id for s in body for n in ast.walk(s) if isinstance(n, ast.Name) and isinstance(n.ctx, ast.Store)} | {h.name for s in body for h in ast.walk(s) if isinstance(h, ast.ExceptHandler) and h.name}) - set(params)
        names: dict[str, str] = {}
        exprs: dict[str, ast.expr] = {}
        prefix: list[ast.stmt] = []
        annot = {p.arg: p.annotation for p in [*a.posonlyargs, *a.args, *a.kwonlyargs]}
        for p in params:
            v = bind[p]
            if isinstance(v, ast.Name) and p not in assigned_params:
                names[p] = v.id
            elif isinstance(v, (ast.Constant,)) and p not in assigned_params:
                exprs[p] = v
            elif isinstance(v, ast.Attribute) and isinstance(v.value, ast.Name) and v.value.id in ("self", "cls") and p not in assigned_params and not self._stores_attr(body, v):
                exprs[p] = v
            else:
                new = p if p not in taken else self._fresh(p, callee.name, taken)
                taken.add(new)
                names[p] = new
                tgt = ast.Name(id=new, ctx=ast.Store())
                if annot.get(p) is not None:
                    st = ast.AnnAssign(target=tgt, annotation=_copy(annot[p], callee, origin), value=v, simple=1)
                else:
                    st = ast.Assign(targets=[tgt], value=v)
                ast.copy_location(st, call)
                st._src = (ctx, getattr(call, "_src", (ctx, call))[1])  # type: ignore[attr-defined]
                prefix.append(st)
        for l in sorted(locals_):
            if l in taken:
                new = self._fresh(l, callee.name, taken)
                names[l] = new
                taken.add(new)
            else:
                taken.add(l)
        ren = _Rename(names, exprs)
        body = [ren.visit(s) for s in body]
        self.inlined.append(callee.fq)
        # recursive expansion inside the helper's body (in the helper's context)
        body = self._block(callee, body, taken, origin, stack + (callee.fq,))
        return prefix, body

    @staticmethod
    def _stores_attr(body: list[ast.stmt], attr: ast.Attribute) -> bool:
        txt = ast.unparse(attr)
        for s in body:
            for n in ast.walk(s):
                if isinstance(n, ast.Attribute) and isinstance(n.ctx, ast.Store) and ast.unparse(n) == txt:
                    return True
        return False

    @staticmethod
    def _fresh(name: str, helper: str, taken: set[str]) -> str:
        base = f"{name}__{helper.strip('_')}"
        cand, i = base, 2
        while cand in taken:
            cand = f"{base}{i}"
            i += 1
        return cand

    def _expr_inline(self, ctx: FuncInfo, node: ast.AST, origin: dict, stack: tuple[str, ...]) -> ast.AST:
        """Replaces calls of helpers whose body is a single `return <expr>` by that expression (arguments substituted)."""
        outer = self

        class Tr(ast.NodeTransformer):
            def visit_Lambda(self, n):  # noqa: N802
                return n

            def visit_Call(self, n: ast.Call):  # noqa: N802
                self.generic_visit(n)
                if len(stack) > outer.max_depth:
                    return n
                callee = outer._resolve(ctx, n)
                if callee is None or callee.fq in stack or isinstance(callee.node, ast.Lambda):
                    return n
                body = [x for x in callee.node.body if not _is_docstring(x)]
                if len(body) != 1 or not isinstance(body[0], ast.Return) or body[0].value is None:
                    return n
                if not outer._eligible(ctx, callee, "return"):
                    return n
                a = callee.node.args
                params = [p.arg for p in [*a.posonlyargs, *a.args, *a.kwonlyargs]]
                pos = [p.arg for p in [*a.posonlyargs, *a.args]]
                bind: dict[str, ast.expr] = {}
                if callee.cls is not None and callee.outer is None and not callee.is_staticmethod and pos:
                    first = pos.pop(0)
                    if isinstance(n.func, ast.Attribute) and not callee.is_classmethod:
                        bind[first] = n.func.value
                    elif callee.is_classmethod:
                        bind[first] = ast.Name(id=callee.cls.name, ctx=ast.Load())
                    else:
                        return n
                if any(isinstance(x, ast.Starred) for x in n.args) or any(k.arg is None for k in n.keywords) or len(n.args) > len(pos):
                    return n
                for p_, x in zip(pos, n.args):
                    bind[p_] = x
                for k in n.keywords:
                    if k.arg not in params:
                        return n
                    bind[k.arg] = k.value
                pos_all = [*a.posonlyargs, *a.args]
                for p_, d in zip(pos_all[len(pos_all) - len(a.defaults):], a.defaults):
                    bind.setdefault(p_.arg, _copy(d, callee, origin))
                for p_, d in zip(a.kwonlyargs, a.kw_defaults):
                    if d is not None:
                        bind.setdefault(p_.arg, _copy(d, callee, origin))
                if any(p_ not in bind for p_ in params):
                    return n
                # comprehension / lambda variables of the helper expression must not capture caller names: they are local to it
                expr = _copy(body[0].value, callee, origin)
                expr = _Rename({}, bind).visit(expr)
                outer.inlined.append(callee.fq)
                return outer._expr_inline(callee, expr, origin, stack + (callee.fq,))

        return Tr().visit(node)

    def _try(self, ctx: FuncInfo, call: ast.AST, form: str, taken: set[str], origin: dict, stack: tuple[str, ...]):
        if not isinstance(call, ast.Call) or len(stack) > self.max_depth:
            return None
        callee = self._resolve(ctx, call)
        if callee is None or callee.fq in stack or not self._eligible(ctx, callee, form):
            return None
        return self._expand(ctx, call, callee, taken, origin, stack)

    def _block(self, ctx: FuncInfo, stmts: list[ast.stmt], taken: set[str], origin: dict, stack: tuple[str, ...]) -> list[ast.stmt]:
        out: list[ast.stmt] = []
        for s in stmts:
            done = False
            if isinstance(s, ast.Expr):
                got = self._try(ctx, s.value, "expr", taken, origin, stack)
                if got is not None:
                    prefix, body = got

                    def drop(ret: ast.Return) -> list[ast.stmt]:
                        if ret.value is not None and not isinstance(ret.value, (ast.Constant, ast.Name)):
                            return [ast.copy_location(ast.Expr(value=ret.value), ret)]
                        return []

                    body, _t = single_exit(body, drop)
                    out += prefix + body
                    done = True
            elif isinstance(s, (ast.Assign, ast.AnnAssign)) and s.value is not None:
                got = self._try(ctx, s.value, "assign", taken, origin, stack)
                if got is not None:
                    prefix, body = got
                    if body and isinstance(body[-1], ast.Return) and not any(isinstance(x, ast.Return) for st in body[:-1] for x in ast.walk(st)):
                        last = body.pop()
                        s.value = last.value if last.value is not None else ast.Constant(value=None)
                        out += prefix + body + [s]
                    else:
                        tmpl = s

                        def assign(ret: ast.Return, tmpl=tmpl) -> list[ast.stmt]:
                            st = _recopy(tmpl)
                            st.value = ret.value if ret.value is not None else ast.Constant(value=None)
                            return [ast.copy_location(st, ret)]

                        body, term = single_exit(body, assign)
                        if not term:
                            body += assign(ast.copy_location(ast.Return(value=None), s))
                        out += prefix + body
                    done = True
            elif isinstance(s, ast.Return) and s.value is not None:
                got = self._try(ctx, s.value, "return", taken, origin, stack)
                if got is not None:
                    prefix, body = got
                    out += prefix + body
                    if not (body and isinstance(body[-1], (ast.Return, ast.Raise))):
                        out.append(ast.copy_location(ast.Return(value=ast.Constant(value=None)), s))
                    done = True
            if done:
                continue
            # expression-level inlining in the statement's own expressions (not in nested blocks: those are handled recursively)
            for fld in ("value", "test", "iter", "exc", "targets", "target"):
                v = getattr(s, fld, None)
                if isinstance(v, ast.AST):
                    setattr(s, fld, self._expr_inline(ctx, v, origin, stack))
                elif isinstance(v, list) and v and isinstance(v[0], ast.expr):
                    setattr(s, fld, [self._expr_inline(ctx, x, origin, stack) for x in v])
            if isinstance(s, (ast.With, ast.AsyncWith)):
                for it in s.items:
                    it.context_expr = self._expr_inline(ctx, it.context_expr, origin, stack)
            # recurse into compound statements
            for fld in ("body", "orelse", "finalbody"):
                blk = getattr(s, fld, None)
                if isinstance(blk, list) and blk and isinstance(blk[0], ast.stmt):
                    setattr(s, fld, self._block(ctx, blk, taken, origin, stack))
            if isinstance(s, ast.Try):
                for h in s.handlers:
                    h.body = self._block(ctx, h.body, taken, origin, stack)
            if isinstance(s, ast.Match):
                for c in s.cases:
                    c.body = self._block(ctx, c.body, taken, origin, stack)
            out.append(s)
        return out

    # ------------------------------------------------------------------ entry
    def view(self, fi: FuncInfo) -> FuncInfo:
        if isinstance(fi.node, ast.Lambda):
            return fi
        origin: dict = {}
        node = _copy(fi.node, fi, origin)
        taken = _names_in(fi.node)
        self.inlined = []
        node.body = self._block(fi, node.body, taken, origin, (fi.fq,))
        ast.fix_missing_locations(node)
        set_parents(node)
        v = FuncInfo(name=fi.name, qualname=fi.qualname + "~inl", node=node, module=fi.module, cls=fi.cls, decorators=list(fi.decorators), outer=fi.outer)
        v.shown = fi.qualname  # type: ignore[attr-defined]
        v.origin = origin  # type: ignore[attr-defined]
        v.inlined = list(self.inlined)  # type: ignore[attr-defined]
        v.base = fi  # type: ignore[attr-defined]
        node._func = v  # type: ignore[attr-defined]
        # nested lambdas / defs of the copy need FuncInfos for the resolver
        for child in Repo._nested_callables(node):
            src = getattr(child, "_src", None)
            if src is not None and hasattr(src[1], "_func"):
                child._func = src[1]._func  # type: ignore[attr-defined]
        return v


def inline_view(repo: Repo, fi: FuncInfo, types: Types | None = None, allow: Callable[[FuncInfo, FuncInfo], bool] | None = None, max_depth: int = MAX_DEPTH) -> FuncInfo:
    from .types import Types as _T

    key = ("inline_view", fi.fq, id(allow), max_depth)
    cache = repo.__dict__.setdefault("_view_cache", {})
    if key not in cache:
        cache[key] = Inliner(repo, types or _T(repo), allow, max_depth).view(fi)
    return cache[key]
