"""Repository model: parses every *.py under <repo>/src/pytestarch from the current working tree.

Nothing from pytestarch is imported or executed; everything the rules know comes from `ast`.
"""

from __future__ import annotations

import ast
import hashlib
import os
from dataclasses import dataclass, field
from pathlib import Path
from typing import Iterator

PKG = "pytestarch"


class AnalysisError(Exception):
    """The analysis cannot give a verdict (anchor vanished, unknown idiom, floor not reached).

    Mapped to exit code 2 (`ANALYSIS-ERROR`), never to a pass and never to a VIOLATION.
    """


def repo_root() -> Path:
    return Path(os.environ.get("VERIF_REPO", "/repo"))


@dataclass
class FuncInfo:
    name: str
    qualname: str  # "Class.method" or "func" or "Class.method.<lambda@N>"
    node: ast.AST  # FunctionDef | AsyncFunctionDef | Lambda
    module: "ModuleInfo"
    cls: "ClassInfo | None" = None
    decorators: list[str] = field(default_factory=list)
    outer: "FuncInfo | None" = None

    @property
    def fq(self) -> str:
        return f"{self.module.name}::{self.qualname}"

    @property
    def relpath(self) -> str:
        return self.module.relpath

    @property
    def params(self) -> list[ast.arg]:
        a = self.node.args
        return [*a.posonlyargs, *a.args, *([a.vararg] if a.vararg else []), *a.kwonlyargs, *([a.kwarg] if a.kwarg else [])]

    @property
    def param_names(self) -> list[str]:
        return [p.arg for p in self.params]

    @property
    def is_method(self) -> bool:
        return self.cls is not None and self.outer is None

    @property
    def is_classmethod(self) -> bool:
        return "classmethod" in self.decorators

    @property
    def is_staticmethod(self) -> bool:
        return "staticmethod" in self.decorators

    @property
    def is_property(self) -> bool:
        return "property" in self.decorators

    @property
    def is_abstract(self) -> bool:
        return "abstractmethod" in self.decorators

    @property
    def body(self) -> list[ast.stmt]:
        if isinstance(self.node, ast.Lambda):
            return [ast.Return(value=self.node.body)]
        return self.node.body

    def __hash__(self) -> int:
        return hash(self.fq)

    def __eq__(self, other: object) -> bool:
        return isinstance(other, FuncInfo) and other.fq == self.fq

    def __repr__(self) -> str:
        return f"<Func {self.fq}>"


@dataclass
class ClassInfo:
    name: str
    node: ast.ClassDef
    module: "ModuleInfo"
    base_exprs: list[ast.expr]
    bases: list[str] = field(default_factory=list)  # resolved fq names ("mod.Class") or external dotted names
    methods: dict[str, FuncInfo] = field(default_factory=dict)
    extra_methods: list[FuncInfo] = field(default_factory=list)  # e.g. singledispatch registrations named "_"
    class_attrs: dict[str, ast.expr] = field(default_factory=dict)
    ann_attrs: dict[str, ast.expr] = field(default_factory=dict)
    decorators: list[str] = field(default_factory=list)

    @property
    def fq(self) -> str:
        return f"{self.module.name}.{self.name}"

    @property
    def is_dataclass(self) -> bool:
        return "dataclass" in self.decorators

    def __hash__(self) -> int:
        return hash(self.fq)

    def __eq__(self, other: object) -> bool:
        return isinstance(other, ClassInfo) and other.fq == self.fq

    def __repr__(self) -> str:
        return f"<Class {self.fq}>"


@dataclass
class ModuleInfo:
    name: str
    path: Path
    relpath: str
    source: str
    tree: ast.Module
    imports: dict[str, str] = field(default_factory=dict)  # local name -> fully qualified dotted name
    constants: dict[str, ast.expr] = field(default_factory=dict)
    classes: dict[str, ClassInfo] = field(default_factory=dict)
    functions: dict[str, FuncInfo] = field(default_factory=dict)
    all_funcs: list[FuncInfo] = field(default_factory=list)  # incl. methods, nested functions and lambdas


def decorator_name(d: ast.expr) -> str:
    if isinstance(d, ast.Call):
        d = d.func
    if isinstance(d, ast.Attribute):
        # e.g. is_excluded.register -> "is_excluded.register"; functools.wraps -> "wraps"
        if isinstance(d.value, ast.Name) and d.attr == "register":
            return f"{d.value.id}.register"
        return d.attr
    if isinstance(d, ast.Name):
        return d.id
    return ast.unparse(d)


def set_parents(tree: ast.AST) -> None:
    for node in ast.walk(tree):
        for child in ast.iter_child_nodes(node):
            child._parent = node  # type: ignore[attr-defined]


def parent(node: ast.AST) -> ast.AST | None:
    return getattr(node, "_parent", None)


def ancestors(node: ast.AST) -> Iterator[ast.AST]:
    p = parent(node)
    while p is not None:
        yield p
        p = parent(p)


def enclosing_stmt(node: ast.AST) -> ast.stmt | None:
    n: ast.AST | None = node
    while n is not None and not isinstance(n, ast.stmt):
        n = parent(n)
    return n  # type: ignore[return-value]


def norm(node: ast.AST, limit: int = 160) -> str:
    """Normalised text of a construct (formatting-insensitive; never a line number)."""
    try:
        text = ast.unparse(node)
    except Exception:  # pragma: no cover
        text = type(node).__name__
    text = " ".join(text.split())
    return text if len(text) <= limit else text[: limit - 3] + "..."


def header(node: ast.AST) -> str:
    """Normalised text of a statement without the bodies of compound statements."""
    if isinstance(node, ast.If):
        return f"if {norm(node.test)}:"
    if isinstance(node, ast.While):
        return f"while {norm(node.test)}:"
    if isinstance(node, (ast.For, ast.AsyncFor)):
        return f"for {norm(node.target)} in {norm(node.iter)}:"
    if isinstance(node, (ast.With, ast.AsyncWith)):
        return "with " + ", ".join(norm(i) for i in node.items) + ":"
    if isinstance(node, ast.Try):
        return "try:"
    if isinstance(node, ast.ExceptHandler):
        return f"except {norm(node.type) if node.type else ''}:"
    if isinstance(node, (ast.FunctionDef, ast.AsyncFunctionDef)):
        return f"def {node.name}(...)"
    if isinstance(node, ast.ClassDef):
        return f"class {node.name}"
    if isinstance(node, ast.Match):
        return f"match {norm(node.subject)}:"
    return norm(node)


class Repo:
    def __init__(self, root: Path | None = None) -> None:
        self.root = Path(root) if root is not None else repo_root()
        self.src = self.root / "src" / PKG
        if not self.src.is_dir():
            raise AnalysisError(f"source directory {self.src} not found")
        self.modules: dict[str, ModuleInfo] = {}
        self.classes: dict[str, ClassInfo] = {}
        self.funcs: dict[str, FuncInfo] = {}
        self._digest = hashlib.sha256()
        self._load()
        self._resolve_bases()
        self._mro_cache: dict[str, list[ClassInfo]] = {}
        self._subclasses: dict[str, list[ClassInfo]] | None = None

    # ------------------------------------------------------------------ loading
    def _load(self) -> None:
        files = sorted(self.src.rglob("*.py"))
        if not files:
            raise AnalysisError("no python files under src/pytestarch")
        for path in files:
            rel = path.relative_to(self.root).as_posix()
            source = path.read_text(encoding="utf-8")
            self._digest.update(rel.encode() + b"\0" + source.encode() + b"\0")
            try:
                tree = ast.parse(source, filename=str(path))
            except SyntaxError as e:
                raise AnalysisError(f"{rel} does not parse: {e}") from e
            set_parents(tree)
            parts = list(path.relative_to(self.src.parent).with_suffix("").parts)
            if parts[-1] == "__init__":
                parts = parts[:-1]
            name = ".".join(parts)
            mod = ModuleInfo(name=name, path=path, relpath=rel, source=source, tree=tree)
            mod.repo = self  # type: ignore[attr-defined]
            self.modules[name] = mod
            self._index_module(mod, is_pkg=path.name == "__init__.py")

    @property
    def digest(self) -> str:
        return self._digest.hexdigest()[:16]

    def _index_module(self, mod: ModuleInfo, is_pkg: bool) -> None:
        pkg_parts = mod.name.split(".") if is_pkg else mod.name.split(".")[:-1]
        for node in ast.walk(mod.tree):
            if isinstance(node, ast.Import):
                for a in node.names:
                    local = a.asname or a.name.split(".")[0]
                    mod.imports.setdefault(local, a.name if a.asname else a.name.split(".")[0])
            elif isinstance(node, ast.ImportFrom):
                if node.level:
                    base = pkg_parts[: len(pkg_parts) - (node.level - 1)]
                    src = ".".join(base + ([node.module] if node.module else []))
                else:
                    src = node.module or ""
                for a in node.names:
                    mod.imports.setdefault(a.asname or a.name, f"{src}.{a.name}")
        for stmt in mod.tree.body:
            if isinstance(stmt, ast.Assign) and len(stmt.targets) == 1 and isinstance(stmt.targets[0], ast.Name):
                mod.constants[stmt.targets[0].id] = stmt.value
            elif isinstance(stmt, ast.AnnAssign) and isinstance(stmt.target, ast.Name) and stmt.value is not None:
                mod.constants[stmt.target.id] = stmt.value
            elif isinstance(stmt, (ast.FunctionDef, ast.AsyncFunctionDef)):
                fi = self._index_function(stmt, mod, None, None, stmt.name)
                mod.functions[stmt.name] = fi
            elif isinstance(stmt, ast.ClassDef):
                self._index_class(stmt, mod)

    def _index_class(self, node: ast.ClassDef, mod: ModuleInfo) -> None:
        ci = ClassInfo(
            name=node.name,
            node=node,
            module=mod,
            base_exprs=list(node.bases),
            decorators=[decorator_name(d) for d in node.decorator_list],
        )
        mod.classes[node.name] = ci
        self.classes[ci.fq] = ci
        for stmt in node.body:
            if isinstance(stmt, (ast.FunctionDef, ast.AsyncFunctionDef)):
                fi = self._index_function(stmt, mod, ci, None, f"{node.name}.{stmt.name}")
                if stmt.name in ci.methods:
                    # property setters / singledispatch registrations re-using a name
                    ci.extra_methods.append(fi)
                    fi.qualname = f"{node.name}.{stmt.name}#{len(ci.extra_methods)}"
                    self.funcs[fi.fq] = fi
                else:
                    ci.methods[stmt.name] = fi
            elif isinstance(stmt, ast.Assign) and len(stmt.targets) == 1 and isinstance(stmt.targets[0], ast.Name):
                ci.class_attrs[stmt.targets[0].id] = stmt.value
            elif isinstance(stmt, ast.AnnAssign) and isinstance(stmt.target, ast.Name):
                ci.ann_attrs[stmt.target.id] = stmt.annotation
                if stmt.value is not None:
                    ci.class_attrs[stmt.target.id] = stmt.value

    def _index_function(
        self, node: ast.AST, mod: ModuleInfo, cls: ClassInfo | None, outer: FuncInfo | None, qualname: str
    ) -> FuncInfo:
        decos = [decorator_name(d) for d in getattr(node, "decorator_list", [])]
        fi = FuncInfo(
            name=getattr(node, "name", "<lambda>"), qualname=qualname, node=node, module=mod, cls=cls, decorators=decos, outer=outer
        )
        self.funcs[fi.fq] = fi
        mod.all_funcs.append(fi)
        node._func = fi  # type: ignore[attr-defined]
        # nested functions and lambdas (direct nesting only; deeper nesting handled recursively)
        for child in self._nested_callables(node):
            if isinstance(child, ast.Lambda):
                q = f"{qualname}.<lambda@{self._lambda_index(node, child)}>"
            else:
                q = f"{qualname}.{child.name}"
            self._index_function(child, mod, cls, fi, q)
        return fi

    @staticmethod
    def _nested_callables(fn: ast.AST) -> list[ast.AST]:
        out: list[ast.AST] = []
        stack = list(ast.iter_child_nodes(fn))
        while stack:
            n = stack.pop()
            if isinstance(n, (ast.FunctionDef, ast.AsyncFunctionDef, ast.Lambda)):
                out.append(n)
                continue
            if isinstance(n, ast.ClassDef):
                continue
            stack.extend(ast.iter_child_nodes(n))
        out.sort(key=lambda n: (n.lineno, n.col_offset))
        return out

    @staticmethod
    def _lambda_index(fn: ast.AST, lam: ast.Lambda) -> int:
        lams = [n for n in ast.walk(fn) if isinstance(n, ast.Lambda)]
        lams.sort(key=lambda n: (n.lineno, n.col_offset))
        return lams.index(lam)

    # ------------------------------------------------------------------ classes
    def resolve_name(self, mod: ModuleInfo, expr: ast.expr) -> str | None:
        """Dotted fully-qualified name an expression (Name / Attribute chain / Subscript base) refers to."""
        if isinstance(expr, ast.Subscript):
            return self.resolve_name(mod, expr.value)
        if isinstance(expr, ast.Name):
            if expr.id in mod.classes:
                return f"{mod.name}.{expr.id}"
            if expr.id in mod.functions:
                return f"{mod.name}.{expr.id}"
            if expr.id in mod.imports:
                return self._canonical(mod.imports[expr.id])
            if expr.id in mod.constants:
                return f"{mod.name}.{expr.id}"
            return None
        if isinstance(expr, ast.Attribute):
            base = self.resolve_name(mod, expr.value)
            if base is None:
                return None
            return self._canonical(f"{base}.{expr.attr}")
        return None

    def _canonical(self, dotted: str, depth: int = 0) -> str:
        """Follow re-exports inside the repo (e.g. `from pytestarch import EvaluableArchitecture`)."""
        if depth > 5:
            return dotted
        modname, _, attr = dotted.rpartition(".")
        m = self.modules.get(modname)
        if m is not None and attr not in m.classes and attr not in m.functions and attr in m.imports:
            return self._canonical(m.imports[attr], depth + 1)
        return dotted

    def _resolve_bases(self) -> None:
        for ci in self.classes.values():
            for b in ci.base_exprs:
                name = self.resolve_name(ci.module, b)
                ci.bases.append(name or ast.unparse(b))

    def get_class(self, fq: str) -> ClassInfo | None:
        return self.classes.get(fq)

    def mro(self, ci: ClassInfo) -> list[ClassInfo]:
        """Linearisation over repo classes (depth-first, left-to-right, duplicates removed keeping the last)."""
        if ci.fq in self._mro_cache:
            return self._mro_cache[ci.fq]
        order: list[ClassInfo] = [ci]
        for b in ci.bases:
            bc = self.classes.get(b)
            if bc is not None:
                for x in self.mro(bc):
                    if x in order:
                        order.remove(x)
                    order.append(x)
        self._mro_cache[ci.fq] = order
        return order

    def external_bases(self, ci: ClassInfo) -> set[str]:
        out: set[str] = set()
        for c in self.mro(ci):
            for b in c.bases:
                if b not in self.classes:
                    out.add(b)
        return out

    def is_subclass(self, ci: ClassInfo, base_fq: str) -> bool:
        return any(c.fq == base_fq for c in self.mro(ci)) or base_fq in self.external_bases(ci)

    def subclasses(self, ci: ClassInfo) -> list[ClassInfo]:
        if self._subclasses is None:
            self._subclasses = {}
            for c in self.classes.values():
                for a in self.mro(c)[1:]:
                    self._subclasses.setdefault(a.fq, []).append(c)
        return self._subclasses.get(ci.fq, [])

    def lookup_method(self, ci: ClassInfo, name: str) -> FuncInfo | None:
        for c in self.mro(ci):
            if name in c.methods:
                return c.methods[name]
        return None

    def implementations(self, ci: ClassInfo, name: str) -> list[FuncInfo]:
        """Class-hierarchy analysis: the method found on `ci` plus every override in subclasses."""
        out: list[FuncInfo] = []
        m = self.lookup_method(ci, name)
        if m is not None:
            out.append(m)
        for sub in self.subclasses(ci):
            if name in sub.methods and sub.methods[name] not in out:
                out.append(sub.methods[name])
        return out

    # ------------------------------------------------------------------ anchors
    def module(self, name: str) -> ModuleInfo:
        m = self.modules.get(name)
        if m is None:
            raise AnalysisError(f"anchor module {name} not found")
        return m

    def cls(self, modname: str, clsname: str) -> ClassInfo:
        m = self.module(modname)
        c = m.classes.get(clsname)
        if c is None:
            raise AnalysisError(f"anchor class {modname}.{clsname} not found")
        return c

    def func(self, modname: str, qualname: str) -> FuncInfo:
        f = self.funcs.get(f"{modname}::{qualname}")
        if f is None:
            raise AnalysisError(f"anchor function {modname}::{qualname} not found")
        return f

    def find_func(self, modname: str, qualname: str) -> FuncInfo | None:
        return self.funcs.get(f"{modname}::{qualname}")

    def all_functions(self) -> list[FuncInfo]:
        return list(self.funcs.values())

    def func_of(self, node: ast.AST) -> FuncInfo | None:
        for a in [node, *ancestors(node)]:
            fi = getattr(a, "_func", None)
            if fi is not None:
                return fi
        return None

    def key(self, fi: FuncInfo | None, node: ast.AST | str, mod: ModuleInfo | None = None) -> str:
        """Construct key: file::qualname::normalised statement text (never a line number)."""
        text = node if isinstance(node, str) else header(node)
        if fi is not None:
            return f"{fi.relpath}::{getattr(fi, 'shown', fi.qualname)}::{text}"
        assert mod is not None
        return f"{mod.relpath}::<module>::{text}"

    def loc(self, fi: FuncInfo | ModuleInfo, node: ast.AST) -> str:
        rel = fi.relpath
        return f"{rel}:{getattr(node, 'lineno', 0)}"


def own_nodes(fn: ast.AST) -> Iterator[ast.AST]:
    """All AST nodes of a function body that belong to it (not to nested defs/lambdas/classes)."""
    body = [fn.body] if isinstance(fn, ast.Lambda) else list(fn.body)
    stack = list(reversed(body))
    while stack:
        n = stack.pop()
        yield n
        if isinstance(n, (ast.FunctionDef, ast.AsyncFunctionDef, ast.Lambda, ast.ClassDef)):
            continue
        stack.extend(reversed(list(ast.iter_child_nodes(n))))


def calls_in(fn: ast.AST) -> list[ast.Call]:
    return [n for n in own_nodes(fn) if isinstance(n, ast.Call)]


def call_name(call: ast.Call) -> str:
    f = call.func
    if isinstance(f, ast.Attribute):
        return f.attr
    if isinstance(f, ast.Name):
        return f.id
    return ""
