"""Language questions about a *reconstructed* regular expression, answered on its sre parse tree.

`re._parser.parse` turns the pattern text into a tree; the backtracking matcher below interprets that tree itself (ordered
alternation, greedy / lazy repeats, named groups, classes with categories, anchors under MULTILINE), so that the checker can
ask membership-with-capture questions ("is this documented line in the language, and which substring does group X bind?") and
structural questions ("does the class repeated inside group X contain '.'?") without calling any pytestarch code. The stdlib
engine is used only by `cross_validate` to confirm that this interpreter agrees with `re` on the same inputs.
"""

from __future__ import annotations

import re
import re._constants as C
import re._parser as P
from typing import Iterator

from .loader import AnalysisError

MAXREPEAT = C.MAXREPEAT


class Regex:
    def __init__(self, pattern: str, flags: int = 0) -> None:
        self.pattern = pattern
        self.flags = flags
        try:
            self.tree = P.parse(pattern, flags)
        except re.error as e:
            raise AnalysisError(f"reconstructed pattern does not parse: {e}: {pattern!r}") from e
        self.groupindex = dict(self.tree.state.groupdict)
        self.multiline = bool(flags & re.MULTILINE)
        self.dotall = bool(flags & re.DOTALL)

    # ------------------------------------------------------------------ matching
    def _in(self, items, ch: str) -> bool:
        negate = False
        hit = False
        for op, av in items:
            if op is C.NEGATE:
                negate = True
            elif op is C.LITERAL:
                hit = hit or ord(ch) == av
            elif op is C.RANGE:
                hit = hit or av[0] <= ord(ch) <= av[1]
            elif op is C.CATEGORY:
                hit = hit or self._category(av, ch)
            else:
                raise AnalysisError(f"unsupported class item {op}")
        return hit != negate

    @staticmethod
    def _category(cat, ch: str) -> bool:
        if cat is C.CATEGORY_DIGIT:
            return ch.isdigit()
        if cat is C.CATEGORY_NOT_DIGIT:
            return not ch.isdigit()
        if cat is C.CATEGORY_SPACE:
            return ch.isspace()
        if cat is C.CATEGORY_NOT_SPACE:
            return not ch.isspace()
        if cat is C.CATEGORY_WORD:
            return ch.isalnum() or ch == "_"
        if cat is C.CATEGORY_NOT_WORD:
            return not (ch.isalnum() or ch == "_")
        raise AnalysisError(f"unsupported category {cat}")

    def _m(self, seq: list, i: int, s: str, pos: int, groups: dict) -> Iterator[tuple[int, dict]]:
        """Match seq[i:] at pos; yield (end, groups) in the priority order of a backtracking engine."""
        if i == len(seq):
            yield pos, groups
            return
        op, av = seq[i]
        if op is C.LITERAL:
            if pos < len(s) and ord(s[pos]) == av:
                yield from self._m(seq, i + 1, s, pos + 1, groups)
        elif op is C.NOT_LITERAL:
            if pos < len(s) and ord(s[pos]) != av:
                yield from self._m(seq, i + 1, s, pos + 1, groups)
        elif op is C.ANY:
            if pos < len(s) and (self.dotall or s[pos] != "\n"):
                yield from self._m(seq, i + 1, s, pos + 1, groups)
        elif op is C.IN:
            if pos < len(s) and self._in(av, s[pos]):
                yield from self._m(seq, i + 1, s, pos + 1, groups)
        elif op is C.AT:
            ok = False
            if av is C.AT_BEGINNING:
                ok = pos == 0 or (self.multiline and s[pos - 1] == "\n")
            elif av is C.AT_END:
                ok = pos == len(s) or (pos == len(s) - 1 and s[pos] == "\n") or (self.multiline and s[pos] == "\n")
            elif av is C.AT_BEGINNING_STRING:
                ok = pos == 0
            elif av is C.AT_END_STRING:
                ok = pos == len(s)
            else:
                raise AnalysisError(f"unsupported anchor {av}")
            if ok:
                yield from self._m(seq, i + 1, s, pos, groups)
        elif op is C.BRANCH:
            for alt in av[1]:
                for end, g in self._m(list(alt), 0, s, pos, groups):
                    yield from self._m(seq, i + 1, s, end, g)
        elif op is C.SUBPATTERN:
            gid, _add, _del, sub = av
            for end, g in self._m(list(sub), 0, s, pos, groups):
                g2 = dict(g)
                if gid is not None:
                    g2[gid] = (pos, end)
                yield from self._m(seq, i + 1, s, end, g2)
        elif op in (C.MAX_REPEAT, C.MIN_REPEAT):
            lo, hi, sub = av
            sub = list(sub)
            greedy = op is C.MAX_REPEAT

            def rep(count: int, p: int, g: dict) -> Iterator[tuple[int, dict]]:
                can_more = hi is MAXREPEAT or count < hi
                if greedy:
                    if can_more:
                        for end, g2 in self._m(sub, 0, s, p, g):
                            if end == p and count >= lo:
                                continue  # empty iteration: stop looping
                            yield from rep(count + 1, end, g2)
                    if count >= lo:
                        yield from self._m(seq, i + 1, s, p, g)
                else:
                    if count >= lo:
                        yield from self._m(seq, i + 1, s, p, g)
                    if can_more:
                        for end, g2 in self._m(sub, 0, s, p, g):
                            if end == p and count >= lo:
                                continue
                            yield from rep(count + 1, end, g2)

            yield from rep(0, pos, groups)
        elif op is C.GROUPREF:
            span = groups.get(av)
            if span is not None:
                t = s[span[0] : span[1]]
                if s.startswith(t, pos):
                    yield from self._m(seq, i + 1, s, pos + len(t), groups)
        else:
            raise AnalysisError(f"unsupported regex construct {op} in {self.pattern!r}")

    def match_at(self, s: str, pos: int) -> tuple[int, dict] | None:
        for end, g in self._m(list(self.tree), 0, s, pos, {}):
            return end, g
        return None

    def search(self, s: str, start: int = 0) -> tuple[int, int, dict[str, str | None]] | None:
        for pos in range(start, len(s) + 1):
            r = self.match_at(s, pos)
            if r is not None:
                end, g = r
                named = {name: (s[g[gid][0] : g[gid][1]] if gid in g else None) for name, gid in self.groupindex.items()}
                return pos, end, named
        return None

    def finditer(self, s: str) -> list[tuple[int, int, dict[str, str | None]]]:
        out = []
        pos = 0
        while pos <= len(s):
            r = self.search(s, pos)
            if r is None:
                break
            out.append(r)
            pos = r[1] if r[1] > r[0] else r[1] + 1
        return out

    # ------------------------------------------------------------------ structure
    def group_alphabet(self, name: str) -> list:
        """Items of the character class(es) that may occur inside the named group (flattened)."""
        gid = self.groupindex.get(name)
        if gid is None:
            raise AnalysisError(f"group {name} not in pattern")
        items: list = []

        def walk(seq, inside: bool) -> None:
            for op, av in seq:
                if op is C.SUBPATTERN:
                    walk(av[3], inside or av[0] == gid)
                elif op is C.BRANCH:
                    for alt in av[1]:
                        walk(alt, inside)
                elif op in (C.MAX_REPEAT, C.MIN_REPEAT):
                    walk(av[2], inside)
                elif inside:
                    if op is C.IN:
                        items.extend(av)
                    else:
                        items.append((op, av))

        walk(self.tree, False)
        return items

    def group_admits(self, name: str, ch: str) -> bool:
        for op, av in self.group_alphabet(name):
            if op is C.LITERAL and ord(ch) == av:
                return True
            if op is C.CATEGORY and self._category(av, ch):
                return True
            if op is C.RANGE and av[0] <= ord(ch) <= av[1]:
                return True
            if op is C.ANY:
                return True
        return False

    def top_level_alternatives(self) -> int:
        if len(self.tree) == 1 and self.tree[0][0] is C.BRANCH:
            return len(self.tree[0][1][1])
        return 1


def cross_validate(rx: Regex, samples: list[str]) -> list[str]:
    """Self-test: the interpreter above must agree with the stdlib engine on the given inputs (group captures included)."""
    comp = re.compile(rx.pattern, rx.flags)
    bad = []
    for s in samples:
        mine = [(a, b, g) for a, b, g in rx.finditer(s)]
        theirs = [(m.start(), m.end(), m.groupdict()) for m in comp.finditer(s)]
        if mine != theirs:
            bad.append(f"{s!r}: interpreter {mine} != re {theirs}")
    return bad
