"""Obligations, findings, known-findings handling, evidence and replay files, exit codes."""

from __future__ import annotations

import json
import os
import re
import time
from dataclasses import dataclass, field
from pathlib import Path
from typing import Any

VERIF = Path(__file__).resolve().parents[2]
EVIDENCE_DIR = Path(os.environ.get("VERIF_EVIDENCE_DIR", VERIF / "evidence"))
KNOWN_FINDINGS = VERIF / "known_findings.txt"


@dataclass
class Obligation:
    rule: str  # e.g. "C02.R1"
    construct: str  # construct key (file::qualname::normalised text) or table row
    ok: bool
    detail: str = ""  # what was established / why it fails
    where: str = ""  # file:line (diagnostic only, never used as a key)
    nontrivial: bool = True  # needed more than an existence test
    kind: str = "structural"  # structural | decision-table | flow | dominance | grammar | regex-language | effect

    def as_json(self) -> dict[str, Any]:
        d = {"rule": self.rule, "construct": self.construct, "verdict": "discharged" if self.ok else "VIOLATED", "kind": self.kind}
        if self.detail:
            d["detail"] = self.detail
        if self.where:
            d["where"] = self.where
        return d


@dataclass
class Result:
    property_id: str
    obligations: list[Obligation] = field(default_factory=list)
    floors: dict[str, tuple[int, int]] = field(default_factory=dict)  # rule -> (expected minimum, found)
    observations: list[str] = field(default_factory=list)  # not armed, listed in evidence
    analysed: dict[str, Any] = field(default_factory=dict)
    explanation: str = ""
    not_decided: str = ""
    trusted_base: list[str] = field(default_factory=list)
    extra: dict[str, Any] = field(default_factory=dict)
    undecided: list[dict[str, str]] = field(default_factory=list)  # constructs the rule could not classify (exit 2 unless a violation is reported)

    def undecide(self, rule: str, construct: str, detail: str, where: str = "") -> None:
        self.undecided.append({"rule": rule, "construct": construct, "detail": detail, "where": where})

    def add(self, rule: str, construct: str, ok: bool, detail: str = "", where: str = "", nontrivial: bool = True, kind: str = "structural") -> Obligation:
        ob = Obligation(rule, construct, bool(ok), detail, where, nontrivial, kind)
        self.obligations.append(ob)
        return ob

    def floor(self, rule: str, expected_min: int, found: int) -> None:
        self.floors[rule] = (expected_min, found)

    def observe(self, text: str) -> None:
        self.observations.append(text)

    @property
    def violations(self) -> list[Obligation]:
        return [o for o in self.obligations if not o.ok]


# --------------------------------------------------------------------------- known findings


@dataclass
class KnownFinding:
    status: str  # open | fixed
    property_id: str
    rule: str | None
    construct: str | None
    text: str


def load_known_findings() -> list[KnownFinding]:
    out: list[KnownFinding] = []
    if not KNOWN_FINDINGS.exists():
        return out
    for raw in KNOWN_FINDINGS.read_text(encoding="utf-8").splitlines():
        line = raw.strip()
        if not line or line.startswith("#"):
            continue
        m = re.match(r"^(open|fixed):\s+property=(\S+)\s+(.*)$", line)
        if not m:
            continue
        status, pid, rest = m.groups()
        rule = construct = None
        if status == "open":
            mr = re.match(r"^rule=(\S+)\s+construct=(.*?)\s+--\s+(.*)$", rest)
            if mr:
                rule, construct, rest = mr.groups()
        out.append(KnownFinding(status, pid, rule, construct, rest))
    return out


def is_known(ob: Obligation, pid: str, known: list[KnownFinding]) -> KnownFinding | None:
    for k in known:
        if k.status == "open" and k.property_id == pid and k.rule == ob.rule and k.construct == ob.construct:
            return k
    return None


# --------------------------------------------------------------------------- output


def _distinct_nontrivial(obs: list[Obligation]) -> int:
    return len({(o.rule, o.construct) for o in obs if o.nontrivial})


def write_evidence(res: Result, tier: str, seed: int, wall: float, new_violations: list[Obligation], known_hits: list[tuple[Obligation, KnownFinding]], extra_cov: dict[str, Any] | None = None) -> Path:
    EVIDENCE_DIR.mkdir(parents=True, exist_ok=True)
    obs = res.obligations
    per_rule: dict[str, dict[str, int]] = {}
    for o in obs:
        d = per_rule.setdefault(o.rule, {"obligations": 0, "discharged": 0})
        d["obligations"] += 1
        d["discharged"] += 1 if o.ok else 0
    samples = [o.as_json() for o in obs[:12]]
    # make sure every rule is represented in the samples at least once
    seen = {s["rule"] for s in samples}
    for o in obs:
        if o.rule not in seen:
            samples.append(o.as_json())
            seen.add(o.rule)
    coverage: dict[str, Any] = {
        "explanation": res.explanation + (" NOT DECIDED: " + res.not_decided if res.not_decided else ""),
        "rule": "one obligation per (rule, construct) instance found in /repo's current source; an instance is non-trivial when "
        "discharging it needed more than an existence test (a dominance, flow, decision-table, grammar or language argument); "
        "instances are distinct by (rule, construct key = file::function::normalised statement text)",
        "evaluations": len(obs),
        "distinct_nontrivial": _distinct_nontrivial(obs),
        "obligations": len(obs),
        "discharged": sum(1 for o in obs if o.ok),
        "per_rule": per_rule,
        "floors": {r: {"expected_min": e, "found": f} for r, (e, f) in res.floors.items()},
        "samples": samples,
        "rule_instances": [o.as_json() for o in obs],
        "observations_not_armed": res.observations,
        "undecided": res.undecided,
        "analysed": res.analysed,
        "trusted_base": res.trusted_base,
        "checker_cmd": f"/venv/bin/python /verif/engine/check.py {res.property_id} --tier {tier}",
        "exhaustive": False,
        "known_findings_hit": [{"rule": o.rule, "construct": o.construct, "finding": k.text} for o, k in known_hits],
    }
    coverage.update(res.extra)
    if extra_cov:
        coverage.update(extra_cov)
    doc = {
        "property_id": res.property_id,
        "tier": tier,
        "seed": seed,
        "level": "other",
        "coverage": coverage,
        "assumptions": res.trusted_base,
        "wall_s": round(wall, 3),
        "violations": len(new_violations),
    }
    path = EVIDENCE_DIR / f"{res.property_id}.json"
    tmp = path.with_suffix(".json.tmp")
    tmp.write_text(json.dumps(doc, indent=1, sort_keys=False, default=str), encoding="utf-8")
    tmp.replace(path)
    return path


def write_replay(pid: str, ob: Obligation, n: int, repo_root: str) -> Path:
    d = EVIDENCE_DIR / "replay"
    d.mkdir(parents=True, exist_ok=True)
    safe_rule = re.sub(r"[^A-Za-z0-9_.-]", "_", ob.rule)
    path = d / f"{pid}-{safe_rule}-{n}.json"
    path.write_text(
        json.dumps(
            {
                "property_id": pid,
                "rule": ob.rule,
                "construct": ob.construct,
                "where": ob.where,
                "kind": ob.kind,
                "why": ob.detail,
                "repo": repo_root,
                "replay": f"/venv/bin/python /verif/engine/check.py {pid} --tier quick   # re-analyses the current tree; the rule fires while the construct is unchanged",
            },
            indent=1,
        ),
        encoding="utf-8",
    )
    return path


class Timer:
    def __init__(self) -> None:
        self.t0 = time.time()

    @property
    def elapsed(self) -> float:
        return time.time() - self.t0
