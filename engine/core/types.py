"""Annotation-driven type resolver and call resolution (no type checker is available in this sandbox).

Types are small tuples:
  ("cls", fq)                      instance of a repo class
  ("type", fq)                     the class object itself
  ("lib", dotted)                  instance of a library class (e.g. networkx.DiGraph, pathlib.Path)
  ("b", name, (args...))           builtin / collection: str int bool none list set dict tuple frozenset seq iter map callable
  ("union", (t1, t2, ...))
  ("fn", FuncInfo)                 a repo function object / bound method
  ("partial", type, kwargs)        functools.partial(...)
  ("unknown",)
"""

from __future__ import annotations

import ast
from typing import Iterable

from .loader import ClassInfo, FuncInfo, ModuleInfo, Repo, own_nodes, parent

Type = tuple
UNKNOWN: Type = ("unknown",)
STR: Type = ("b", "str", ())
NONE: Type = ("b", "none", ())
BOOL: Type = ("b", "bool", ())
INT: Type = ("b", "int", ())

_COLL = {
    "list": "list", "List": "list", "Sequence": "seq", "MutableSequence": "list", "Iterable": "iter", "Iterator": "iter", "Collection": "seq",
    "set": "set", "Set": "set", "frozenset": "frozenset", "FrozenSet": "frozenset", "AbstractSet": "set", "MutableSet": "set",
    "dict": "dict", "Dict": "dict", "Mapping": "dict", "MutableMapping": "dict", "defaultdict": "dict", "DefaultDict": "dict", "OrderedDict": "dict",
    "tuple": "tuple", "Tuple": "tuple", "Generator": "iter",
}
_PRIM = {"str": "str", "int": "int", "bool": "bool", "float": "float", "bytes": "bytes", "None": "none", "object": "object"}


def union(ts: Iterable[Type]) -> Type:
    flat: list[Type] = []
    for t in ts:
        if t[0] == "union":
            for u in t[1]:
                if u not in flat:
                    flat.append(u)
        elif t not in flat:
            flat.append(t)
    known = [t for t in flat if t != UNKNOWN]
    if not known:
        return UNKNOWN
    if len(known) == 1 and len(flat) == 1:
        return known[0]
    return ("union", tuple(flat)) if len(flat) > 1 else flat[0]


def members(t: Type) -> list[Type]:
    return list(t[1]) if t[0] == "union" else [t]


def elem_type(t: Type) -> Type:
    """Element type when iterating a value of type t."""
    outs = []
    for m in members(t):
        if m[0] == "b" and m[1] in ("list", "set", "seq", "iter", "frozenset") and m[2]:
            outs.append(m[2][0])
        elif m[0] == "b" and m[1] == "tuple" and m[2]:
            outs.append(union(a for a in m[2] if a != ("b", "ellipsis", ())))
        elif m[0] == "b" and m[1] == "dict" and m[2]:
            outs.append(m[2][0])
        elif m[0] == "b" and m[1] == "str":
            outs.append(STR)
        else:
            outs.append(UNKNOWN)
    return union(outs)


def is_set_type(t: Type) -> bool:
    return any(m[0] == "b" and m[1] in ("set", "frozenset") for m in members(t))


def kind(t: Type) -> str:
    if t[0] == "b":
        return t[1]
    return t[0]


class Types:
    def __init__(self, repo: Repo) -> None:
        self.repo = repo
        self._local_cache: dict[str, dict[str, Type]] = {}
        self._attr_cache: dict[tuple[str, str], Type] = {}
        self._ret_cache: dict[str, Type] = {}
        self._in_progress: set = set()
        self.stats = {"calls_total": 0, "calls_repo": 0, "calls_lib": 0, "calls_byname": 0, "calls_unresolved": 0}

    # ------------------------------------------------------------------ annotations
    def ann(self, mod: ModuleInfo, e: ast.expr | None, depth: int = 0) -> Type:
        if e is None or depth > 8:
            return UNKNOWN
        if isinstance(e, ast.Constant):
            if e.value is None:
                return NONE
            if isinstance(e.value, str):
                try:
                    return self.ann(mod, ast.parse(e.value, mode="eval").body, depth + 1)
                except SyntaxError:
                    return UNKNOWN
            if e.value is Ellipsis:
                return ("b", "ellipsis", ())
            return UNKNOWN
        if isinstance(e, ast.BinOp) and isinstance(e.op, ast.BitOr):
            return union([self.ann(mod, e.left, depth + 1), self.ann(mod, e.right, depth + 1)])
        if isinstance(e, ast.Subscript):
            base = e.value
            bname = base.attr if isinstance(base, ast.Attribute) else base.id if isinstance(base, ast.Name) else ""
            args = list(e.slice.elts) if isinstance(e.slice, ast.Tuple) else [e.slice]
            if bname in ("Optional",):
                return union([self.ann(mod, args[0], depth + 1), NONE])
            if bname in ("Union",):
                return union(self.ann(mod, a, depth + 1) for a in args)
            if bname in ("Callable",):
                return ("b", "callable", ())
            if bname in ("type", "Type"):
                inner = self.ann(mod, args[0], depth + 1)
                return ("type", inner[1]) if inner[0] == "cls" else UNKNOWN
            if bname in _COLL:
                return ("b", _COLL[bname], tuple(self.ann(mod, a, depth + 1) for a in args))
            # generic repo class, e.g. LayerRuleBase[LayeredArchitecture]
            return self.ann(mod, base, depth + 1)
        if isinstance(e, (ast.Name, ast.Attribute)):
            name = e.id if isinstance(e, ast.Name) else e.attr
            if isinstance(e, ast.Name) and name in mod.constants and name not in mod.classes:
                # type alias: Node = AbstractNode = str ; Dependency = tuple[Module, Module]
                return self.ann(mod, mod.constants[name], depth + 1)
            fq = self.repo.resolve_name(mod, e)
            if fq is not None:
                if fq in self.repo.classes:
                    return ("cls", fq)
                m2, _, attr = fq.rpartition(".")
                om = self.repo.modules.get(m2)
                if om is not None and attr in om.constants:
                    return self.ann(om, om.constants[attr], depth + 1)
            if name in _PRIM:
                return ("b", _PRIM[name], ())
            if name in _COLL:
                return ("b", _COLL[name], ())
            if name in ("Any",):
                return UNKNOWN
            if name == "Callable":
                return ("b", "callable", ())
            if name in ("Path", "PurePath"):
                return ("lib", "pathlib.Path")
            if name == "ModuleType":
                return ("lib", "types.ModuleType")
            if fq is not None:
                return ("lib", fq)
            return UNKNOWN
        return UNKNOWN

    # ------------------------------------------------------------------ function facts
    def param_type(self, fi: FuncInfo, name: str) -> Type:
        for i, p in enumerate(fi.params):
            if p.arg == name:
                if i == 0 and fi.cls is not None and fi.outer is None and not fi.is_staticmethod:
                    return ("type", fi.cls.fq) if fi.is_classmethod else ("cls", fi.cls.fq)
                if p.annotation is not None:
                    t = self.ann(fi.module, p.annotation)
                    if any(m[0] == "type" or (m[0] == "b" and m[1] == "callable") for m in members(t)):
                        # callable-valued slot: tiny value analysis over the default and every call site in the repo
                        vals = [x for x in self._callable_values(fi, p) if x != UNKNOWN]
                        if vals:
                            return union(vals)
                    return t
                # un-annotated parameter: fall back to the default value
                d = self._default_of(fi, p)
                if d is not None:
                    return self.expr(fi, d)
                return UNKNOWN
        return UNKNOWN

    def _callable_values(self, fi: FuncInfo, p: ast.arg) -> list[Type]:
        key = ("cv", fi.fq, p.arg)
        if key in self._in_progress:
            return []
        self._in_progress.add(key)
        try:
            out: list[Type] = []
            d = self._default_of(fi, p)
            if d is not None:
                out.append(self.expr(fi, d))
            params = fi.param_names
            bound = fi.cls is not None and fi.outer is None and not fi.is_staticmethod
            idx = params.index(p.arg) - (1 if bound else 0)
            for g in self.repo.all_functions():
                for n in own_nodes(g.node):
                    if not isinstance(n, ast.Call):
                        continue
                    fname = n.func.attr if isinstance(n.func, ast.Attribute) else n.func.id if isinstance(n.func, ast.Name) else ""
                    target = fi.cls.name if (fi.name == "__init__" and fi.cls is not None) else fi.name
                    if fname != target:
                        continue
                    arg = None
                    for k in n.keywords:
                        if k.arg == p.arg:
                            arg = k.value
                    if arg is None and 0 <= idx < len(n.args):
                        arg = n.args[idx]
                    if arg is not None:
                        out.append(self.expr(g, arg))
            return out
        finally:
            self._in_progress.discard(key)

    @staticmethod
    def _default_of(fi: FuncInfo, p: ast.arg) -> ast.expr | None:
        a = fi.node.args
        pos = [*a.posonlyargs, *a.args]
        if p in pos:
            idx = pos.index(p) - (len(pos) - len(a.defaults))
            return a.defaults[idx] if idx >= 0 else None
        if p in a.kwonlyargs:
            return a.kw_defaults[a.kwonlyargs.index(p)]
        return None

    def returns_self(self, fi: FuncInfo) -> bool:
        """All return statements are `return self` (fluent interface)."""
        if isinstance(fi.node, ast.Lambda) or not fi.params:
            return False
        first = fi.params[0].arg
        rets = [n for n in own_nodes(fi.node) if isinstance(n, ast.Return)]
        return bool(rets) and all(isinstance(r.value, ast.Name) and r.value.id == first for r in rets)

    def return_type(self, fi: FuncInfo, receiver: Type | None = None) -> Type:
        if self.returns_self(fi) and receiver is not None and receiver[0] in ("cls", "union"):
            return receiver
        if fi.fq in self._ret_cache:
            return self._ret_cache[fi.fq]
        t = UNKNOWN
        if not isinstance(fi.node, ast.Lambda) and fi.node.returns is not None:
            t = self.ann(fi.module, fi.node.returns)
        if t == UNKNOWN and fi.fq not in self._in_progress:
            self._in_progress.add(fi.fq)
            try:
                rets = [n.value for n in own_nodes(fi.node) if isinstance(n, ast.Return) and n.value is not None] if not isinstance(fi.node, ast.Lambda) else [fi.node.body]
                t = union(self.expr(fi, r) for r in rets) if rets else NONE
            finally:
                self._in_progress.discard(fi.fq)
        self._ret_cache[fi.fq] = t
        return t

    # ------------------------------------------------------------------ attributes of classes
    def attr_type(self, ci: ClassInfo, attr: str) -> Type:
        key = (ci.fq, attr)
        if key in self._attr_cache:
            return self._attr_cache[key]
        self._attr_cache[key] = UNKNOWN  # recursion guard
        ts: list[Type] = []
        for c in self.repo.mro(ci):
            if attr in c.ann_attrs:
                ts.append(self.ann(c.module, c.ann_attrs[attr]))
                break
            if attr in c.methods:
                m = c.methods[attr]
                ts.append(self.return_type(m, ("cls", ci.fq)) if m.is_property else ("fn", m))
                break
            stores = []
            for m in [*c.methods.values(), *c.extra_methods]:
                if not m.params:
                    continue
                selfname = m.params[0].arg
                for n in own_nodes(m.node):
                    tgt_val = []
                    if isinstance(n, ast.Assign):
                        tgt_val = [(t, n.value) for t in n.targets]
                    elif isinstance(n, ast.AnnAssign):
                        if isinstance(n.target, ast.Attribute) and isinstance(n.target.value, ast.Name) and n.target.value.id == selfname and n.target.attr == attr:
                            stores.append(self.ann(m.module, n.annotation))
                            continue
                    for t, v in tgt_val:
                        if isinstance(t, ast.Attribute) and isinstance(t.value, ast.Name) and t.value.id == selfname and t.attr == attr:
                            stores.append(self.expr(m, v))
                        elif isinstance(t, ast.Tuple):
                            for i, el in enumerate(t.elts):
                                if isinstance(el, ast.Attribute) and isinstance(el.value, ast.Name) and el.value.id == selfname and el.attr == attr:
                                    vt = self.expr(m, v)
                                    if vt[0] == "b" and vt[1] == "tuple" and len(vt[2]) > i:
                                        stores.append(vt[2][i])
                                    else:
                                        stores.append(UNKNOWN)
            if stores:
                ts.extend(stores)
                break
            if attr in c.class_attrs:
                ts.append(self.expr_in_module(c.module, c.class_attrs[attr]))
                break
        t = union(ts) if ts else UNKNOWN
        self._attr_cache[key] = t
        return t

    def expr_in_module(self, mod: ModuleInfo, e: ast.expr) -> Type:
        if isinstance(e, ast.Constant):
            return self._const(e)
        return UNKNOWN

    @staticmethod
    def _const(e: ast.Constant) -> Type:
        v = e.value
        if v is None:
            return NONE
        if isinstance(v, bool):
            return BOOL
        if isinstance(v, int):
            return INT
        if isinstance(v, str):
            return STR
        return UNKNOWN

    # ------------------------------------------------------------------ locals
    def locals(self, fi: FuncInfo) -> dict[str, Type]:
        if fi.fq in self._local_cache:
            return self._local_cache[fi.fq]
        env: dict[str, Type] = {}
        self._local_cache[fi.fq] = env
        for p in fi.params:
            env[p.arg] = self.param_type(fi, p.arg)
        a = fi.node.args
        if a.vararg:
            env[a.vararg.arg] = ("b", "tuple", (self.ann(fi.module, a.vararg.annotation),))
        if a.kwarg:
            env[a.kwarg.arg] = ("b", "dict", (STR, self.ann(fi.module, a.kwarg.annotation)))
        if isinstance(fi.node, ast.Lambda):
            return env
        # two passes so that later assignments can use earlier ones (flow-insensitive join)
        for _ in range(2):
            for n in own_nodes(fi.node):
                if isinstance(n, ast.AnnAssign) and isinstance(n.target, ast.Name):
                    env[n.target.id] = self.ann(fi.module, n.annotation)
                elif isinstance(n, ast.Assign):
                    vt = None
                    for t in n.targets:
                        if vt is None:
                            vt = self.expr(fi, n.value)
                        self._bind(env, t, vt)
                elif isinstance(n, (ast.For, ast.AsyncFor)):
                    self._bind(env, n.target, elem_type(self.expr(fi, n.iter)))
                elif isinstance(n, ast.comprehension):
                    self._bind(env, n.target, elem_type(self.expr(fi, n.iter)))
                elif isinstance(n, (ast.With, ast.AsyncWith)):
                    for it in n.items:
                        if it.optional_vars is not None:
                            self._bind(env, it.optional_vars, self.expr(fi, it.context_expr))
                elif isinstance(n, ast.ExceptHandler) and n.name:
                    env[n.name] = ("lib", "exception")
                elif isinstance(n, ast.NamedExpr):
                    self._bind(env, n.target, self.expr(fi, n.value))
        return env

    def _bind(self, env: dict[str, Type], target: ast.expr, t: Type) -> None:
        if isinstance(target, ast.Name):
            old = env.get(target.id)
            if old is None or old == UNKNOWN:
                env[target.id] = t
            elif t != UNKNOWN and t != old:
                # keep declared parameter types stable but record joins for plain locals
                env[target.id] = union([old, t])
        elif isinstance(target, (ast.Tuple, ast.List)):
            for i, el in enumerate(target.elts):
                sub = UNKNOWN
                for m in members(t):
                    if m[0] == "b" and m[1] == "tuple" and len(m[2]) > i and ("b", "ellipsis", ()) not in m[2]:
                        sub = m[2][i]
                    elif m[0] == "b" and m[1] in ("list", "seq", "set", "iter") and m[2]:
                        sub = m[2][0]
                self._bind(env, el, sub)

    # ------------------------------------------------------------------ expressions
    def expr(self, fi: FuncInfo, e: ast.expr, depth: int = 0) -> Type:
        if depth > 12:
            return UNKNOWN
        mod = fi.module
        if isinstance(e, ast.Constant):
            return self._const(e)
        if isinstance(e, ast.JoinedStr):
            return STR
        if isinstance(e, ast.Name):
            f: FuncInfo | None = fi
            while f is not None:
                env = self.locals(f)
                if e.id in env:
                    return env[e.id]
                # nested def visible by name
                for cand in f.module.all_funcs:
                    if cand.outer is f and cand.name == e.id:
                        return ("fn", cand)
                f = f.outer
            if e.id in mod.functions:
                return ("fn", mod.functions[e.id])
            if e.id in mod.classes:
                return ("type", mod.classes[e.id].fq)
            fq = self.repo.resolve_name(mod, e)
            if fq is not None:
                if fq in self.repo.classes:
                    return ("type", fq)
                m2, _, attr = fq.rpartition(".")
                om = self.repo.modules.get(m2)
                if om is not None and attr in om.functions:
                    return ("fn", om.functions[attr])
                if om is not None and attr in om.constants:
                    c = om.constants[attr]
                    return self._const(c) if isinstance(c, ast.Constant) else UNKNOWN
                return ("libref", fq)
            if e.id in ("True", "False"):
                return BOOL
            src = getattr(e, "_src", None)
            if src is not None and src[0].module is not mod and isinstance(src[1], ast.Name) and src[1].id == e.id:
                # a name copied from another module by the inlined view: resolve it where it was written
                om = src[0].module
                if e.id in om.functions or e.id in om.classes or e.id in om.imports or e.id in om.constants:
                    probe = FuncInfo(name="<probe>", qualname="<probe>", node=ast.Lambda(args=ast.arguments(posonlyargs=[], args=[], kwonlyargs=[], kw_defaults=[], defaults=[]), body=ast.Constant(value=None)), module=om)
                    return self.expr(probe, ast.Name(id=e.id, ctx=ast.Load()), depth + 1)
            return UNKNOWN
        if isinstance(e, ast.Attribute):
            bt = self.expr(fi, e.value, depth + 1)
            outs = []
            for m in members(bt):
                if m[0] == "cls":
                    ci = self.repo.classes.get(m[1])
                    outs.append(self.attr_type(ci, e.attr) if ci else UNKNOWN)
                elif m[0] == "type":
                    ci = self.repo.classes.get(m[1])
                    meth = self.repo.lookup_method(ci, e.attr) if ci else None
                    outs.append(("fn", meth) if meth else UNKNOWN)
                elif m[0] == "libref":
                    outs.append(("libref", f"{m[1]}.{e.attr}"))
                elif m[0] == "lib":
                    outs.append(("libattr", m[1], e.attr))
                elif m[0] == "b":
                    outs.append(("battr", m, e.attr))
                else:
                    outs.append(UNKNOWN)
            return union(outs)
        if isinstance(e, ast.Call):
            return self.call_type(fi, e, depth + 1)
        if isinstance(e, (ast.List, ast.ListComp)):
            if isinstance(e, ast.List):
                return ("b", "list", (union(self.expr(fi, x, depth + 1) for x in e.elts),)) if e.elts else ("b", "list", ())
            return ("b", "list", (self.expr(fi, e.elt, depth + 1),))
        if isinstance(e, (ast.Set, ast.SetComp)):
            if isinstance(e, ast.Set):
                return ("b", "set", (union(self.expr(fi, x, depth + 1) for x in e.elts),))
            return ("b", "set", (self.expr(fi, e.elt, depth + 1),))
        if isinstance(e, (ast.Dict, ast.DictComp)):
            if isinstance(e, ast.DictComp):
                return ("b", "dict", (self.expr(fi, e.key, depth + 1), self.expr(fi, e.value, depth + 1)))
            if e.keys and all(k is not None for k in e.keys):
                return ("b", "dict", (union(self.expr(fi, k, depth + 1) for k in e.keys), union(self.expr(fi, v, depth + 1) for v in e.values)))
            return ("b", "dict", ())
        if isinstance(e, ast.GeneratorExp):
            return ("b", "iter", (self.expr(fi, e.elt, depth + 1),))
        if isinstance(e, ast.Tuple):
            return ("b", "tuple", tuple(self.expr(fi, x, depth + 1) for x in e.elts))
        if isinstance(e, ast.Subscript):
            bt = self.expr(fi, e.value, depth + 1)
            outs = []
            for m in members(bt):
                if isinstance(e.slice, ast.Slice):
                    outs.append(m)
                elif m[0] == "b" and m[1] == "dict" and len(m[2]) > 1:
                    outs.append(m[2][1])
                elif m[0] == "b" and m[1] == "tuple" and m[2]:
                    idx = e.slice.value if isinstance(e.slice, ast.Constant) and isinstance(e.slice.value, int) else None
                    if idx is not None and -len(m[2]) <= idx < len(m[2]) and ("b", "ellipsis", ()) not in m[2]:
                        outs.append(m[2][idx])
                    else:
                        outs.append(elem_type(m))
                elif m[0] == "b" and m[1] in ("list", "seq"):
                    outs.append(elem_type(m))
                elif m[0] == "b" and m[1] == "str":
                    outs.append(STR)
                elif m[0] == "cls":
                    ci = self.repo.classes.get(m[1])
                    gi = self.repo.lookup_method(ci, "__getitem__") if ci else None
                    outs.append(self.return_type(gi) if gi else UNKNOWN)
                else:
                    outs.append(UNKNOWN)
            return union(outs)
        if isinstance(e, ast.IfExp):
            return union([self.expr(fi, e.body, depth + 1), self.expr(fi, e.orelse, depth + 1)])
        if isinstance(e, ast.BoolOp):
            return union(self.expr(fi, v, depth + 1) for v in e.values)
        if isinstance(e, ast.BinOp):
            lt = self.expr(fi, e.left, depth + 1)
            if isinstance(e.op, ast.Mod) and lt == STR:
                return STR
            rt = self.expr(fi, e.right, depth + 1)
            return lt if lt != UNKNOWN else rt
        if isinstance(e, (ast.Compare,)):
            return BOOL
        if isinstance(e, ast.UnaryOp):
            return BOOL if isinstance(e.op, ast.Not) else self.expr(fi, e.operand, depth + 1)
        if isinstance(e, ast.Lambda):
            lf = getattr(e, "_func", None)
            return ("fn", lf) if lf is not None else UNKNOWN
        if isinstance(e, ast.Starred):
            return self.expr(fi, e.value, depth + 1)
        if isinstance(e, ast.NamedExpr):
            return self.expr(fi, e.value, depth + 1)
        return UNKNOWN

    _BUILTIN_RET = {
        "str": STR, "len": INT, "bool": BOOL, "isinstance": BOOL, "hasattr": BOOL, "any": BOOL, "all": BOOL, "int": INT, "repr": STR,
    }

    def call_type(self, fi: FuncInfo, call: ast.Call, depth: int = 0) -> Type:
        f = call.func
        # builtins / constructors of collections
        if isinstance(f, ast.Name) and f.id not in self.locals(fi) and self.repo.resolve_name(fi.module, f) is None:
            n = f.id
            if n in self._BUILTIN_RET:
                return self._BUILTIN_RET[n]
            arg0 = self.expr(fi, call.args[0], depth + 1) if call.args and not isinstance(call.args[0], ast.Starred) else UNKNOWN
            if n in ("list", "sorted", "reversed"):
                return ("b", "list", (elem_type(arg0),)) if call.args else ("b", "list", ())
            if n in ("set", "frozenset"):
                return ("b", "set", (elem_type(arg0),)) if call.args else ("b", "set", ())
            if n == "tuple":
                return ("b", "tuple", (elem_type(arg0), ("b", "ellipsis", ()))) if call.args else ("b", "tuple", ())
            if n == "dict":
                return arg0 if kind(arg0) == "dict" else ("b", "dict", ())
            if n in ("map", "filter", "zip", "enumerate", "iter"):
                if n == "map" and call.args:
                    ft = self.expr(fi, call.args[0], depth + 1)
                    if ft[0] == "fn":
                        return ("b", "iter", (self.return_type(ft[1]),))
                    return ("b", "iter", ())
                if n == "filter" and len(call.args) > 1:
                    return ("b", "iter", (elem_type(self.expr(fi, call.args[1], depth + 1)),))
                if n == "zip":
                    return ("b", "iter", (("b", "tuple", tuple(elem_type(self.expr(fi, a, depth + 1)) for a in call.args)),))
                if n == "enumerate" and call.args:
                    return ("b", "iter", (("b", "tuple", (INT, elem_type(arg0))),))
                return ("b", "iter", ())
            if n in ("next",):
                return elem_type(arg0)
            if n in ("min", "max"):
                return elem_type(arg0) if len(call.args) == 1 else arg0
            if n == "super":
                if fi.cls is not None:
                    return ("super", fi.cls.fq)
                return UNKNOWN
            if n == "cast" and len(call.args) == 2:
                return self.ann(fi.module, call.args[0])
            if n == "getattr":
                return UNKNOWN
        ft = self.expr(fi, f, depth + 1) if not (isinstance(f, ast.Attribute)) else None
        if isinstance(f, ast.Attribute):
            recv = self.expr(fi, f.value, depth + 1)
            outs = []
            for m in members(recv):
                if m[0] == "cls":
                    ci = self.repo.classes.get(m[1])
                    meth = self.repo.lookup_method(ci, f.attr) if ci else None
                    if meth is not None:
                        outs.append(self.return_type(meth, m))
                    else:
                        at = self.attr_type(ci, f.attr) if ci else UNKNOWN
                        outs.append(self._call_value(at))
                elif m[0] == "type":
                    ci = self.repo.classes.get(m[1])
                    meth = self.repo.lookup_method(ci, f.attr) if ci else None
                    outs.append(self.return_type(meth) if meth else UNKNOWN)
                elif m[0] == "super":
                    ci = self.repo.classes.get(m[1])
                    meth = None
                    if ci:
                        for c in self.repo.mro(ci)[1:]:
                            if f.attr in c.methods:
                                meth = c.methods[f.attr]
                                break
                    outs.append(self.return_type(meth) if meth else UNKNOWN)
                elif m[0] == "libref":
                    outs.append(self._lib_call(f"{m[1]}.{f.attr}", fi, call, depth))
                elif m[0] == "lib":
                    outs.append(self._lib_method(m[1], f.attr))
                elif m[0] == "b":
                    outs.append(self._builtin_method(m, f.attr, fi, call, depth))
                else:
                    outs.append(UNKNOWN)
            return union(outs)
        assert ft is not None
        outs = []
        for m in members(ft):
            outs.append(self._call_value(m, fi, call, depth))
        return union(outs)

    def _call_value(self, m: Type, fi: FuncInfo | None = None, call: ast.Call | None = None, depth: int = 0) -> Type:
        if m[0] == "type":
            return ("cls", m[1])
        if m[0] == "fn":
            return self.return_type(m[1])
        if m[0] == "partial":
            return self._call_value(m[1])
        if m[0] == "libref" and fi is not None and call is not None:
            return self._lib_call(m[1], fi, call, depth)
        return UNKNOWN

    def _lib_call(self, dotted: str, fi: FuncInfo, call: ast.Call, depth: int) -> Type:
        tail = dotted.rsplit(".", 1)[-1]
        if dotted in ("networkx.DiGraph", "networkx.Graph"):
            return ("lib", "networkx.DiGraph")
        if dotted in ("functools.partial",) and call.args:
            return ("partial", self.expr(fi, call.args[0], depth + 1), tuple(k.arg for k in call.keywords))
        if dotted in ("dataclasses.replace",) and call.args:
            return self.expr(fi, call.args[0], depth + 1)
        if dotted in ("collections.defaultdict",):
            return ("b", "dict", ())
        if dotted in ("pathlib.Path",):
            return ("lib", "pathlib.Path")
        if dotted.startswith("os.path.") or dotted in ("re.escape", "re.sub", "os.path.dirname"):
            return STR
        if dotted in ("re.compile",):
            return ("lib", "re.Pattern")
        if dotted in ("re.match", "re.search", "re.fullmatch"):
            return union([("lib", "re.Match"), NONE])
        if dotted in ("re.finditer",):
            return ("b", "iter", (("lib", "re.Match"),))
        if dotted in ("itertools.product",):
            return ("b", "iter", (("b", "tuple", tuple(elem_type(self.expr(fi, a, depth + 1)) for a in call.args)),))
        if dotted in ("bisect.bisect",):
            return INT
        if dotted in ("dataclasses.fields",):
            return ("b", "tuple", (("lib", "dataclasses.Field"), ("b", "ellipsis", ())))
        if tail in ("deepcopy", "copy") and call.args:
            return self.expr(fi, call.args[0], depth + 1)
        return ("lib", f"{dotted}()")

    @staticmethod
    def _lib_method(lib: str, attr: str) -> Type:
        if lib == "pathlib.Path":
            if attr in ("resolve", "relative_to", "with_suffix", "absolute", "joinpath"):
                return ("lib", "pathlib.Path")
            if attr in ("iterdir", "glob", "rglob"):
                return ("b", "iter", (("lib", "pathlib.Path"),))
            if attr in ("is_dir", "is_file", "exists"):
                return BOOL
            if attr in ("read_text",):
                return STR
        if lib == "re.Match" and attr == "group":
            return union([STR, NONE])
        if lib == "networkx.DiGraph":
            if attr in ("successors", "predecessors"):
                return ("b", "iter", (STR,))
            if attr in ("has_node", "has_edge"):
                return BOOL
        return UNKNOWN

    def _builtin_method(self, m: Type, attr: str, fi: FuncInfo, call: ast.Call, depth: int) -> Type:
        k = m[1]
        if k == "str":
            if attr in ("split", "rsplit", "splitlines"):
                return ("b", "list", (STR,))
            if attr in ("startswith", "endswith", "isidentifier", "isdigit"):
                return BOOL
            if attr in ("find", "index", "rfind", "count"):
                return INT
            return STR
        if k == "dict":
            if attr in ("get", "pop", "setdefault"):
                v = m[2][1] if len(m[2]) > 1 else UNKNOWN
                if attr == "get":
                    d = self.expr(fi, call.args[1], depth + 1) if len(call.args) > 1 else NONE
                    return union([v, d])
                return v
            if attr == "keys":
                return ("b", "set", (m[2][0],)) if m[2] else ("b", "set", ())
            if attr == "values":
                return ("b", "iter", (m[2][1],)) if len(m[2]) > 1 else ("b", "iter", ())
            if attr == "items":
                return ("b", "iter", (("b", "tuple", (m[2][0], m[2][1])),)) if len(m[2]) > 1 else ("b", "iter", ())
            if attr == "copy":
                return m
        if k in ("set", "frozenset"):
            if attr in ("union", "intersection", "difference", "symmetric_difference", "copy"):
                return m
            if attr == "pop":
                return m[2][0] if m[2] else UNKNOWN
            if attr in ("issubset", "issuperset", "isdisjoint"):
                return BOOL
        if k in ("list", "seq"):
            if attr == "pop":
                return m[2][0] if m[2] else UNKNOWN
            if attr == "copy":
                return m
            if attr in ("index", "count"):
                return INT
        return NONE if attr in ("append", "extend", "add", "update", "remove", "clear", "sort", "insert", "discard") else UNKNOWN

    # ------------------------------------------------------------------ call resolution
    def callees(self, fi: FuncInfo, call: ast.Call, byname_fallback: bool = True) -> tuple[list[FuncInfo], str]:
        """Repo functions a call expression may invoke, and how it was resolved.

        how in {"repo", "ctor", "lib", "builtin", "byname", "unresolved"}.
        Virtual calls use class-hierarchy analysis (overrides in subclasses are included).
        """
        f = call.func
        repo = self.repo
        if isinstance(f, ast.Attribute):
            recv = self.expr(fi, f.value)
            out: list[FuncInfo] = []
            how = set()
            for m in members(recv):
                if m[0] == "cls":
                    ci = repo.classes.get(m[1])
                    impls = repo.implementations(ci, f.attr) if ci else []
                    if impls:
                        out += impls
                        how.add("repo")
                        continue
                    at = self.attr_type(ci, f.attr) if ci else UNKNOWN
                    got = self._callable_targets(at)
                    if got:
                        out += got
                        how.add("repo")
                    else:
                        how.add("unresolved")
                elif m[0] == "type":
                    ci = repo.classes.get(m[1])
                    meth = repo.lookup_method(ci, f.attr) if ci else None
                    if meth is not None:
                        out.append(meth)
                        # classmethod called on the class: subclasses may override
                        how.add("repo")
                    else:
                        how.add("unresolved")
                elif m[0] == "super":
                    ci = repo.classes.get(m[1])
                    meth = None
                    if ci:
                        for c in repo.mro(ci)[1:]:
                            if f.attr in c.methods:
                                meth = c.methods[f.attr]
                                break
                    if meth:
                        out.append(meth)
                        how.add("repo")
                    else:
                        how.add("lib")
                elif m[0] in ("libref", "lib", "libattr"):
                    how.add("lib")
                elif m[0] in ("b", "battr"):
                    how.add("builtin")
                else:
                    how.add("unknown")
            if "unknown" in how or "unresolved" in how:
                if byname_fallback:
                    cands = [m for c in repo.classes.values() for n, m in c.methods.items() if n == f.attr]
                    if cands:
                        return _dedupe(out + cands), "byname"
                if out:
                    return _dedupe(out), "repo"
                return [], "unresolved" if f.attr not in _COMMON_BUILTIN_METHODS else "builtin"
            if out:
                return _dedupe(out), "repo"
            return [], "lib" if "lib" in how else "builtin"
        ft = self.expr(fi, f)
        out = []
        how = "unresolved"
        for m in members(ft):
            if m[0] == "type":
                ci = repo.classes.get(m[1])
                init = repo.lookup_method(ci, "__init__") if ci else None
                if init is not None:
                    out.append(init)
                post = repo.lookup_method(ci, "__post_init__") if ci else None
                if post is not None:
                    out.append(post)
                how = "ctor"
            elif m[0] == "fn":
                out.append(m[1])
                how = "repo"
            elif m[0] == "partial":
                got = self._callable_targets(m)
                out += got
                how = "repo" if got else "lib"
            elif m[0] in ("libref", "lib"):
                how = "lib" if how == "unresolved" else how
            elif m[0] == "b" and m[1] == "callable":
                how = "callable-param" if how == "unresolved" else how
        if not out and isinstance(f, ast.Name) and f.id in _BUILTINS:
            how = "builtin"
        return _dedupe(out), how

    def _callable_targets(self, t: Type) -> list[FuncInfo]:
        out: list[FuncInfo] = []
        for m in members(t):
            if m[0] == "fn":
                out.append(m[1])
            elif m[0] == "type":
                ci = self.repo.classes.get(m[1])
                init = self.repo.lookup_method(ci, "__init__") if ci else None
                if init:
                    out.append(init)
            elif m[0] == "partial":
                out += self._callable_targets(m[1])
        return out

    def ctor_class(self, fi: FuncInfo, call: ast.Call) -> ClassInfo | None:
        """Repo class constructed by this call expression, if any."""
        if isinstance(call.func, ast.Attribute):
            ft = self.expr(fi, call.func)
        else:
            ft = self.expr(fi, call.func)
        for m in members(ft):
            if m[0] == "type":
                return self.repo.classes.get(m[1])
        return None


_BUILTINS = {
    "len", "isinstance", "hasattr", "getattr", "setattr", "str", "int", "bool", "list", "set", "dict", "tuple", "frozenset", "sorted", "map", "filter",
    "zip", "any", "all", "next", "iter", "open", "print", "min", "max", "sum", "range", "enumerate", "reversed", "super", "type", "repr", "cast",
    "Exception", "TypeError", "KeyError", "ValueError", "NotImplementedError", "AssertionError", "StopIteration", "RuntimeError", "LookupError",
}
_COMMON_BUILTIN_METHODS = {
    "append", "extend", "add", "update", "remove", "pop", "clear", "sort", "insert", "discard", "join", "split", "startswith", "endswith", "replace",
    "items", "keys", "values", "get", "setdefault", "format", "strip", "rstrip", "lstrip", "read", "intersection", "union", "difference", "copy",
    "group", "lower", "upper", "index", "find", "count", "removeprefix", "removesuffix", "rsplit", "partition", "rpartition", "isidentifier",
}


def _dedupe(fs: list[FuncInfo]) -> list[FuncInfo]:
    seen: list[FuncInfo] = []
    for f in fs:
        if f not in seen:
            seen.append(f)
    return seen
