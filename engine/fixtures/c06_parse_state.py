"""Positive fixture for C06.R6 (never imported by anything): parsers whose `parse` does / does not depend on earlier calls.

Every class has a `parse(self, file_path)`.  `Stateful*` classes must yield a finding, `Fresh*` classes must not
(rules/c06_state.py: fixture_selfcheck runs the walk on each of them on every run of the check).
"""

import functools
import re

_TABLE = {}
_PATTERN = None
WORD = r"\w+"


def _read(file_path):
    with open(file_path) as f:
        return f.read()


class StatefulAliasThroughLocal:
    def __init__(self):
        self._names = {}

    def parse(self, file_path):
        table = self._names
        for line in _read(file_path).splitlines():
            table[line[:1]] = line
        return sorted(table)


class StatefulListAppend:
    def __init__(self):
        self._lines = []

    def parse(self, file_path):
        self._collect(_read(file_path))
        return list(self._lines)

    def _collect(self, content):
        for line in content.splitlines():
            self._lines.append(line)


class StatefulCounterNamesResult:
    def __init__(self):
        self._count = 0

    def parse(self, file_path):
        self._count += 1
        return f"{_read(file_path)}#{self._count}"


class StatefulFlagSetUnderInput:
    def __init__(self):
        self._strict = False

    def parse(self, file_path):
        content = _read(file_path)
        if self._strict and "@startuml" not in content:
            raise ValueError("no tags")
        if "strict" in content:
            self._strict = True
        return content


class StatefulModuleTableViaHelper:
    def parse(self, file_path):
        fill(_TABLE, _read(file_path))
        return dict(_TABLE)


def fill(table, content):
    for word in re.findall(WORD, content):
        table.setdefault(word, []).append(content)


class StatefulResetInLoopBodyOnly:
    def __init__(self):
        self._seen = set()

    def parse(self, file_path):
        out = []
        for line in _read(file_path).splitlines():
            if line in self._seen:
                continue
            self._seen.add(line)
            out.append(line)
        for _ in out:
            self._seen = set()
        return out


class StatefulCachedProperty:
    @functools.cached_property
    def _names(self):
        return {}

    def parse(self, file_path):
        for word in _read(file_path).split():
            self._names[word] = len(word)
        return dict(self._names)


class StatefulHelperObjectKeptInInit:
    def __init__(self):
        self._scanner = _Scanner()

    def parse(self, file_path):
        self._scanner.scan(_read(file_path))
        return self._scanner.words()


class _Scanner:
    def __init__(self):
        self._words = []

    def scan(self, content):
        self._words += content.split()

    def words(self):
        return list(self._words)


class StatefulClosureOverSelf:
    def __init__(self):
        self._names = {}

    def parse(self, file_path):
        def remember(word):
            self._names[word] = True
            return word

        words = [remember(w) for w in _read(file_path).split()]
        return words, sorted(self._names)


# ------------------------------------------------------------------------------------------------------------ history-free
class FreshLocalTable:
    def parse(self, file_path):
        table = {}
        fill(table, _read(file_path))
        return table


class FreshResetFirst:
    def __init__(self):
        self._names = {}
        self._lines = []

    def parse(self, file_path):
        self._reset()
        for line in _read(file_path).splitlines():
            self._names[line[:1]] = line
            self._lines.append(line)
        return sorted(self._names), list(self._lines)

    def _reset(self):
        self._names.clear()
        self._lines = []


class FreshResetOnBothBranches:
    def __init__(self):
        self._names = None

    def parse(self, file_path):
        content = _read(file_path)
        if "@startuml" in content:
            self._names = {}
        else:
            self._names = {"": content}
        self._names[content[:1]] = content
        return dict(self._names)


class FreshConfigurationOnly:
    def __init__(self, strict=True):
        self._strict = strict
        self._markers = ["@startuml", "@enduml"]

    def parse(self, file_path):
        content = _read(file_path)
        if self._strict and not all(m in content for m in self._markers):
            raise ValueError("no tags")
        return content


class FreshLazyConstants:
    _word = None

    def parse(self, file_path):
        global _PATTERN
        if _PATTERN is None:
            _PATTERN = re.compile(WORD)
        if self._word is None:
            type(self)._word = re.compile(r"\s+")
        return _PATTERN.findall(_read(file_path)), self._word.split("a b")


class FreshStatisticsNeverRead:
    def __init__(self):
        self._parsed = 0
        self._paths = []

    def parse(self, file_path):
        self._parsed += 1
        self._paths.append(file_path)
        return _read(file_path)


class FreshHelperObjectPerCall:
    def __init__(self):
        self._scanner = None

    def parse(self, file_path):
        self._scanner = _Scanner()
        self._scanner.scan(_read(file_path))
        return self._scanner.words()


class FreshMemoByContent:
    def __init__(self):
        self._results = {}

    def parse(self, file_path):
        content = _read(file_path)
        if content not in self._results:
            self._results[content] = self._compute(content)
        return self._results[content]

    @staticmethod
    @functools.lru_cache(maxsize=None)
    def _compute(content):
        return tuple(content.split())


class FreshTryFinally:
    def __init__(self):
        self._names = {}

    def parse(self, file_path):
        try:
            self._names = {}
            content = _read(file_path)
        except OSError:
            self._names = {}
            content = ""
        self._names[content[:1]] = content
        return dict(self._names)


class FreshStepsFromATable:
    def __init__(self):
        self._names = {}
        self._content = ""

    def parse(self, file_path):
        self._content = _read(file_path)
        for step in (self._reset, self._scan):
            step()
        return dict(self._names)

    def _reset(self):
        self._names = {}

    def _scan(self):
        for word in self._content.split():
            self._names[word] = len(word)


class StatefulOneStepOfSeveral:
    def __init__(self):
        self._names = {}

    def parse(self, file_path):
        content = _read(file_path)
        step = self._reset if "@startuml" in content else self._keep
        step()
        for word in content.split():
            self._names[word] = len(word)
        return dict(self._names)

    def _reset(self):
        self._names = {}

    def _keep(self):
        pass


class FreshPatternTable:
    _patterns = {}

    @classmethod
    def _pattern(cls, name):
        if name not in cls._patterns:
            cls._patterns[name] = re.compile(WORD + name)
        return cls._patterns[name]

    def parse(self, file_path):
        return self._pattern("x").findall(_read(file_path)) + self._pattern("y").findall(_read(file_path))


class _Resolver:
    def __init__(self):
        self._names = {}

    def learn(self, content):
        for word in content.split():
            self._names[word[:1]] = word

    def __call__(self, key):
        return self._names.get(key, key)


class StatefulCallableObjectKept:
    def __init__(self):
        self._resolve = _Resolver()

    def parse(self, file_path):
        content = _read(file_path)
        self._resolve.learn(content)
        return [self._resolve(w) for w in content.split()]


class FreshCallableObjectPerCall:
    def parse(self, file_path):
        content = _read(file_path)
        resolve = _Resolver()
        resolve.learn(content)
        return [resolve(w) for w in content.split()]
