"""Positive fixture for C16.R1 (never imported by anything): `str | list[str]` values that are / are not normalised before they
are iterated.  Every `unsafe_*` function (or its `_helper_of_unsafe_*`) must be flagged, no `safe_*` function may be."""

from __future__ import annotations

from typing import List, Sequence, Union


def _listify(x: str | list[str]) -> list[str]:
    return x if isinstance(x, list) else [x]


def _passthrough(x):
    return x


def unsafe_set_of_raw(modules: str | list[str]):
    return set(modules)


def unsafe_loop_over_raw(modules: Union[str, List[str]]):
    out = []
    for m in modules:
        out.append(m)
    return out


def unsafe_alias(modules: str | Sequence[str]):
    names = modules
    return [n for n in names]


def unsafe_membership(modules: str | list[str], name: str):
    return name in modules


def unsafe_through_helper(modules: str | list[str]):
    return _helper_of_unsafe_through_helper(modules)


def _helper_of_unsafe_through_helper(names):
    return sorted(names)


def unsafe_returned_by_helper(modules: str | list[str]):
    same = _passthrough(modules)
    return len(same)


def unsafe_wrong_branch(modules: str | list[str]):
    if isinstance(modules, str):
        return list(modules)
    return modules


def unsafe_join(modules: str | list[str]):
    return ", ".join(modules)


def unsafe_extend(modules: str | list[str]):
    acc = []
    acc.extend(modules)
    return acc


def unsafe_normalised_too_late(modules: str | list[str]):
    known = set(modules)
    modules = _listify(modules)
    return known, modules


def safe_conditional_expression(modules: str | list[str]):
    names = modules if isinstance(modules, list) else [modules]
    return set(names)


def safe_in_place(modules: str | list[str]):
    if isinstance(modules, str):
        modules = [modules]
    return [m for m in modules]


def safe_negated_in_place(modules: str | list[str]):
    if not isinstance(modules, list):
        modules = [modules]
    return sorted(modules)


def safe_if_else(modules: str | list[str]):
    if isinstance(modules, list):
        names = modules
    else:
        names = [modules]
    for n in names:
        print(n)


def safe_helper(modules: str | list[str]):
    return set(_listify(modules))


def safe_early_return(modules: str | list[str]):
    if isinstance(modules, str):
        return [modules]
    return list(modules)


def safe_guarded_use(modules: str | list[str]):
    if isinstance(modules, list) and len(modules) > 1:
        return modules[0]
    return None


def safe_handed_to_same_kind(modules: str | list[str]):
    return safe_helper(modules)


def safe_wrapped(modules: str | list[str]):
    return [modules]


def safe_boolean_local(modules: str | list[str]):
    batch = not isinstance(modules, str)
    names = list(modules) if batch else [modules]
    return names


def unsafe_stale_boolean_local(modules: str | list[str], other: str | list[str]):
    batch = isinstance(modules, list)
    modules = other
    if batch:
        return sorted(modules)
    return [modules]
