"""Positive fixture for the F-NAME lint (never imported by anything): one function per idiom, expected verdict in its name.

`unsafe_*` must yield at least one unsafe site, `safe_*` / `_safe_*` only safe (or not armed) ones; helpers named `_unsafe_*` /
`_helper_*` are unconstrained. The functions are analysed as a tiny repository of their own (rules/names.py: fixture_selfcheck).
"""

import re

Node = str
SEPARATOR = "."


# ----------------------------------------------------------------------------- raw prefix / substring relations


def unsafe_raw_prefix(module: Node, other: Node) -> bool:
    return module.startswith(other)


def unsafe_substring(module: Node, other: Node) -> bool:
    return other in module


def unsafe_slice_after_raw_test(module: Node, other: Node) -> str:
    if module.startswith(other):
        return "x" + module[len(other):]
    return module


def unsafe_replace(module: Node, other: Node) -> str:
    return module.replace(other, "alias")


def unsafe_prefix_from_sorted_collection(module: Node, listed: list[Node]) -> list[str]:
    found = []
    candidates = sorted(listed)
    idx = len(candidates) - 1
    while idx >= 0:
        candidate = candidates[idx]
        if module.startswith(candidate):
            found.append(candidate)
        idx -= 1
    return found


def unsafe_prefix_plus_depth(module: Node, other: Node) -> bool:
    depth = module.count(".")
    return module.startswith(other) and other.count(".") < depth


def unsafe_closure_any(modules: list[Node]) -> list[str]:
    names = {m for m in modules}

    def has_parent(identifier: str) -> bool:
        return any(identifier != name and identifier.startswith(name) for name in names)

    return [m for m in modules if not has_parent(m)]


class _Holder:
    def _helper_first_searched(self, module: Node, searched: dict[Node, list[str]]) -> str | None:
        for searched_module in searched:
            if self.unsafe_is_part_of_method(module, searched_module):
                return searched_module
        return None

    @classmethod
    def unsafe_is_part_of_method(cls, module_name: str, parent_module_name: str) -> bool:
        return module_name.startswith(parent_module_name)


def _helper_first_searched(module: Node, searched: dict[Node, list[str]]) -> str | None:
    for searched_module in searched:
        if unsafe_is_part_of_function(module, searched_module):
            return searched_module
    return None


def unsafe_is_part_of_function(module_name: str, parent_module_name: str) -> bool:
    return module_name.startswith(parent_module_name)


def unsafe_joined_prefix(module: Node, other: Node, level: int) -> bool:
    return module.startswith(".".join(other.split(".")[: level + 1]))


def unsafe_suffix(module: Node, other: Node) -> bool:
    return module.endswith(other)


def unsafe_find_is_zero(module: Node, other: Node) -> bool:
    return module.find(other) == 0


def unsafe_regex_from_name(module: Node, other: Node) -> bool:
    return re.match(rf"^{other}", module) is not None


def unsafe_escaped_regex_without_boundary(module: Node, other: Node) -> bool:
    return re.match(re.escape(other), module) is not None


def safe_dotted_prefix(module: Node, other: Node) -> bool:
    return module == other or module.startswith(other + ".")


def safe_fstring_prefix(module: Node, other: Node) -> bool:
    prefix = f"{other}."
    return module.startswith(prefix)


def safe_constant_separator(module: Node, other: Node) -> bool:
    return module == other or module.startswith(other + SEPARATOR)


def safe_tuple_of_prefixes(module: Node, first: Node, second: Node) -> bool:
    return module.startswith((first + ".", f"{second}."))


def _caller_builds_prefix(module: Node, other: Node) -> bool:
    return module == other or safe_prefix_built_by_caller(module, other + ".")


def safe_prefix_built_by_caller(module: str, prefix: str) -> bool:
    return module.startswith(prefix)


def _caller_prefixes_in_tuples(modules: list[Node], aliases: dict[Node, str]) -> dict[str, str]:
    replacements = [(name, f"{name}.", aliases[name]) for name in sorted(aliases, key=len, reverse=True)]
    labels = {}
    for module in modules:
        labels[module] = _safe_apply(module, replacements)
    return labels


def _safe_apply(module_name: str, replacements: list[tuple[str, str, str]]) -> str:
    for aliased, prefix, alias in replacements:
        if module_name != aliased and not module_name.startswith(prefix):
            continue
        return alias + module_name[len(aliased):]
    return module_name


def safe_slice_after_boundary_test(module: Node, other: Node) -> str:
    if module == other or module.startswith(f"{other}."):
        return "x" + module[len(other):]
    return module


def safe_slice_after_helper(module: Node, other: Node) -> str:
    if _safe_is_part_of(module, other):
        return "x" + module[len(other):]
    return module


def _safe_is_part_of(module: Node, other: Node) -> bool:
    if module == other:
        return True
    return module.startswith(other + ".")


def safe_slice_in_helper(module: Node, other: Node) -> str:
    if module == other or module.startswith(other + "."):
        return "x" + _safe_rest(module, other)
    return module


def _safe_rest(name: Node, ancestor: Node) -> str:
    return name[len(ancestor):]


def safe_slice_by_stored_length(module: Node, other: Node) -> str:
    if not (module == other or module.startswith(other + ".")):
        return module
    skip = len(other)
    return "x" + module[skip:]


def safe_remainder_predicate(module: Node, other: Node) -> bool:
    if not module.startswith(other):
        return False
    rest = module[len(other):]
    return rest == "" or rest[0] == "."


def safe_next_character(module: Node, other: Node) -> bool:
    return module == other or (module.startswith(other) and module[len(other)] == ".")


def safe_components(module: Node, other: Node) -> bool:
    parts = other.split(".")
    return module.split(".")[: len(parts)] == parts


def safe_dotted_suffix(module: Node, other: Node) -> bool:
    return module == other or module.endswith(f".{other}")


def safe_escaped_regex_with_boundary(module: Node, other: Node) -> bool:
    return re.match(re.escape(other) + r"(\.|$)", module) is not None


def safe_lexical_tests(module: Node) -> bool:
    return module.startswith("_") or module.endswith("__init__") or "-" in module


def safe_first_component_is_private(module: Node) -> bool:
    return module.split(".")[-1].startswith("_")


# ----------------------------------------------------------------------------- cutting names at an index


def unsafe_rfind_walk(module: Node, layers: dict[str, str]) -> set[str]:
    found = set()
    parent = module[: module.rfind(".")]
    while parent:
        if parent in layers:
            found.add(layers[parent])
        parent = parent[: parent.rfind(".")]
    return found


def unsafe_find_cut(module: Node) -> str:
    return module[: module.find(".")]


def unsafe_every_prefix(module: Node, layers: dict[str, str]) -> list[str]:
    return [layers[module[:i]] for i in range(len(module)) if module[:i] in layers]


def unsafe_enumerate_without_test(module: Node) -> list[str]:
    return [module[:idx] for idx, _char in enumerate(module)]


def unsafe_cut_at_other_name(module: Node, other: Node) -> str:
    return module[module.find(other):]


def safe_rfind_guarded_by_membership(module: Node) -> str:
    if "." in module:
        return module[: module.rfind(".")]
    return ""


def safe_rfind_guarded_by_index(module: Node) -> str:
    idx = module.rfind(".")
    if idx == -1:
        return ""
    return module[:idx]


def safe_rfind_walk(module: Node) -> list[str]:
    parents = []
    parent = module
    while "." in parent:
        parent = parent[: parent.rfind(".")]
        parents.append(parent)
    return parents


def safe_last_component(module: Node) -> str:
    return module[module.rfind(".") + 1 :]


def safe_rindex_cut(module: Node) -> str:
    return module[: module.rindex(".")]


def safe_enumerate_cut(module: Node) -> list[str]:
    return [module[:idx] for idx, character in enumerate(module) if character == "."]


def safe_enumerate_loop_cut(module: Node) -> list[str]:
    out = []
    for position, char in enumerate(module):
        if char != ".":
            continue
        out.append(module[:position])
    return out


def safe_rpartition_walk(module: Node) -> list[str]:
    parents = []
    head = module.rpartition(".")[0]
    while head:
        parents.append(head)
        head = head.rpartition(".")[0]
    return parents


def safe_rsplit_parent(module: Node) -> str:
    return module.rsplit(".", 1)[0]


# ----------------------------------------------------------------------------- separators


def unsafe_split_at_underscore(module: Node) -> list[str]:
    return module.split("_")


def unsafe_partition_at_dash(module: Node) -> str:
    return module.partition("-")[0]


def unsafe_join_without_separator(module: Node, level: int) -> str:
    return "".join(module.split(".")[:level])


def unsafe_join_with_dash(module: Node, level: int) -> str:
    parts = module.split(".")
    return "-".join(parts[: level + 1])


def safe_name_to_path_by_join(module: Node) -> str:
    return "/".join(module.split(".")) + ".py"


def unsafe_characters(module: Node) -> list[str]:
    parents = []
    current: list[str] = []
    for char in module:
        if char in "._":
            parents.append("".join(current))
        current.append(char)
    return parents


def safe_characters(module: Node) -> list[str]:
    parents = []
    current: list[str] = []
    for char in module:
        if char == ".":
            parents.append("".join(current))
        current.append(char)
    return parents


def safe_flatten(module: Node, level: int) -> str:
    parts = module.split(".")
    return ".".join(parts[: level + 1])


def safe_flatten_with_decorated_components(module: Node, level: int) -> str:
    head, *rest = module.split(".")
    return head + "".join(f".{component}" for component in rest[:level])


def safe_ancestors_by_components(module: Node) -> list[str]:
    components = module.split(".")
    return [".".join(components[:level]) for level in range(1, len(components))]


def safe_message_from_components(module: Node) -> str:
    return ", ".join(repr(component) for component in module.split("."))


# ----------------------------------------------------------------------------- extent of a component-wise comparison


def unsafe_zip_truncates(module: Node, prefix: Node) -> bool:
    prefix_components = prefix.rstrip(".").split(".")
    return all(component == expected for component, expected in zip(module.split("."), prefix_components))


def safe_zip_with_length_test(module: Node, prefix: Node) -> bool:
    components = module.split(".")
    expected_components = prefix.split(".")
    return len(components) >= len(expected_components) and all(a == b for a, b in zip(components, expected_components))


# ----------------------------------------------------------------------------- further spellings of the idioms above


def safe_prefix_by_format(module: Node, other: Node) -> bool:
    return module == other or module.startswith("{}.".format(other)) or module.startswith("%s." % other)


def safe_prefix_by_join_of_literal(module: Node, other: Node) -> bool:
    return module == other or module.startswith(".".join([other, ""]))


def safe_prefix_normalised_by_expression(module: Node, prefix: str) -> bool:
    dotted = prefix if prefix.endswith(".") else prefix + "."
    return module.startswith(dotted)


def safe_prefix_normalised_by_statement(module: Node, prefix: str) -> bool:
    if not prefix.endswith("."):
        prefix += "."
    return module.startswith(prefix)


def safe_prefixes_from_comprehension(module: Node, listed: list[Node]) -> bool:
    prefixes = tuple(f"{name}." for name in listed)
    return module in listed or any(module.startswith(prefix) for prefix in prefixes)


def unsafe_prefix_tuple_from_names(module: Node, listed: list[Node]) -> bool:
    return module.startswith(tuple(listed))


def unsafe_bound_method(module: Node, listed: list[Node]) -> bool:
    return any(map(module.startswith, listed))


def safe_bound_method(module: Node, listed: list[Node]) -> bool:
    return module in listed or any(map(module.startswith, [name + "." for name in listed]))


def safe_slice_equals_dotted(module: Node, other: Node) -> bool:
    return module == other or module[: len(other) + 1] == other + "."


def safe_slice_equals_dotted_prefix(module: Node, other: Node) -> bool:
    prefix = f"{other}."
    return module == other or module[: len(prefix)] == prefix


def unsafe_slice_equals_raw(module: Node, other: Node) -> bool:
    return module[: len(other)] == other


def unsafe_suffix_by_slice(module: Node, other: Node) -> bool:
    return module[-len(other) :] == other


def safe_removeprefix_after_test(module: Node, other: Node) -> str:
    if module == other or module.startswith(other + "."):
        return "x" + module.removeprefix(other)
    return module


def unsafe_removeprefix_raw(module: Node, other: Node) -> str:
    return module.removeprefix(other)


def unsafe_commonprefix(module: Node, other: Node) -> bool:
    import os.path

    return os.path.commonprefix([module, other]) == other


def unsafe_glob_from_name(module: Node, other: Node) -> bool:
    import fnmatch

    return fnmatch.fnmatch(module, other + "*")


def safe_glob_with_boundary(module: Node, other: Node) -> bool:
    import fnmatch

    return module == other or fnmatch.fnmatch(module, other + ".*")


def unsafe_zip_characters(module: Node, other: Node) -> bool:
    return all(a == b for a, b in zip(module, other))


def unsafe_every_prefix_by_accumulation(module: Node) -> list[str]:
    prefixes = []
    current = ""
    for char in module:
        prefixes.append(current)
        current += char
    return prefixes


def unsafe_underscore_becomes_separator(module: Node) -> list[str]:
    return module.replace("_", ".").split(".")


def safe_name_to_path(module: Node) -> str:
    return module.replace(".", "/")


def safe_decorated_containment(module: Node, other: Node) -> bool:
    return f".{other}." in f".{module}."


def safe_rfind_conditional_expression(module: Node) -> str:
    idx = module.rfind(".")
    return module[:idx] if idx >= 0 else ""


def safe_walrus_walk(module: Node) -> list[str]:
    parents = []
    name = module
    while (idx := name.rfind(".")) != -1:
        name = name[:idx]
        parents.append(name)
    return parents


def safe_positions_then_cut(module: Node) -> list[str]:
    dots = [position for position, char in enumerate(module) if char == "."]
    return [module[:dot] for dot in dots]


def unsafe_positions_without_test(module: Node) -> list[str]:
    positions = [position for position, char in enumerate(module)]
    return [module[:p] for p in positions]


def safe_regex_positions(module: Node) -> list[str]:
    return [module[: match.start()] for match in re.finditer(r"\.", module)]


def safe_index_in_try(module: Node) -> str:
    try:
        return module[: module.index(".")]
    except ValueError:
        return module


def safe_remainder_after_removeprefix(module: Node, other: Node) -> bool:
    rest = module.removeprefix(other)
    return rest != module and rest.startswith(".") or module == other


def safe_remainder_examined_inline(module: Node, other: Node) -> bool:
    return module.startswith(other) and module[len(other):][:1] in ("", ".")


def safe_prefixes_in_dict(module: Node, aliases: dict[Node, str]) -> str:
    prefixes = {name: name + "." for name in aliases}
    for name in sorted(aliases, key=len, reverse=True):
        if module == name or module.startswith(prefixes[name]):
            return aliases[name] + module[len(name):]
    return module


class _Alias:
    def __init__(self, module: Node, alias: str) -> None:
        self.module = module
        self.alias = alias
        self._dotted = module + "."

    @property
    def prefix(self) -> str:
        return f"{self.module}."

    def safe_covers(self, name: Node) -> bool:
        return name == self.module or name.startswith(self.prefix) or name.startswith(self._dotted)

    def unsafe_covers(self, name: Node) -> bool:
        return name.startswith(self.module)


def safe_find_loop(module: Node) -> list[str]:
    parents = []
    position = module.find(".")
    while position != -1:
        parents.append(module[:position])
        position = module.find(".", position + 1)
    return parents


def unsafe_strip_by_name(module: Node, other: Node) -> str:
    return module.lstrip(other)


def safe_fullmatch_escaped(module: Node, other: Node) -> bool:
    return re.fullmatch(re.escape(other), module) is not None


def unsafe_prefix_with_separator_cut_off(module: Node, other: Node) -> bool:
    dotted = other + "."
    return module.startswith(dotted[:-1])


class _Naming:
    SEPARATOR = "."

    def safe_class_constant_separator(self, module: Node, other: Node) -> bool:
        return module == other or module.startswith(other + self.SEPARATOR) or module.startswith(other + _Naming.SEPARATOR)


INIT_FILE = "__init__"


def safe_lexical_test_with_module_constant(module: Node) -> bool:
    return module.endswith(INIT_FILE) or module.startswith(INIT_FILE + "_")


def unsafe_case_folded_comparison(module: Node, other: Node) -> bool:
    return module.lower() == other.lower()


def unsafe_unbound_method(module: Node, other: Node) -> bool:
    return str.startswith(module, other)


def safe_sorted_case_insensitively(modules: list[Node]) -> list[str]:
    return sorted(modules, key=lambda m: m.lower()) + [m for m in modules if str.startswith(m, "_")]


def safe_constant_prefix_tuple(module: Node) -> bool:
    return module.startswith(("_", "test")) or SEPARATOR in module


# ----------------------------------------------------------------------------- boundary evidence away from the raw test


def safe_nested_next_character_test(module: Node, listed: list[Node], aliases: dict[str, str]) -> str:
    for candidate in listed:
        if module == candidate:
            return aliases[candidate]
        if len(module) > len(candidate) and module.startswith(candidate):
            tail = module[len(candidate):]
            if tail[0] == ".":
                return aliases[candidate] + tail
    return module


def unsafe_nested_test_of_wrong_character(module: Node, listed: list[Node], aliases: dict[str, str]) -> str:
    for candidate in listed:
        if len(module) > len(candidate) and module.startswith(candidate):
            tail = module[len(candidate):]
            if tail[0] != "_":
                return aliases[candidate] + tail
    return module


def safe_partition_of_remainder(parent: Node, module: Node) -> bool:
    start, separator, _ = module[len(parent):].partition(".")
    if start:
        return False
    if not separator and len(module) != len(parent):
        return False
    return module.startswith(parent)


class _DottedName:
    def __init__(self, full_name: Node) -> None:
        self.full_name = full_name

    def _separator_positions(self) -> list[int]:
        return [position for position, char in enumerate(self.full_name) if char == "."]

    def safe_is_below(self, other: Node) -> bool:
        end_of_other = len(other)
        if end_of_other not in self._separator_positions():
            return False
        return self.full_name[:end_of_other] == other

    def unsafe_is_below(self, other: Node) -> bool:
        end_of_other = len(other)
        if end_of_other > len(self.full_name):
            return False
        return self.full_name[:end_of_other] == other


def safe_early_exit_then_raw(module: Node, other: Node) -> bool:
    if module != other and module[len(other):len(other) + 1] != ".":
        return False
    return module.startswith(other)


def unsafe_effect_before_the_test_of_the_next_character(module: Node, other: Node, seen: list[str]) -> bool:
    if module.startswith(other):
        seen.append(other)
        if module[len(other):][:1] in ("", "."):
            return True
    return False


def safe_position_of_dotted_prefix_is_zero(module: Node, other: Node) -> bool:
    try:
        first = (module + ".").index(other + ".")
    except ValueError:
        return False
    return first == 0 or f"{module}.".find(f"{other}.") == 0


def unsafe_dotted_name_found_anywhere(module: Node, other: Node) -> bool:
    return (module + ".").find(other + ".") != -1


def safe_three_way_decision(module: Node, other: Node) -> str:
    if not module.startswith(other):
        return "external"
    if module[len(other):][:1] in ("", "."):
        return "internal"
    return "sibling"


def _helper_is_or_is_below(name: str, parent: str) -> bool:
    return name == parent or name.startswith(parent + ".")


def safe_relation_by_helper(module: Node, listed: list[Node]) -> str:
    ancestor = next((c for c in listed if _helper_is_or_is_below(module, c)), None)
    if ancestor is None:
        return module
    return "x" + module[len(ancestor):]


def notsafe_relation_helper_with_swapped_arguments(module: Node, listed: list[Node]) -> str:
    ancestor = next((c for c in listed if _helper_is_or_is_below(c, module)), None)
    if ancestor is None:
        return module
    return "x" + module[len(ancestor):]


def notsafe_evidence_about_another_string(module: Node, other: Node, third: Node) -> str:
    if module.startswith(other) and module[len(third):][:1] in ("", "."):
        return "x" + module[len(other):]
    return module


def unsafe_parent_by_wrong_separator(module: Node) -> str:
    parent = module.rpartition("_")[0]
    return module.removeprefix(parent)


def safe_remainder_below_generated_ancestor(module: Node, aliases: dict[Node, str]) -> str:
    for ancestor in _helper_ancestors_bottom_up(module):
        if ancestor in aliases:
            return aliases[ancestor] + module.removeprefix(ancestor)
    return module


def _helper_ancestors_bottom_up(module: Node):
    remaining, separator, _ = module.rpartition(".")
    while separator:
        yield remaining
        remaining, separator, _ = remaining.rpartition(".")


def safe_components_compared_with_zip_longest(module: Node, other: Node) -> bool:
    from itertools import zip_longest

    return all(theirs is None or mine == theirs for mine, theirs in zip_longest(module.split("."), other.split(".")))


def safe_walk_with_max(module: Node) -> list[str]:
    parents = []
    parent = module
    while parent:
        parent = parent[: max(parent.rfind("."), 0)]
        parents.append(parent)
    return parents


def unsafe_raw_prefix_of_other_names(module: Node, listed: list[Node]) -> list[str]:
    found = []
    for candidate in listed:
        if module != candidate and module.startswith(candidate):
            found.append(candidate)
    return found


def unsafe_raw_flag_escapes(module: Node, other: Node, log: list[str]) -> bool:
    is_prefix = module.startswith(other)
    if is_prefix and module[len(other):][:1] in ("", "."):
        log.append(other)
    return is_prefix


def safe_raw_flag_used_for_branching(module: Node, other: Node, log: list[str]) -> bool:
    is_prefix = module.startswith(other)
    if is_prefix and module[len(other):][:1] in ("", "."):
        log.append(other)
        return True
    return False


AFTER_ALL_NAME_CHARACTERS = "~"


def unsafe_block_of_sorted_names(module: Node, nodes: list[Node]) -> set[str]:
    from bisect import bisect_left

    ordered = sorted(nodes)
    return set(ordered[bisect_left(ordered, module) : bisect_left(ordered, module + AFTER_ALL_NAME_CHARACTERS)])


def safe_block_of_sorted_names(module: Node, nodes: list[Node]) -> set[str]:
    from bisect import bisect_left

    ordered = sorted(nodes)
    return {module} | set(ordered[bisect_left(ordered, module + ".") : bisect_left(ordered, module + "/")])


def safe_separator_constant_everywhere(module: Node, prefix: str) -> bool:
    root = prefix.rstrip(SEPARATOR)
    if not module.startswith(root):
        return False
    if len(module) == len(root):
        return True
    return module[len(root)] == SEPARATOR


def unsafe_length_compared_with_the_wrong_string(module: Node, prefix: str) -> bool:
    root = prefix.rstrip(SEPARATOR)
    if not module.startswith(root):
        return False
    if len(module) <= len(prefix):
        return True
    return module[len(root)] == SEPARATOR


def safe_match_on_next_character(module: Node, listed: list[Node], aliases: dict[str, str]) -> str:
    for candidate in listed:
        if not module.startswith(candidate):
            continue
        match (remainder := module[len(candidate):])[:1]:
            case "" | ".":
                return aliases[candidate] + remainder
            case _:
                continue
    return module


def safe_walrus_in_the_raw_test(module: Node, prefix: str) -> bool:
    if not module.startswith(root := prefix.rstrip(".")):
        return False
    return module[len(root) : len(root) + 1] in ("", ".")


def unsafe_match_on_wrong_character(module: Node, listed: list[Node], aliases: dict[str, str]) -> str:
    for candidate in listed:
        if not module.startswith(candidate):
            continue
        match (remainder := module[len(candidate):])[:1]:
            case "" | "_":
                return aliases[candidate] + remainder
            case _:
                continue
    return module


def safe_alternation_of_escaped_names(modules: list[Node]) -> list[str]:
    escaped = sorted(map(lambda m: re.escape(m), modules))
    below_any = re.compile(r"(?:{})\.".format("|".join(escaped)))
    return [m for m in modules if below_any.match(m) is None]


def unsafe_alternation_of_plain_names(modules: list[Node]) -> list[str]:
    below_any = re.compile(r"(?:{})\.".format("|".join(sorted(modules))))
    return [m for m in modules if below_any.match(m) is None]


def safe_prefixes_by_mapped_format(module: Node, listed: list[Node]) -> bool:
    prefixes = tuple(map("{}.".format, listed))
    return any(map(module.startswith, prefixes))


def safe_same_loop_variable_twice(modules: list[Node], listed: list[Node]) -> list[str]:
    dotted = []
    for name in listed:
        dotted.append(name + ".")
    out = []
    for name in dotted:
        out += [m for m in modules if m.startswith(name)]
    return out


def safe_remainder_by_removeprefix_after_raw_test(module: Node, prefix: str) -> bool:
    root = prefix.rstrip(".")
    if not module.startswith(root):
        return False
    below = module.removeprefix(root)
    return below == "" or below.startswith(".")


def safe_index_error_means_equal(module: Node, other: Node) -> bool:
    if not module.startswith(other):
        return False
    try:
        return module[len(other)] == "."
    except IndexError:
        return True


def unsafe_key_error_is_not_evidence(module: Node, other: Node, table: dict[str, bool]) -> bool:
    if not module.startswith(other):
        return False
    try:
        return table[module]
    except KeyError:
        return True


def safe_partition_at_dotted_prefix(module: Node, other: Node) -> bool:
    if module == other:
        return True
    before, separator, _ = module.partition(f"{other}.")
    return separator != "" and before == ""


def unsafe_partition_head_discarded(module: Node, other: Node) -> bool:
    _, separator, rest = module.partition(f"{other}.")
    return bool(separator) and bool(rest)


def safe_label_after_partition_predicate(module: Node, listed: list[Node], aliases: dict[str, str]) -> str:
    ancestor = next((c for c in listed if safe_partition_at_dotted_prefix(module, c)), None)
    if ancestor is None:
        return module
    return aliases[ancestor] + module[len(ancestor):]


def unsafe_early_stop_in_sorted_names(module: Node, listed: list[Node]) -> list[str]:
    from bisect import bisect
    from itertools import takewhile

    ordered = sorted(listed)
    return list(takewhile(lambda candidate: module.startswith(f"{candidate}."), reversed(ordered[: bisect(ordered, module)])))


def safe_full_scan_of_sorted_names(module: Node, listed: list[Node]) -> list[str]:
    from bisect import bisect

    ordered = sorted(listed)
    return [candidate for candidate in reversed(ordered[: bisect(ordered, module)]) if module.startswith(f"{candidate}.")]


def unsafe_block_from_the_name_itself(root: Node, modules: list[Node]) -> set[str]:
    from bisect import bisect_left

    ordered = sorted(modules)
    first = bisect_left(ordered, root)
    behind = bisect_left(ordered, f"{root}/", lo=first)
    return set(ordered[first:behind])


def unsafe_block_up_to_highest_character(module: Node, modules: list[Node]) -> set[str]:
    from bisect import bisect_left

    ordered = sorted(modules)
    return set(ordered[bisect_left(ordered, f"{module}.") : bisect_left(ordered, f"{module}{chr(0x10FFFF)}")])


def safe_block_up_to_highest_continuation(module: Node, modules: list[Node]) -> set[str]:
    from bisect import bisect_left

    ordered = sorted(modules)
    return set(ordered[bisect_left(ordered, f"{module}.") : bisect_left(ordered, f"{module}.{chr(0x10FFFF)}")])


def safe_characters_compared_with_named_separator(module: Node) -> list[str]:
    parents = []
    current: list[str] = []
    for char in module:
        if char == SEPARATOR:
            parents.append("".join(current))
        current.append(char)
    return parents + [module[:position] for position, char in enumerate(module) if char == SEPARATOR]


class _AliasRow:
    def __init__(self, module: Node, label: str) -> None:
        self.module = module
        self.label = label


def safe_field_of_selected_element(module: Node, rows: list[_AliasRow]) -> str:
    try:
        row = next(r for r in rows if module == r.module or module.startswith(f"{r.module}."))
    except StopIteration:
        return module
    return row.label + module[len(row.module):]


class _Graph:
    def __init__(self, level_limit: int) -> None:
        self._level_limit = level_limit

    def _flatten(self, node: Node) -> Node:
        node_parts = node.split(".")
        return ".".join(node_parts[: self._level_limit + 1])

    def unsafe_prefix_is_a_flattened_name(self, importer: Node, importee: Node) -> bool:
        flattened_importer = self._flatten(importer)
        return importee.startswith(flattened_importer)

    def unsafe_hierarchy_read_off_the_node_names(self, supposed_parent_node: Node, supposed_child_node: Node) -> bool:
        return supposed_child_node != supposed_parent_node and supposed_child_node.startswith(supposed_parent_node)

    def safe_prefix_is_a_flattened_name_plus_separator(self, importer: Node, importee: Node) -> bool:
        flattened_importer = self._flatten(importer)
        return importee == flattened_importer or importee.startswith(flattened_importer + ".")


def _caller_of_graph_methods(graph: _Graph, worklist: list, prefix: str) -> bool:
    node = worklist.pop()
    return graph.unsafe_hierarchy_read_off_the_node_names(node, prefix + ".") or graph.unsafe_prefix_is_a_flattened_name(node, node)


def _helper_length_of_closest_listed(name: Node, listed: frozenset) -> "int | None":
    length = len(name)
    while length >= 0:
        if name[:length] in listed:
            return length
        length = name.rfind(".", 0, length)
    return None


def safe_cut_at_index_from_helper(module: Node, aliases: dict[Node, str]) -> str:
    aliased_length = _helper_length_of_closest_listed(module, frozenset(aliases))
    if aliased_length is None:
        return module
    return aliases[module[:aliased_length]] + module[aliased_length:]


def _helper_length_of_raw_prefix(name: Node, listed: list[Node]) -> "int | None":
    for candidate in listed:
        if name.startswith(candidate):
            return len(candidate)
    return None


def unsafe_cut_at_length_of_raw_prefix(module: Node, aliases: dict[Node, str]) -> str:
    aliased_length = _helper_length_of_raw_prefix(module, sorted(aliases, key=len, reverse=True))
    if aliased_length is None:
        return module
    return aliases[module[:aliased_length]] + module[aliased_length:]


def _helper_unguarded_position(name: Node) -> int:
    position = name.rfind(".")
    return position


def unsafe_cut_at_unguarded_position_from_helper(module: Node) -> str:
    position = _helper_unguarded_position(module)
    return module[:position]


def safe_named_separator_in_fstring(module: Node, other: Node) -> bool:
    return module == other or module.startswith(f"{other}{SEPARATOR}")


def safe_label_after_named_separator_predicate(module: Node, listed: list[Node], aliases: dict[str, str]) -> str:
    try:
        closest = next(m for m in listed if safe_named_separator_in_fstring(module, m))
    except StopIteration:
        return module
    return aliases[closest] + module[len(closest):]


def _helper_partition_by_flag(filters: list) -> tuple:
    patterns: list[str] = []
    others: list = []
    for module_filter in filters:
        if not module_filter.identifier_is_regex:
            others.append(module_filter)
            continue
        patterns.append(module_filter.identifier)
    return patterns, others


def _caller_patterns_selected_by_flag_in_helper(filters: list, modules: list[Node]) -> list[str]:
    patterns, _others = _helper_partition_by_flag(filters)
    return [m for m in modules for pattern in patterns if safe_user_pattern_from_helper_tuple(pattern, m)]


def safe_user_pattern_from_helper_tuple(pattern_to_match: str, name: str) -> bool:
    return re.match(pattern_to_match, name) is not None


def _helper_partition_by_negated_flag(filters: list) -> tuple:
    patterns: list[str] = []
    others: list = []
    for module_filter in filters:
        if module_filter.identifier_is_regex:
            others.append(module_filter)
            continue
        patterns.append(module_filter.identifier)
    return patterns, others


def _caller_names_used_as_patterns(filters: list, modules: list[Node]) -> list[str]:
    patterns, _others = _helper_partition_by_negated_flag(filters)
    return [m for m in modules for pattern in patterns if unsafe_names_used_as_patterns(pattern, m)]


def unsafe_names_used_as_patterns(pattern_to_match: str, name: str) -> bool:
    return re.match(pattern_to_match, name) is not None


# ----------------------------------------------------------------------------- a prefix that ends with the separator on some paths only


def _helper_prefix_with_separator_on_one_branch(root: Node, path_diff: Node) -> str:
    prefix = root + "."
    if path_diff != ".":
        prefix += path_diff
    return prefix


def _helper_prefix_with_separator_on_every_branch(root: Node, path_diff: Node) -> str:
    prefix = root + "."
    if path_diff != ".":
        prefix += path_diff + "."
    return prefix


def unsafe_relies_on_separator_of_one_branch(module: Node, root: Node, path_diff: Node) -> bool:
    prefix = _helper_prefix_with_separator_on_one_branch(root, path_diff)
    if module == prefix.rstrip("."):
        return True
    return module.startswith(prefix)


def safe_relies_on_separator_of_every_branch(module: Node, root: Node, path_diff: Node) -> bool:
    prefix = _helper_prefix_with_separator_on_every_branch(root, path_diff)
    if module == prefix.rstrip("."):
        return True
    return module.startswith(prefix)


def _helper_is_below_dotted(module: str, dotted_prefix: str) -> bool:
    return module.startswith(dotted_prefix)


def _caller_passes_separator_at_every_call_site(module: Node, first: Node, second: Node) -> bool:
    return safe_prefix_dotted_at_every_call_site(module, first + ".") or safe_prefix_dotted_at_every_call_site(module, f"{second}.")


def safe_prefix_dotted_at_every_call_site(module: str, dotted_prefix: str) -> bool:
    return module.startswith(dotted_prefix)


def _caller_passes_separator_at_one_call_site(module: Node, first: Node, second: Node) -> bool:
    return unsafe_prefix_dotted_at_one_call_site_only(module, first + ".") or unsafe_prefix_dotted_at_one_call_site_only(module, second)


def unsafe_prefix_dotted_at_one_call_site_only(module: str, dotted_prefix: str) -> bool:
    return module.startswith(dotted_prefix)


def safe_prefix_reassigned_with_separator(module: Node, other: Node) -> bool:
    prefix = other
    prefix = prefix + "."
    return module.startswith(prefix)


def unsafe_separator_appended_on_one_path_only(module: Node, other: Node, nested: bool) -> bool:
    prefix = other
    if nested:
        prefix = prefix + "."
    return module.startswith(prefix)


def safe_parameter_normalised_by_assignment(module: Node, prefix: str) -> bool:
    prefix = prefix.rstrip(".") + "."
    return module + "." == prefix or module.startswith(prefix)


# ----------------------------------------------------------------------------- the not-found result of find is replaced on a path


def safe_find_loop_not_found_replaced_by_length(module: Node, limit: int) -> str:
    parts_to_keep = limit + 1
    if parts_to_keep <= 0:
        return ".".join(module.split(".")[:parts_to_keep])
    end = -1
    for _ in range(parts_to_keep):
        end = module.find(".", end + 1)
        if end < 0:
            end = len(module)
            break
    return module[:end]


def unsafe_find_loop_not_found_kept(module: Node, limit: int) -> str:
    parts_to_keep = limit + 1
    if parts_to_keep <= 0:
        return ".".join(module.split(".")[:parts_to_keep])
    end = -1
    for _ in range(parts_to_keep):
        end = module.find(".", end + 1)
        if end < 0:
            break
    return module[:end]


def unsafe_find_loop_that_may_not_run(module: Node, limit: int) -> str:
    end = -1
    for _ in range(limit):
        end = module.find(".", end + 1)
        if end < 0:
            end = len(module)
            break
    return module[:end]


def unsafe_find_loop_guard_never_true(module: Node, limit: int) -> str:
    if limit < 1:
        return module
    end = -1
    for _ in range(limit):
        end = module.find(".", end + 1)
        if end < -1:
            end = len(module)
            break
    return module[:end]


def safe_find_not_found_replaced_by_length(module: Node) -> str:
    end = module.find(".")
    if end == -1:
        end = len(module)
    return module[:end]


def safe_find_found_or_length(module: Node) -> str:
    end = module.find(".")
    if end != -1:
        pass
    else:
        end = len(module)
    return module[:end]


def unsafe_find_replaced_on_the_wrong_branch(module: Node) -> str:
    end = module.find(".")
    if end != -1:
        end = len(module)
    return module[:end]


def safe_rfind_while_not_found_replaced_by_zero(module: Node) -> list[str]:
    prefixes = []
    end = len(module)
    while True:
        end = module.rfind(".", 0, end)
        if 0 > end:
            end = 0
        if not end:
            break
        prefixes.append(module[:end])
    return prefixes


def unsafe_find_in_try_not_found_kept(module: Node) -> str:
    end = len(module)
    try:
        end = module.find(".")
        int(module[end + 1 :])
    except ValueError:
        return module[:end]
    return module


# ----------------------------------------------------------------------------- only the first occurrence is replaced


def safe_replace_first_occurrence_under_boundary_test(module: Node, listed: list[Node], aliases: dict[str, str]) -> str:
    for candidate in listed:
        if module == candidate or module.startswith(f"{candidate}."):
            return module.replace(candidate, aliases[candidate], 1)
    return module


def safe_replace_first_occurrence_of_an_ancestor(module: Node, aliases: dict[str, str]) -> str:
    for ancestor in reversed(get_parent_modules(module)):
        if ancestor in aliases:
            return module.replace(ancestor, aliases[ancestor], 1)
    return module


def get_parent_modules(module: Node) -> list[Node]:
    parts = module.split(".")
    return [".".join(parts[:i]) for i in range(1, len(parts))]


def unsafe_replace_every_occurrence_under_boundary_test(module: Node, listed: list[Node], aliases: dict[str, str]) -> str:
    for candidate in listed:
        if module == candidate or module.startswith(f"{candidate}."):
            return module.replace(candidate, aliases[candidate])
    return module


def unsafe_replace_two_occurrences_under_boundary_test(module: Node, listed: list[Node], aliases: dict[str, str]) -> str:
    for candidate in listed:
        if module == candidate or module.startswith(f"{candidate}."):
            return module.replace(candidate, aliases[candidate], 2)
    return module


def unsafe_replace_first_occurrence_after_raw_test(module: Node, listed: list[Node], aliases: dict[str, str]) -> str:
    for candidate in listed:
        if module.startswith(candidate):
            return module.replace(candidate, aliases[candidate], 1)
    return module


def unsafe_replace_first_occurrence_of_a_component(module: Node, listed: list[Node], aliases: dict[str, str]) -> str:
    for candidate in listed:
        if candidate in module.split("."):
            return module.replace(candidate, aliases[candidate], 1)
    return module


def unsafe_replace_first_occurrence_tested_on_another_name(module: Node, other: Node, candidate: Node, alias: str) -> str:
    if other == candidate or other.startswith(candidate + "."):
        return module.replace(candidate, alias, 1)
    return module


# ----------------------------------------------------------------------------- ancestors accumulated from the components


def safe_ancestors_accumulated_with_separator(module: Node) -> list[str]:
    from itertools import accumulate

    *ancestor_components, _ = module.split(".")
    return list(accumulate(ancestor_components, "{}.{}".format))


def safe_ancestors_accumulated_by_lambda(module: Node) -> list[str]:
    from itertools import accumulate

    return list(accumulate(module.split(".")[:-1], lambda ancestor, component: f"{ancestor}.{component}"))


def safe_name_reduced_from_components(module: Node, limit: int) -> str:
    from functools import reduce

    return reduce(lambda name, component: name + "." + component, module.split(".")[:limit])


def unsafe_ancestors_accumulated_without_separator(module: Node) -> list[str]:
    from itertools import accumulate

    *ancestor_components, _ = module.split(".")
    return list(accumulate(ancestor_components, "{}{}".format))


def unsafe_ancestors_accumulated_with_underscore(module: Node) -> list[str]:
    from itertools import accumulate

    return list(accumulate(module.split(".")[:-1], lambda ancestor, component: f"{ancestor}_{component}"))


def unsafe_name_reduced_with_plain_concatenation(module: Node, limit: int) -> str:
    from functools import reduce

    return reduce(lambda name, component: name + component, module.split(".")[:limit])


# ----------------------------------------------------------------------------- head and next character kept in locals / fields


def safe_head_and_next_character_as_locals(module: Node, other: Node) -> bool:
    end = len(other)
    head, next_character = module[:end], module[end : end + 1]
    return head == other and next_character in ("", ".")


def unsafe_head_as_local_compared_raw(module: Node, other: Node) -> bool:
    end = len(other)
    head = module[:end]
    return head == other


def unsafe_head_and_wrong_next_character_as_locals(module: Node, other: Node) -> bool:
    end = len(other)
    head, next_character = module[:end], module[end : end + 1]
    return head == other and next_character in ("", ".", "_")


class _MatcherWithLengthField:
    _ENDS = ("", ".")
    _WRONG_ENDS = ("", ".", "_")

    def __init__(self, root: Node) -> None:
        self._root = root.rstrip(".")
        self._end = len(self._root)
        self._other = root
        self._length_of_something_else = len(self._other)
        self._other = self._other.rstrip(".")

    def safe_length_in_field(self, module: Node) -> bool:
        end = self._end
        head, next_character = module[:end], module[end : end + 1]
        return head == self._root and next_character in self._ENDS

    def unsafe_length_in_field_no_boundary(self, module: Node) -> bool:
        end = self._end
        head = module[:end]
        return head == self._root

    def unsafe_length_in_field_wrong_boundary(self, module: Node) -> bool:
        end = self._end
        head, next_character = module[:end], module[end : end + 1]
        return head == self._root and next_character in self._WRONG_ENDS

    def notsafe_length_field_of_a_string_that_changed_since(self, module: Node) -> bool:
        end = self._length_of_something_else
        head, next_character = module[:end], module[end : end + 1]
        return head == self._other and next_character in self._ENDS


# ----------------------------------------------------------------------------- names handed to callable objects


class _RawPrefixMatcher:
    def __init__(self, root: Node) -> None:
        self._root = root

    def __call__(self, module: str) -> bool:
        return unsafe_reached_only_through_a_callable_object(module, self._root)


def unsafe_reached_only_through_a_callable_object(module: str, other: str) -> bool:
    return module.startswith(other)


def _caller_of_callable_objects(nodes: list[Node], root: Node) -> list[str]:
    return list(filter(_RawPrefixMatcher(root), nodes))


def safe_index_in_try_not_found_replaced_by_length(module: Node) -> str:
    try:
        end = module.index(".")
    except ValueError:
        end = len(module)
    return module[:end]


def safe_find_result_copied_when_found(module: Node) -> str:
    position = module.find(".")
    end = position if position != -1 else len(module)
    return module[:end]


def safe_find_result_copied_under_guard(module: Node) -> str:
    end = len(module)
    position = module.find(".")
    if position >= 0:
        end = position
    return module[:end]


def unsafe_find_result_copied_unguarded(module: Node) -> str:
    end = len(module)
    position = module.find(".")
    if position != 0:
        end = position
    return module[:end]


def unsafe_find_conditional_expression_wrong_way_round(module: Node) -> str:
    position = module.find(".")
    end = position if position == -1 else len(module)
    return module[:end]


def safe_walrus_find_not_found_replaced(module: Node) -> str:
    if (end := module.find(".")) < 0:
        end = len(module)
    return module[:end]


def safe_find_after_separator_test(module: Node) -> str:
    if "." not in module:
        return module
    end = module.find(".")
    return module[:end]


def safe_find_replaced_when_no_separator(module: Node) -> str:
    end = module.find(".")
    if "." not in module:
        end = len(module)
    return module[:end]


def unsafe_find_after_inverted_separator_test(module: Node) -> str:
    end = len(module)
    if "." not in module:
        end = module.find(".")
    return module[:end]


def unsafe_position_of_another_name_after_reassignment(module: Node, other: Node) -> str:
    name = module
    end = name.find(".")
    if end < 0:
        end = len(name)
    name = other
    return name[:end]


# ----------------------------------------------------------------------------- the characters of a name kept in a list


def safe_character_list_cut_at_separators(module: Node) -> list[str]:
    chars = list(module)
    return ["".join(chars[:dot_position]) for dot_position, char in enumerate(chars) if char == "."]


def safe_character_tuple_cut_at_separator_positions(module: Node) -> list[str]:
    chars = tuple(module)
    parents = []
    for position in range(len(chars)):
        if chars[position] == ".":
            parents.append("".join(chars[:position]))
    return parents


def safe_character_list_positions_of_the_name_itself(module: Node) -> list[str]:
    chars = [*module]
    return ["".join(chars[:position]) for position, char in enumerate(module) if char == "."]


def unsafe_character_list_cut_everywhere(module: Node) -> list[str]:
    chars = list(module)
    return ["".join(chars[:position]) for position, char in enumerate(chars) if position]


def unsafe_character_list_cut_at_underscores_too(module: Node) -> list[str]:
    chars = list(module)
    return ["".join(chars[:position]) for position, char in enumerate(chars) if char in "._"]


# ----------------------------------------------------------------------------- F-NAME.ORDER: plain string order is no pre-order of the tree


class _SortedNames:
    def __init__(self, listed: list[Node]) -> None:
        self._sorted_names = sorted(listed)
        self._by_components = sorted(listed, key=lambda name: name.split("."))

    def safe_full_walk_back_from_the_insertion_point(self, module: Node) -> list[str]:
        from bisect import bisect

        parents = []
        idx = bisect(self._sorted_names, module) - 1
        while idx >= 0:
            candidate = self._sorted_names[idx]
            if module.startswith(f"{candidate}."):
                parents.append(candidate)
            idx -= 1
        return parents

    def safe_walk_back_stops_at_the_closest_parent(self, module: Node) -> "str | None":
        from bisect import bisect

        idx = bisect(self._sorted_names, module) - 1
        while idx >= 0:
            candidate = self._sorted_names[idx]
            if module.startswith(f"{candidate}."):
                return candidate
            idx -= 1
        return None

    def unsafe_walk_back_stops_at_the_first_unrelated_name(self, module: Node) -> list[str]:
        from bisect import bisect

        parents = []
        idx = bisect(self._sorted_names, module) - 1
        while idx >= 0:
            candidate = self._sorted_names[idx]
            if not module.startswith(f"{candidate}."):
                break
            parents.append(candidate)
            idx -= 1
        return parents

    def unsafe_walk_back_jumps_over_other_branches(self, module: Node) -> list[str]:
        from bisect import bisect

        parents = []
        idx = bisect(self._sorted_names, module) - 1
        while idx >= 0:
            candidate = self._sorted_names[idx]
            if module.startswith(f"{candidate}."):
                parents.append(candidate)
                idx -= 1
                continue
            shared = _helper_shared_parent(candidate, module)
            if shared is None:
                break
            idx = bisect(self._sorted_names, shared) - 1
        return parents

    def unsafe_forward_scan_of_sub_modules_stops_early(self, module: Node) -> list[str]:
        from bisect import bisect

        below = []
        for candidate in self._sorted_names[bisect(self._sorted_names, module) :]:
            if not candidate.startswith(module + "."):
                return below
            below.append(candidate)
        return below


def _helper_shared_parent(first: Node, second: Node) -> "str | None":
    shared = []
    for a, b in zip(first.split("."), second.split(".")):
        if a != b:
            break
        shared.append(a)
    return ".".join(shared) if shared else None


def unsafe_stack_of_enclosing_names_popped_by_level(nodes: list[Node], aliases: dict[Node, str]) -> dict[str, str]:
    labels = {}
    enclosing: list[str] = []
    for name in sorted(nodes):
        level = name.count(".")
        while enclosing and enclosing[-1].count(".") >= level:
            enclosing.pop()
        if name in aliases:
            enclosing.append(name)
        labels[name] = aliases[enclosing[-1]] if enclosing else name
    return labels


def unsafe_stack_of_enclosing_names_popped_when_unrelated(nodes: list[Node], aliases: dict[Node, str]) -> dict[str, str]:
    labels = {}
    enclosing: list[str] = []
    for name in sorted(nodes):
        while enclosing and not (name == enclosing[-1] or name.startswith(enclosing[-1] + ".")):
            enclosing.pop()
        if name in aliases:
            enclosing.append(name)
        labels[name] = aliases[enclosing[-1]] if enclosing else name
    return labels


def safe_stack_of_enclosing_names_in_component_order(nodes: list[Node], aliases: dict[Node, str]) -> dict[str, str]:
    labels = {}
    enclosing: list[str] = []
    for name in sorted(nodes, key=lambda n: n.split(".")):
        while enclosing and not (name == enclosing[-1] or name.startswith(enclosing[-1] + ".")):
            enclosing.pop()
        if name in aliases:
            enclosing.append(name)
        labels[name] = aliases[enclosing[-1]] if enclosing else name
    return labels


def safe_sorted_names_pruned_below_the_last_kept(nodes: list[Node]) -> list[str]:
    kept: list[str] = []
    for name in sorted(nodes):
        if kept and name.startswith(f"{kept[-1]}."):
            continue
        kept.append(name)
    return kept


# ----------------------------------------------------------------------------- names related by graph edges only


class _GraphOfNames:
    def __init__(self, graph) -> None:
        self._graph = graph

    def _helper_below(self, module: Node) -> list[Node]:
        found, todo = [], [module]
        while todo:
            node = todo.pop()
            found.append(node)
            todo.extend(self._graph.successors(node))
        return found

    def unsafe_cut_below_graph_edges(self, module: Node, alias: str) -> list[str]:
        return [alias + name[len(module) :] for name in self._helper_below(module)]

    def safe_cut_below_graph_edges_after_a_test_of_the_names(self, module: Node, alias: str) -> list[str]:
        return [alias + name[len(module) :] for name in self._helper_below(module) if name == module or name.startswith(module + ".")]


# ----------------------------------------------------------------------------- a memo of boundary indices shared between calls


def _helper_length_of_closest_listed_with_memo(name: Node, listed: frozenset, known: dict) -> "int | None":
    pending = []
    length: "int | None" = len(name)
    while length is not None:
        prefix = name[:length]
        if prefix in known:
            length = known[prefix]
            break
        pending.append(prefix)
        if prefix in listed:
            break
        position = name.rfind(".", 0, length)
        length = None if position == -1 else position
    for prefix in pending:
        known[prefix] = length
    return length


def safe_cut_at_memoised_boundary(nodes: list[Node], aliases: dict[Node, str]) -> dict[str, str]:
    known: dict = {}
    labels = {}
    for module in nodes:
        length = _helper_length_of_closest_listed_with_memo(module, frozenset(aliases), known)
        labels[module] = module if length is None else aliases[module[:length]] + module[length:]
    return labels


def _helper_length_with_memo_of_anything(name: Node, listed: frozenset, known: dict) -> "int | None":
    length: "int | None" = len(name)
    while length is not None:
        prefix = name[:length]
        if prefix in known:
            return known[prefix]
        if prefix in listed:
            break
        position = name.rfind(".", 0, length)
        length = None if position == -1 else position
    known[name] = len(listed)
    return length


def notsafe_cut_at_memoised_number(nodes: list[Node], aliases: dict[Node, str]) -> dict[str, str]:
    known: dict = {}
    labels = {}
    for module in nodes:
        length = _helper_length_with_memo_of_anything(module, frozenset(aliases), known)
        labels[module] = module if length is None else aliases[module[:length]] + module[length:]
    return labels


def _helper_sorts_and_links(nodes: list[Node]) -> dict:
    return unsafe_open_parents_popped_in_a_list_sorted_by_the_caller(sorted(nodes))


def unsafe_open_parents_popped_in_a_list_sorted_by_the_caller(sorted_names: list[Node]) -> dict:
    closest: dict = {}
    open_parents: list[str] = []
    for name in sorted_names:
        while open_parents and not name.startswith(f"{open_parents[-1]}."):
            open_parents.pop()
        closest[name] = open_parents[-1] if open_parents else None
        open_parents.append(name)
    return closest


# ----------------------------------------------------------------------------- elements a helper selected for the other name


def _helper_below_by_whole_components(module: Node, listed: list[Node]) -> list[Node]:
    return [name for name in listed if name == module or name.startswith(f"{module}.")]


def safe_cut_of_elements_selected_by_helper(module: Node, listed: list[Node], alias: str) -> dict[str, str]:
    labels = {}
    for name in _helper_below_by_whole_components(module, listed):
        labels[name] = alias + name[len(module) :]
    return labels


def _helper_below_by_raw_prefix(module: Node, listed: list[Node]) -> list[Node]:
    return [name for name in listed if name.startswith(module)]


def notsafe_cut_of_elements_selected_by_raw_helper(module: Node, listed: list[Node], alias: str) -> dict[str, str]:
    labels = {}
    for name in _helper_below_by_raw_prefix(module, listed):
        labels[name] = alias + name[len(module) :]
    return labels


def _helper_containing_by_whole_components(module: Node, candidates: list[Node]):
    for candidate in candidates:
        if module == candidate or module.startswith(f"{candidate}."):
            yield candidate


def safe_cut_at_prefix_yielded_by_filtering_generator(module: Node, candidates: list[Node], aliases: dict[str, str]) -> str:
    for aliased in _helper_containing_by_whole_components(module, candidates):
        remainder = module[len(aliased) :]
        return aliases[aliased] + remainder
    return module


def _helper_containing_by_raw_prefix(module: Node, candidates: list[Node]):
    for candidate in candidates:
        if module.startswith(candidate):
            yield candidate


def notsafe_cut_at_prefix_yielded_by_raw_generator(module: Node, candidates: list[Node], aliases: dict[str, str]) -> str:
    for aliased in _helper_containing_by_raw_prefix(module, candidates):
        remainder = module[len(aliased) :]
        return aliases[aliased] + remainder
    return module


def _helper_yields_every_candidate(module: Node, candidates: list[Node]):
    for candidate in candidates:
        if module == candidate or module.startswith(f"{candidate}."):
            yield candidate
        yield candidate


def notsafe_cut_at_prefix_yielded_unconditionally(module: Node, candidates: list[Node], aliases: dict[str, str]) -> str:
    for aliased in _helper_yields_every_candidate(module, candidates):
        return aliases[aliased] + module[len(aliased) :]
    return module
