"""Positive fixture for the F-NAME lint (never imported by anything): one function per idiom, expected verdict in its name."""

Node = str


def unsafe_raw_prefix(module: Node, other: Node) -> bool:
    return module.startswith(other)


def unsafe_substring(module: Node, other: Node) -> bool:
    return other in module


def unsafe_slice_after_raw_test(module: Node, other: Node) -> str:
    if module.startswith(other):
        return "x" + module[len(other):]
    return module


def unsafe_replace(module: Node, other: Node) -> str:
    return module.replace(other, "alias")


def safe_dotted_prefix(module: Node, other: Node) -> bool:
    return module == other or module.startswith(other + ".")


def safe_fstring_prefix(module: Node, other: Node) -> bool:
    prefix = f"{other}."
    return module.startswith(prefix)


def safe_slice_after_boundary_test(module: Node, other: Node) -> str:
    if module == other or module.startswith(f"{other}."):
        return "x" + module[len(other):]
    return module


def safe_slice_after_helper(module: Node, other: Node) -> str:
    if _safe_is_part_of(module, other):
        return "x" + module[len(other):]
    return module


def _safe_is_part_of(module: Node, other: Node) -> bool:
    if module == other:
        return True
    return module.startswith(other + ".")


def safe_remainder_predicate(module: Node, other: Node) -> bool:
    if not module.startswith(other):
        return False
    rest = module[len(other):]
    return rest == "" or rest[0] == "."


def safe_components(module: Node, other: Node) -> bool:
    parts = other.split(".")
    return module.split(".")[: len(parts)] == parts
