"""Positive fixture for C13.R3/R4 (never imported): one assert statement, three offending handlers, one harmless handler."""


def check(graph, node):
    assert node is not None
    try:
        return sorted(graph.successors(node))
    except KeyError:
        return []


def swallow(fn):
    try:
        return fn()
    except Exception:
        return None


def verdict_to_pass(rule, evaluable):
    try:
        rule.assert_applies(evaluable)
    except AssertionError:
        pass


def harmless(values, x):
    try:
        values.remove(x)
    except KeyError:
        pass
