"""Positive fixture for C15.R4 (never imported by anything): state shared between instances / calls."""

_SEEN = {}


def remember(key, value):
    _SEEN[key] = value
    return value


class Cache:
    _entries = {}
    _names = []

    def __init__(self):
        self._own = {}

    def lookup(self, key):
        if key not in self._entries:
            self._entries[key] = len(key)
        self._own[key] = 1
        return self._entries[key]

    @classmethod
    def via_cls(cls, name):
        cls._names.append(name)
