"""Positive fixture for C13.R4 (never imported): `with` blocks whose context manager swallows exceptions.
Three offending blocks (swallow_all, suppress_everything, verdict_dropped), two harmless ones (timer, tolerant_remove)."""

from contextlib import suppress


class SwallowAll:
    def __enter__(self):
        return self

    def __exit__(self, exc_type, exc, tb):
        return True


class Timer:
    def __enter__(self):
        return self

    def __exit__(self, exc_type, exc, tb):
        self.done = True
        return False


def helper(rule, evaluable):
    rule.assert_applies(evaluable)


def swallow_all(rule, evaluable):
    with SwallowAll():
        helper(rule, evaluable)


def suppress_everything(rule, evaluable):
    with suppress(Exception):
        helper(rule, evaluable)


def verdict_dropped(rule, evaluable):
    with suppress(AssertionError):
        helper(rule, evaluable)


def timer(rule, evaluable):
    with Timer():
        helper(rule, evaluable)


def tolerant_remove(values, x):
    with suppress(KeyError):
        values.remove(x)
