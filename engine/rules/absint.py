"""Abstract interpreter for the rule-dispatch pipeline (used by rules/tables.py, C01 and C12).

The dispatch of a module rule (fluent configuration -> requirement objects -> graph questions -> violation buckets -> verdict)
is decided by a handful of *boolean configuration flags*; everything else (module lists, the evaluable, query results) is data
the dispatch never looks into.  The interpreter therefore evaluates the code of the pipeline over a product domain:

  * booleans of the configuration are **concrete** (one run per point of the finite configuration space),
  * data is **symbolic**: `Sym(term)` values whose term records how the value was derived (root, attribute, call result,
    key / value / element of the i-th symbolic iteration over a query result, ...),
  * objects of repo classes are built by interpreting their own constructors (`Inst`), so *field names, helper names, local
    names, statement order, early returns, helper extraction, callable parameters, comprehensions vs loops* do not matter,
  * collections record *add events*: `Coll.entries = [(element value, guard formula)]`, the guard being the path condition of the
    event over the remaining symbolic atoms (emptiness of the value paired with a key, string tests on identifiers, ...).

Nothing of the repository is imported or executed: this module walks the `ast` of functions the loader parsed, with its own
evaluation rules.  It is *total on expressions*: what it does not model becomes an opaque symbolic value (and an atom if used as a
condition); statements it cannot model (`while`, `try`, ...) are walked once and leave a `?`-tainted atom on the path, so that a
rule that trips over such an atom reports *undecided* instead of a verdict.
"""

from __future__ import annotations

import ast
from dataclasses import dataclass, field
from typing import Callable

from core.guards import FALSE, TRUE, Formula, atom, atoms_of, evaluate, f_and, f_not, f_or
from core.loader import ClassInfo, FuncInfo, Repo

MAX_DEPTH = 24
MAX_ENTRIES = 64


# --------------------------------------------------------------------------- values


class Val:
    pass


@dataclass(frozen=True)
class Const(Val):
    value: object


@dataclass(frozen=True)
class Sym(Val):
    term: tuple
    cls: str | None = None  # fq name of the repo class of the value when known; "dict" for query results


@dataclass
class BoolF(Val):
    f: Formula


@dataclass
class Tup(Val):
    items: tuple


@dataclass(eq=False)
class Inst(Val):
    cls: ClassInfo
    fields: dict = field(default_factory=dict)
    serial: int = 0
    written_at: dict = field(default_factory=dict)  # field -> "init" | "late": phase of the last store
    entry_reads: set = field(default_factory=set)  # fields read after construction while still holding their constructor-time value
    late_writes: dict = field(default_factory=dict)  # field -> [(value, fi, node)] stored after construction
    made_at: tuple | None = None  # (fi, node) of the constructor call
    constructing: bool = False
    born: tuple | None = None  # the path conditions under which the object was created (they hold whenever it exists)


@dataclass(eq=False)
class Coll(Val):
    kind: str = "list"
    entries: list = field(default_factory=list)  # [(Val, Formula)]
    serial: int = 0


@dataclass(eq=False)
class DictV(Val):
    entries: list = field(default_factory=list)  # [(key Val, value Val, Formula)]
    serial: int = 0


@dataclass(eq=False)
class Fn(Val):
    fi: FuncInfo
    selfv: Val | None = None
    closure: "Frame | None" = None


@dataclass(eq=False)
class ClsV(Val):
    ci: ClassInfo


@dataclass(eq=False)
class SuperV(Val):
    ci: ClassInfo  # class whose MRO is searched *after* this class
    selfv: Val | None = None


@dataclass(eq=False)
class Bound(Val):
    """Builtin method of a modelled container / value: `xs.append`, `d.items`."""

    recv: Val
    name: str


@dataclass(eq=False)
class Partial(Val):
    fn: Val
    args: list
    kwargs: dict


@dataclass(eq=False)
class Getter(Val):
    """operator.itemgetter(..) / attrgetter(..) / methodcaller(..): a callable that projects its argument."""

    kind: str  # item | attr | method
    keys: list  # item: [Val]; attr: [dotted names]; method: [name]
    args: list = field(default_factory=list)
    kwargs: dict = field(default_factory=dict)


@dataclass(eq=False)
class Alt(Val):
    options: list  # [(Formula, Val)]


@dataclass
class Event:
    kind: str  # call | raise | new
    name: str
    recv: Val | None
    args: list
    kwargs: dict
    guard: Formula
    node: ast.AST | None
    fi: FuncInfo | None
    result: Val | None = None
    callee: FuncInfo | None = None


class Frame:
    def __init__(self, fi: FuncInfo, env: dict, selfv: Val | None, closure: "Frame | None", base: int) -> None:
        self.fi = fi
        self.env = env
        self.selfv = selfv
        self.closure = closure
        self.base = base
        self.returns: list = []
        self.raised: list = []  # conditions (relative to the frame's entry) under which an exception leaves the frame


def is_namedtuple(repo: Repo, ci: ClassInfo) -> bool:
    """class X(NamedTuple) (or a class made by the functional forms, see Interp.lib_call)."""
    for c in repo.mro(ci):
        if any(str(b).split(".")[-1] in ("NamedTuple", "namedtuple") for b in c.bases):
            return True
    return False


def is_enum(repo: Repo, ci: ClassInfo) -> bool:
    for c in repo.mro(ci):
        if any(str(b).split(".")[-1] in ("Enum", "IntEnum", "StrEnum", "Flag", "IntFlag") for b in c.bases):
            return True
    return False


def enum_members(repo: Repo, ci: ClassInfo) -> list[str]:
    return [n for c in reversed(repo.mro(ci)) for n in c.class_attrs if not n.startswith("_")]


def is_prop(m: FuncInfo) -> bool:
    return m.is_property or any(d.split(".")[-1] in ("cached_property", "lazy_property") for d in m.decorators)


def term_of(v: Val) -> tuple:
    if isinstance(v, Sym):
        return v.term
    if isinstance(v, Const):
        if isinstance(v.value, tuple) and v.value[:1] == ("enum",):
            return ("const", f"{str(v.value[1]).split('.')[-1]}.{v.value[2]}")
        return ("const", repr(v.value))
    if isinstance(v, Tup):
        return ("tuple", *[term_of(x) for x in v.items])
    if isinstance(v, Inst):
        return ("inst", v.cls.name, v.serial)
    if isinstance(v, Coll):
        return ("coll", *[term_of(e) for e, _g in v.entries[:8]])
    if isinstance(v, DictV):
        return ("dict", *[("kv", term_of(k), term_of(x)) for k, x, _g in v.entries[:8]])
    if isinstance(v, Alt):
        return ("alt", *[term_of(o) for _g, o in v.options])
    if isinstance(v, BoolF):
        return ("bool", show_f(v.f))
    if isinstance(v, Fn):
        return ("fn", v.fi.fq)
    if isinstance(v, ClsV):
        return ("cls", v.ci.fq)
    if isinstance(v, Bound):
        return ("bound", term_of(v.recv), v.name)
    if isinstance(v, Partial):
        return ("partial", term_of(v.fn), *[term_of(a) for a in v.args])
    if isinstance(v, Getter):
        return ("getter", v.kind, *[term_of(k) if isinstance(k, Val) else ("const", repr(k)) for k in v.keys])
    return ("?",)


def show_f(f: Formula) -> str:
    from core.guards import show

    return show(f)


def show_term(t) -> str:
    if not isinstance(t, tuple) or not t:
        return str(t)
    h = t[0]
    if h == "root":
        return str(t[1])
    if h == "attr":
        return f"{show_term(t[1])}.{t[2]}"
    if h == "const":
        return str(t[1])
    if h in ("key", "val", "elem"):
        return f"{h}{t[-1]}({show_term(t[1])})"
    if h == "index":
        return f"{show_term(t[1])}[{show_term(t[2])}]"
    if h == "call":
        return f"{t[1]}({', '.join(show_term(x) for x in t[2:])})"
    return f"{h}({', '.join(show_term(x) for x in t[1:])})"


def roots_of(t, acc: set | None = None) -> set:
    """Names of the root symbols a term (or value) is derived from."""
    acc = set() if acc is None else acc
    if isinstance(t, Val):
        if isinstance(t, Coll):
            for e, _g in t.entries:
                roots_of(e, acc)
            return acc
        if isinstance(t, Alt):
            for _g, o in t.options:
                roots_of(o, acc)
            return acc
        if isinstance(t, Inst):
            return acc
        t = term_of(t)
    if isinstance(t, tuple):
        if len(t) == 2 and t[0] == "root":
            acc.add(t[1])
        else:
            for x in t:
                roots_of(x, acc)
    return acc


def subterms(t):
    if isinstance(t, tuple):
        yield t
        for x in t:
            yield from subterms(x)


# --------------------------------------------------------------------------- interpreter


class Interp:
    def __init__(self, repo: Repo, descend: Callable[[FuncInfo], bool], assume: dict[str, bool] | None = None) -> None:
        self.repo = repo
        self.descend = descend
        self.assume = dict(assume or {})
        self.path: list[Formula] = []
        self.events: list[Event] = []
        self.instances: list[Inst] = []
        self.atom_info: dict[str, dict] = {}  # atom text -> {kind, node, fi, ...}
        self.notes: list[str] = []  # constructs walked without a model (diagnostics)
        self.stack: list[FuncInfo] = []
        self.epoch = 0
        self._serial = 0
        self._iter = 0
        self.frames_of: dict[str, list] = {}  # fq -> [(args, result)] of every interpreted call (diagnostics / rules)
        self.pending: list = []  # exception conditions raised by callees during the statement being executed
        self.try_nodes: list = []

    # ------------------------------------------------------------------ small helpers
    def serial(self) -> int:
        self._serial += 1
        return self._serial

    def fresh_iter(self) -> int:
        self._iter += 1
        return self._iter

    def guard(self) -> Formula:
        return f_and(list(self.path))

    def mk_atom(self, text: str, **info) -> Formula:
        if text in self.assume:
            return TRUE if self.assume[text] else FALSE
        self.atom_info.setdefault(text, info)
        return atom(text)

    def simp(self, f: Formula) -> Formula:
        """TRUE / FALSE for tautologies / contradictions over few atoms; otherwise the formula itself."""
        if f[0] in ("const", "atom"):
            return f
        names = sorted(atoms_of(f))
        if len(names) > 8:
            return f
        import itertools

        seen_t = seen_f = False
        for vals in itertools.product([False, True], repeat=len(names)):
            if evaluate(f, dict(zip(names, vals))):
                seen_t = True
            else:
                seen_f = True
            if seen_t and seen_f:
                return f
        return TRUE if seen_t else FALSE

    def note(self, what: str) -> None:
        if what not in self.notes:
            self.notes.append(what)

    def taint(self, what: str, node: ast.AST | None) -> Formula:
        self.note(what)
        return self.mk_atom(f"?{what}@{getattr(node, 'lineno', 0)}", kind="unmodelled", node=node)

    # ------------------------------------------------------------------ truthiness
    def truth(self, v: Val) -> Formula:
        if isinstance(v, Const):
            return TRUE if v.value else FALSE
        if isinstance(v, BoolF):
            return v.f
        if isinstance(v, Alt):
            return f_or([f_and([g, self.truth(o)]) for g, o in v.options])
        if isinstance(v, Tup):
            return TRUE if v.items else FALSE
        if isinstance(v, (Fn, ClsV, Bound, SuperV, Partial, Getter)):
            return TRUE
        if isinstance(v, Inst):
            if self.repo.lookup_method(v.cls, "__bool__") is not None or self.repo.lookup_method(v.cls, "__len__") is not None:
                return self.mk_atom(f"truthy({v.cls.name}#{v.serial})", kind="truthy", inst=v)
            return TRUE
        if isinstance(v, Coll):
            if not v.entries:
                return FALSE
            if all(g == TRUE for _x, g in v.entries) and not any(isinstance(x, Sym) and any(isinstance(st, tuple) and st and st[0] in ("elem", "key", "val") for st in subterms(x.term)) for x, _g in v.entries):
                return TRUE  # holds elements that were put there unconditionally and not by a symbolic iteration
            if not any(any(isinstance(st, tuple) and st and st[0] in ("elem", "key", "val") for st in subterms(term_of(x))) for x, _g in v.entries) and f"removed(coll#{v.serial})" not in self.atom_info:
                return f_or([g for _x, g in v.entries])  # each element is there exactly when its own condition holds
            a = self.mk_atom(f"nonempty(coll#{v.serial})", kind="nonempty", coll=v)
            if a[0] == "atom":
                self.atom_info[a[1]]["witnesses"] = [g for _x, g in v.entries]
            return a
        if isinstance(v, DictV):
            if not v.entries:
                return FALSE
            return self.mk_atom(f"nonempty(dict#{v.serial})", kind="nonempty", coll=v)
        if isinstance(v, Sym):
            t = v.term
            if t[0] == "val":
                return self.mk_atom(f"val@{t[-1]}", kind="val", base=t[1], iter=t[-1])
            if t[0] == "key" or (t[0] == "elem" and isinstance(t[1], tuple) and t[1] and t[1][0] == "val"):
                return TRUE  # keys and realisations of a query result are (tuples of) module objects
            if t[0] in ("strtest",):
                return self.mk_atom(show_term(t), kind="strtest", term=t)
            return self.mk_atom(f"bool({show_term(t)})", kind="bool", term=t)
        return self.mk_atom(f"bool({v!r})", kind="bool")

    def is_none(self, v: Val) -> Formula:
        if isinstance(v, Const):
            return TRUE if v.value is None else FALSE
        if isinstance(v, Alt):
            return f_or([f_and([g, self.is_none(o)]) for g, o in v.options])
        if isinstance(v, Sym):
            t = v.term
            if t[0] in ("root", "call", "key", "val", "elem", "copy", "new", "items", "values", "keys"):
                return FALSE
            return self.mk_atom(f"{show_term(t)} is None", kind="isnone", term=t)
        return FALSE

    def truth_expr(self, e: ast.expr, fr: Frame) -> Formula:
        if isinstance(e, ast.BoolOp):
            parts = []
            pushed = 0
            # short-circuit: later operands are evaluated under the earlier ones
            for v in e.values:
                f = self.truth_expr(v, fr)
                parts.append(f)
                cond = f if isinstance(e.op, ast.And) else f_not(f)
                if cond == FALSE:
                    break
                self.path.append(cond)
                pushed += 1
            del self.path[len(self.path) - pushed:]
            return f_and(parts) if isinstance(e.op, ast.And) else f_or(parts)
        if isinstance(e, ast.UnaryOp) and isinstance(e.op, ast.Not):
            return f_not(self.truth_expr(e.operand, fr))
        if isinstance(e, ast.IfExp):
            c = self.truth_expr(e.test, fr)
            if c == TRUE:
                return self.truth_expr(e.body, fr)
            if c == FALSE:
                return self.truth_expr(e.orelse, fr)
            return f_or([f_and([c, self.truth_expr(e.body, fr)]), f_and([f_not(c), self.truth_expr(e.orelse, fr)])])
        if isinstance(e, ast.Compare):
            parts = []
            left = e.left
            for op, right in zip(e.ops, e.comparators):
                parts.append(self._compare(left, op, right, fr, e))
                left = right
            return f_and(parts)
        if isinstance(e, ast.Call) and isinstance(e.func, ast.Name) and self._is_builtin(e.func.id, fr):
            n = e.func.id
            if n in ("bool", "len") and len(e.args) == 1:
                return self.truth_expr(e.args[0], fr)
            if n in ("any", "all") and len(e.args) == 1:
                v = self.eval(e.args[0], fr)
                ents = self.iterate(v)
                if ents is None:
                    return self.truth(Sym(("call", n, term_of(v))))
                if n == "any":
                    return f_or([f_and([g, self.truth(x)]) for x, g in ents])
                return f_and([f_or([f_not(g), self.truth(x)]) for x, g in ents])
            if n == "isinstance" and len(e.args) == 2:
                return self._isinstance(self.eval(e.args[0], fr), e.args[1], fr, e)
        return self.truth(self.eval(e, fr))

    def _isinstance(self, v: Val, texpr: ast.expr, fr: Frame, node: ast.AST) -> Formula:
        names = [x for x in (texpr.elts if isinstance(texpr, ast.Tuple) else [texpr])]
        tn = {ast.unparse(x) for x in names}
        if isinstance(v, (Coll,)):
            return TRUE if tn & {"list", "set", "Sequence", "Iterable", "frozenset", "Collection"} else FALSE
        if isinstance(v, Tup):
            return TRUE if tn & {"tuple", "Sequence", "Iterable"} else FALSE
        if isinstance(v, Const):
            py = type(v.value).__name__
            return TRUE if py in tn else FALSE
        if isinstance(v, Inst):
            for x in names:
                fq = self.repo.resolve_name(fr.fi.module, x) if isinstance(x, (ast.Name, ast.Attribute)) else None
                if fq and any(c.fq == fq for c in self.repo.mro(v.cls)):
                    return TRUE
            return FALSE
        if isinstance(v, Sym) and v.cls in ("list",) and tn == {"str"}:
            return FALSE
        return self.mk_atom(f"isinstance({show_term(term_of(v))}, {'|'.join(sorted(tn))})", kind="isinstance", node=node, fi=fr.fi)

    def _compare(self, left: ast.expr, op: ast.cmpop, right: ast.expr, fr: Frame, node: ast.AST) -> Formula:
        # len(x) <op> const  ->  emptiness of x
        for a, b, flip in ((left, right, False), (right, left, True)):
            if isinstance(a, ast.Call) and isinstance(a.func, ast.Name) and a.func.id == "len" and len(a.args) == 1 and isinstance(b, ast.Constant) and isinstance(b.value, int) and not isinstance(b.value, bool):
                t = self.truth(self.eval(a.args[0], fr))
                c = b.value
                o = type(op)
                if flip:
                    o = {ast.Gt: ast.Lt, ast.Lt: ast.Gt, ast.GtE: ast.LtE, ast.LtE: ast.GtE}.get(o, o)
                if (o is ast.Gt and c == 0) or (o is ast.GtE and c == 1) or (o is ast.NotEq and c == 0):
                    return t
                if (o is ast.Eq and c == 0) or (o is ast.Lt and c == 1) or (o is ast.LtE and c == 0):
                    return f_not(t)
        lv, rv = self.eval(left, fr), self.eval(right, fr)
        if isinstance(op, (ast.Is, ast.IsNot)):
            if isinstance(rv, Const) and rv.value is None:
                f = self.is_none(lv)
            elif isinstance(lv, Const) and lv.value is None:
                f = self.is_none(rv)
            elif isinstance(lv, Const) and isinstance(rv, Const):
                f = TRUE if (lv.value is rv.value or (type(lv.value) is type(rv.value) and isinstance(lv.value, (tuple, str, bool, int)) and lv.value == rv.value)) else FALSE
            elif lv is rv:
                f = TRUE
            else:
                f = self.mk_atom(f"{show_term(term_of(lv))} is {show_term(term_of(rv))}", kind="is", node=node, fi=fr.fi)
            return f if isinstance(op, ast.Is) else f_not(f)
        if isinstance(op, (ast.Eq, ast.NotEq)):
            f = self._equal(lv, rv, node, fr)
            return f if isinstance(op, ast.Eq) else f_not(f)
        if isinstance(op, (ast.In, ast.NotIn)):
            f = self._contains(rv, lv, node, fr)
            return f if isinstance(op, ast.In) else f_not(f)
        if isinstance(lv, Const) and isinstance(rv, Const):
            try:
                r = {ast.Lt: lv.value < rv.value, ast.LtE: lv.value <= rv.value, ast.Gt: lv.value > rv.value, ast.GtE: lv.value >= rv.value}[type(op)]  # type: ignore[operator]
                return TRUE if r else FALSE
            except Exception:  # noqa: BLE001
                pass
        return self.mk_atom(f"{show_term(term_of(lv))} {type(op).__name__} {show_term(term_of(rv))}", kind="compare", node=node, fi=fr.fi)

    def _equal(self, lv: Val, rv: Val, node: ast.AST, fr: Frame) -> Formula:
        if isinstance(lv, Alt):
            return f_or([f_and([g, self._equal(o, rv, node, fr)]) for g, o in lv.options])
        if isinstance(rv, Alt):
            return f_or([f_and([g, self._equal(lv, o, node, fr)]) for g, o in rv.options])
        if isinstance(lv, Const) and isinstance(rv, Const):
            return TRUE if lv.value == rv.value else FALSE
        if isinstance(lv, BoolF) and isinstance(rv, Const) and isinstance(rv.value, bool):
            return lv.f if rv.value else f_not(lv.f)
        if isinstance(rv, BoolF) and isinstance(lv, Const) and isinstance(lv.value, bool):
            return rv.f if lv.value else f_not(rv.f)
        for a, b in ((lv, rv), (rv, lv)):
            empty_lit = (isinstance(b, (Coll, DictV)) and not b.entries and getattr(b, "literal", False)) or (isinstance(b, Tup) and not b.items)
            if empty_lit and isinstance(a, (Sym, Coll, DictV)) and not (isinstance(a, (Coll, DictV)) and getattr(a, "literal", False) and not a.entries):
                return f_not(self.truth(a))
        if isinstance(lv, Coll) and isinstance(rv, Coll) and not lv.entries and not rv.entries:
            return TRUE
        if isinstance(lv, Coll) and isinstance(rv, Coll) and (not lv.entries or not rv.entries):
            return f_not(self.truth(lv if lv.entries else rv))
        ta, tb = term_of(lv), term_of(rv)
        if ta == tb and not isinstance(lv, (Coll, DictV)):
            return TRUE
        a, b = sorted([show_term(ta), show_term(tb)])
        return self.mk_atom(f"{a} == {b}", kind="eq", node=node, fi=fr.fi, terms=(ta, tb))

    def _contains(self, container: Val, item: Val, node: ast.AST, fr: Frame) -> Formula:
        if isinstance(container, Alt):
            return f_or([f_and([g, self._contains(o, item, node, fr)]) for g, o in container.options])
        ti = term_of(item)
        if isinstance(container, Sym) and isinstance(item, Sym) and item.term[0] == "key":
            base = container.term[1] if container.term[0] in ("keys", "copy") and len(container.term) == 2 else container.term
            if item.term[1] == base:
                return TRUE  # a key obtained by iterating this very mapping
        if isinstance(container, (Coll, DictV)) and not container.entries:
            return FALSE
        if isinstance(container, Coll) and isinstance(item, Const) and all(isinstance(x, Const) for x, _g in container.entries):
            return f_or([g for x, g in container.entries if x.value == item.value and type(x.value) is type(item.value)])
        if isinstance(container, DictV) and isinstance(item, Const) and all(isinstance(k, Const) for k, _x, _g in container.entries):
            return f_or([g for k, _x, g in container.entries if k.value == item.value and type(k.value) is type(item.value)])
        if isinstance(container, Tup) and isinstance(item, Const) and all(isinstance(x, Const) for x in container.items):
            return TRUE if any(x.value == item.value for x in container.items) else FALSE
        if isinstance(container, DictV):
            hits = [g for k, _v, g in container.entries if term_of(k) == ti]
            if hits and all(isinstance(k, Const) for k, _v, _g in container.entries) and isinstance(item, Const):
                return f_or(hits)
        return self.mk_atom(f"{show_term(ti)} in {show_term(term_of(container))}", kind="in", node=node, fi=fr.fi, terms=(ti, term_of(container)))

    # ------------------------------------------------------------------ iteration
    def iterate(self, v: Val) -> list | None:
        """[(element, guard)] of one abstract pass over `v`; None if `v` is not iterable in the model."""
        if isinstance(v, Coll):
            return list(v.entries)
        if isinstance(v, Tup):
            return [(x, TRUE) for x in v.items]
        if isinstance(v, DictV):
            return [(k, g) for k, _x, g in v.entries]
        if isinstance(v, Alt):
            out = []
            for g, o in v.options:
                sub = self.iterate(o)
                if sub is None:
                    return None
                out += [(x, f_and([g, gx])) for x, gx in sub]
            return out
        if isinstance(v, Const):
            if v.value is None:
                return []
            if isinstance(v.value, str):
                return [(Sym(("char", repr(v.value))), TRUE)]
            return None
        if isinstance(v, Sym):
            return [(x, TRUE) for x in self.elems_of(v)]
        if isinstance(v, Inst):
            t = self.as_tuple(v)
            if t is not None:
                return [(x, TRUE) for x in t.items]
            return self.iterate_object(v)
        if isinstance(v, ClsV) and is_enum(self.repo, v.ci):
            return [(Const(("enum", v.ci.fq, n)), TRUE) for n in enum_members(self.repo, v.ci)]
        return None

    def as_tuple(self, v: Val) -> "Tup | None":
        """The fields of a NamedTuple record, in order."""
        if isinstance(v, Inst) and is_namedtuple(self.repo, v.cls):
            names: list[str] = []
            for c in reversed(self.repo.mro(v.cls)):
                for n in c.ann_attrs:
                    if n not in names:
                        names.append(n)
            if all(n in v.fields for n in names):
                return Tup(tuple(v.fields[n] for n in names))
        return None

    def iterate_object(self, v: Inst) -> list | None:
        """`for x in obj` for an object of a repo class with the iterator protocol: the elements `__iter__` yields (a generator
        method), or one abstract `__next__()` when the object is its own iterator."""
        busy = self.__dict__.setdefault("_iter_busy", set())
        it = self.repo.lookup_method(v.cls, "__iter__")
        if it is None or id(v) in busy or not self.descend(it):
            gi = self.repo.lookup_method(v.cls, "__getitem__") if it is None else None
            return None
        busy.add(id(v))
        try:
            res = self.invoke(it, v, [], {}, None, None, None)
            if res is v or (isinstance(res, Inst) and res.cls is v.cls and self.repo.lookup_method(res.cls, "__next__") is not None):
                nx = self.repo.lookup_method(v.cls, "__next__")
                if nx is None or not self.descend(nx):
                    return None
                one = self.invoke(nx, res, [], {}, None, None, None)
                self.pending.clear()  # StopIteration ends the loop: it does not leave the frame
                return [(one, self.taint("iterator-protocol", None))]
            return self.iterate(res)
        finally:
            busy.discard(id(v))

    def elems_of(self, s: Sym) -> list:
        t = s.term
        h = t[0]
        i = self.fresh_iter()
        if h == "items":
            return [Tup((Sym(("key", t[1], i)), Sym(("val", t[1], i))))]
        if h == "values":
            return [Sym(("val", t[1], i))]
        if h == "keys":
            return [Sym(("key", t[1], i))]
        if h == "copy":
            return self.elems_of(Sym(t[1], s.cls))
        if h == "flat":
            out = []
            for inner in self.elems_of(Sym(t[1])):
                sub = self.iterate(inner)
                out += [x for x, _g in (sub or [])]
            return out
        if h == "product":
            lists = [self.elems_of(Sym(x)) for x in t[1:]]
            return [Tup(tuple(l[0] for l in lists))] if all(lists) else []
        if h == "zip":
            lists = [self.elems_of(Sym(x)) for x in t[1:]]
            return [Tup(tuple(l[0] for l in lists))] if all(lists) else []
        if h == "enumerate":
            return [Tup((Sym(("idx", i)), x)) for x in self.elems_of(Sym(t[1]))]
        if s.cls == "dict":
            return [Sym(("key", t, i))]
        return [Sym(("elem", t, i))]

    # ------------------------------------------------------------------ names
    def _is_builtin(self, name: str, fr: Frame) -> bool:
        f: Frame | None = fr
        while f is not None:
            if name in f.env:
                return False
            f = f.closure
        m = fr.fi.module
        return not (name in m.functions or name in m.classes or name in m.imports or name in m.constants)

    def lookup(self, name: str, fr: Frame, node: ast.AST | None = None) -> Val:
        f: Frame | None = fr
        while f is not None:
            if name in f.env:
                return f.env[name]
            f = f.closure
        mod = fr.fi.module
        if name in mod.functions:
            return Fn(mod.functions[name])
        if name in mod.classes:
            return ClsV(mod.classes[name])
        fq = self.repo.resolve_name(mod, ast.Name(id=name, ctx=ast.Load()))
        if fq is not None:
            if fq in self.repo.classes:
                return ClsV(self.repo.classes[fq])
            m2, _, attr = fq.rpartition(".")
            om = self.repo.modules.get(m2)
            if om is not None and attr in om.functions:
                return Fn(om.functions[attr])
            if om is not None and attr in om.constants:
                c = om.constants[attr]
                if isinstance(c, ast.Constant):
                    return Const(c.value)
                return self.module_table(om, attr, fq)
            return Sym(("lib", fq))
        return Sym(("builtin", name))

    def module_table(self, om, attr: str, fq: str) -> Val:
        """Value of a module-level name bound once to a *literal table*: tuples / lists / sets / dicts (also wrapped in `tuple(..)`,
        `frozenset(..)`, ...) of constants, classes, functions, lambdas and other such names.  Code that walks a table of
        (class, predicate) pairs or looks a handler up in a dict is then followed like the unrolled code.  Anything else stays
        an opaque global."""
        c = om.constants[attr]
        busy = self.__dict__.setdefault("_table_busy", set())
        if fq in busy or not _literal_table(c):
            return Sym(("global", fq))
        if sum(1 for st in om.tree.body for t in (st.targets if isinstance(st, ast.Assign) else [st.target] if isinstance(st, (ast.AnnAssign, ast.AugAssign)) else []) if isinstance(t, ast.Name) and t.id == attr) != 1:
            return Sym(("global", fq))  # rebound at module level: not a constant
        busy.add(fq)
        try:
            probe = FuncInfo(name="<module>", qualname="<module>", node=ast.Lambda(args=ast.arguments(posonlyargs=[], args=[], kwonlyargs=[], kw_defaults=[], defaults=[]), body=ast.Constant(value=None)), module=om, cls=None)
            saved, self.path = self.path, []  # module level: evaluated once, under no condition
            try:
                return self.eval(c, Frame(probe, {}, None, None, 0))
            finally:
                self.path = saved
        finally:
            busy.discard(fq)

    def lambda_func(self, e: ast.Lambda, fr: Frame) -> FuncInfo:
        """FuncInfo of a lambda: the loader's (lambdas inside functions) or a synthetic one (module / class level tables)."""
        fi = getattr(e, "_func", None) or getattr(e, "_absint_func", None)
        if fi is None:
            fi = FuncInfo(name="<lambda>", qualname=f"<lambda@{getattr(e, 'lineno', 0)}:{getattr(e, 'col_offset', 0)}>", node=e, module=fr.fi.module, cls=None)
            e._absint_func = fi  # type: ignore[attr-defined]
        return fi

    # ------------------------------------------------------------------ expressions
    def eval(self, e: ast.expr, fr: Frame) -> Val:
        try:
            return self._eval(e, fr)
        except RecursionError:
            raise
        except Exception as ex:  # noqa: BLE001 - the interpreter is total: an internal failure becomes an opaque, tainted value
            self.note(f"eval failed on `{ast.unparse(e)[:60]}`: {type(ex).__name__}: {ex}")
            return Sym(("?", ast.unparse(e)[:60]))

    def _eval(self, e: ast.expr, fr: Frame) -> Val:
        if isinstance(e, ast.Constant):
            return Const(e.value)
        if isinstance(e, ast.Name):
            return self.lookup(e.id, fr, e)
        if isinstance(e, ast.Attribute):
            return self.getattr(self.eval(e.value, fr), e.attr, e, fr)
        if isinstance(e, ast.Call):
            return self.call(e, fr)
        if isinstance(e, (ast.BoolOp, ast.Compare)) or (isinstance(e, ast.UnaryOp) and isinstance(e.op, ast.Not)):
            if isinstance(e, ast.BoolOp):
                # value semantics of `a or b` / `a and b` for non-boolean operands with a decided first operand
                first = self.eval(e.values[0], fr)
                t = self.truth(first)
                if not isinstance(first, (BoolF,)) and not (isinstance(first, Const) and isinstance(first.value, bool)):
                    if isinstance(e.op, ast.Or) and t == TRUE:
                        return first
                    if isinstance(e.op, ast.And) and t == FALSE:
                        return first
                    if len(e.values) == 2 and ((isinstance(e.op, ast.Or) and t == FALSE) or (isinstance(e.op, ast.And) and t == TRUE)):
                        return self.eval(e.values[1], fr)
                    if len(e.values) == 2 and isinstance(first, (Sym, Coll, DictV, Inst, Tup)):
                        cond = f_not(t) if isinstance(e.op, ast.Or) else t
                        self.path.append(cond)
                        second = self.eval(e.values[1], fr)
                        self.path.pop()
                        if not isinstance(second, (BoolF,)) and not (isinstance(second, Const) and isinstance(second.value, bool)):
                            return self.mk_alt([(f_not(cond), first), (cond, second)])
            f = self.truth_expr(e, fr)
            return Const(True) if f == TRUE else Const(False) if f == FALSE else BoolF(f)
        if isinstance(e, ast.IfExp):
            c = self.truth_expr(e.test, fr)
            if c == TRUE:
                return self.eval(e.body, fr)
            if c == FALSE:
                return self.eval(e.orelse, fr)
            self.path.append(c)
            a = self.eval(e.body, fr)
            self.path[-1] = f_not(c)
            b = self.eval(e.orelse, fr)
            self.path.pop()
            return self.mk_alt([(c, a), (f_not(c), b)])
        if isinstance(e, ast.Tuple):
            items = []
            for x in e.elts:
                if isinstance(x, ast.Starred):
                    sub = self.iterate(self.eval(x.value, fr))
                    items += [y for y, _g in (sub or [])]
                else:
                    items.append(self.eval(x, fr))
            return Tup(tuple(items))
        if isinstance(e, (ast.List, ast.Set)):
            c = Coll("list" if isinstance(e, ast.List) else "set", [], self.serial())
            c.literal = not e.elts  # type: ignore[attr-defined]
            for x in e.elts:
                if isinstance(x, ast.Starred):
                    sub = self.iterate(self.eval(x.value, fr))
                    c.entries += [(y, g) for y, g in (sub or [])]
                else:
                    c.entries.append((self.eval(x, fr), TRUE))
            return c
        if isinstance(e, ast.Dict):
            d = DictV([], self.serial())
            d.literal = not e.keys  # type: ignore[attr-defined]
            for k, v in zip(e.keys, e.values):
                if k is None:
                    src = self.eval(v, fr)
                    if isinstance(src, DictV):
                        d.entries += list(src.entries)
                    continue
                d.entries.append((self.eval(k, fr), self.eval(v, fr), TRUE))
            return d
        if isinstance(e, (ast.ListComp, ast.SetComp, ast.GeneratorExp, ast.DictComp)):
            return self.comprehension(e, fr)
        if isinstance(e, ast.Subscript):
            return self.subscript(self.eval(e.value, fr), e.slice, fr, e)
        if isinstance(e, ast.Lambda):
            return Fn(self.lambda_func(e, fr), None, fr)
        if isinstance(e, ast.JoinedStr):
            parts = []
            vals = []
            for p in e.values:
                if isinstance(p, ast.Constant):
                    parts.append(("const", repr(p.value)))
                    vals.append(Const(p.value))
                elif isinstance(p, ast.FormattedValue):
                    pv = self.eval(p.value, fr)
                    if isinstance(pv, Const) and isinstance(pv.value, tuple) and pv.value[:1] == ("enum",):
                        pv = Sym(("enumstr", pv.value[1], pv.value[2]))
                    parts.append(term_of(pv))
                    vals.append(pv)
            if all(p[0] == "const" for p in parts):
                return Const("".join(str(ast.literal_eval(p[1])) for p in parts))
            # a name put together from a finite set of strings (`f"_judge_{verb}"` with the verb chosen by a condition)
            if all(isinstance(v, Const) or (isinstance(v, Alt) and all(isinstance(o, Const) and isinstance(o.value, str) for _g, o in v.options)) for v in vals) and sum(isinstance(v, Alt) for v in vals) == 1:
                alt = next(v for v in vals if isinstance(v, Alt))
                return self.mk_alt([(g, Const("".join(str(o.value) if v is alt else str(v.value) for v in vals))) for g, o in alt.options])
            return Sym(("fstr", *parts))
        if isinstance(e, ast.BinOp):
            a, b = self.eval(e.left, fr), self.eval(e.right, fr)
            if isinstance(a, Coll) and isinstance(b, (Coll, Tup)) and isinstance(e.op, (ast.Add, ast.BitOr)):
                c = Coll(a.kind, list(a.entries), self.serial())
                c.entries += self.iterate(b) or []
                return c
            if isinstance(a, Coll) and isinstance(b, (Coll, Tup)) and isinstance(e.op, (ast.BitAnd, ast.Sub, ast.BitXor)):
                # set algebra over concrete elements (sets of flags, verbs, enum members, names)
                ea, eb = a.entries, (b.entries if isinstance(b, Coll) else [(x, TRUE) for x in b.items])
                if all(isinstance(x, Const) and g == TRUE for x, g in [*ea, *eb]):
                    inb = {repr(x.value) for x, _g in eb}
                    ina = {repr(x.value) for x, _g in ea}
                    if isinstance(e.op, ast.BitAnd):
                        keep = [(x, g) for x, g in ea if repr(x.value) in inb]
                    elif isinstance(e.op, ast.Sub):
                        keep = [(x, g) for x, g in ea if repr(x.value) not in inb]
                    else:
                        keep = [(x, g) for x, g in ea if repr(x.value) not in inb] + [(x, g) for x, g in eb if repr(x.value) not in ina]
                    out_c = Coll(a.kind, keep, self.serial())
                    out_c.literal = not keep  # type: ignore[attr-defined]
                    return out_c
                if isinstance(e.op, ast.BitAnd) and all(isinstance(x, Const) and g == TRUE for x, g in eb):
                    # membership of each (conditionally added) element of `a` in a concrete set
                    inb = {repr(x.value) for x, _g in eb}
                    if all(isinstance(x, Const) for x, _g in ea):
                        return Coll(a.kind, [(x, g) for x, g in ea if repr(x.value) in inb], self.serial())
                if isinstance(e.op, ast.BitAnd) and all(isinstance(x, Const) and g == TRUE for x, g in ea) and all(isinstance(x, Const) for x, _g in eb):
                    ina = {repr(x.value) for x, _g in ea}
                    return Coll(a.kind, [(x, g) for x, g in eb if repr(x.value) in ina], self.serial())
            if isinstance(a, Coll) and isinstance(b, (Coll, Tup, Sym)) and isinstance(e.op, ast.Sub):
                # set difference: the elements of `a` that are kept (which ones is not modelled)
                return Coll(a.kind, [(x, f_and([gx, self.mk_atom(f"kept-by-difference({show_term(term_of(x))})", kind="setop", node=e)])) for x, gx in a.entries], self.serial())
            if isinstance(e.op, ast.Add) and isinstance(self.as_tuple(a) or a, Tup) and isinstance(self.as_tuple(b) or b, Tup):
                return Tup((*(self.as_tuple(a) or a).items, *(self.as_tuple(b) or b).items))  # type: ignore[union-attr]
            if isinstance(a, Const) and isinstance(b, Const) and isinstance(e.op, ast.Add) and isinstance(a.value, str) and isinstance(b.value, str):
                return Const(a.value + b.value)
            if isinstance(e.op, ast.Add) and (isinstance(a, Const) and isinstance(a.value, str) or isinstance(b, Const) and isinstance(b.value, str)):
                return Sym(("fstr", term_of(a), term_of(b)))
            if isinstance(a, Coll) and isinstance(b, Sym) and isinstance(e.op, (ast.Add, ast.BitOr)):
                c = Coll(a.kind, list(a.entries), self.serial())
                c.entries += [(x, TRUE) for x in self.elems_of(b)]
                return c
            return Sym(("binop", type(e.op).__name__, term_of(a), term_of(b)))
        if isinstance(e, ast.UnaryOp):
            v = self.eval(e.operand, fr)
            if isinstance(v, Const) and isinstance(e.op, ast.USub) and isinstance(v.value, (int, float)):
                return Const(-v.value)
            return Sym(("unop", type(e.op).__name__, term_of(v)))
        if isinstance(e, ast.NamedExpr):
            v = self.eval(e.value, fr)
            self.assign(e.target, v, fr)
            return v
        if isinstance(e, ast.Starred):
            return self.eval(e.value, fr)
        if isinstance(e, (ast.Yield, ast.YieldFrom)):
            f: Frame | None = fr
            while f is not None and not hasattr(f, "gen"):
                f = f.closure
            v = self.eval(e.value, fr) if e.value is not None else Const(None)
            if f is not None:
                if isinstance(e, ast.Yield):
                    f.gen.entries.append((v, self.guard()))  # type: ignore[attr-defined]
                else:
                    ents = self.iterate(v)
                    if ents is None:
                        ents = [(Sym(("elem", term_of(v), self.fresh_iter())), TRUE)]
                    g = self.guard()
                    f.gen.entries += [(x, f_and([g, gx])) for x, gx in ents]  # type: ignore[attr-defined]
            return Const(None)
        if isinstance(e, ast.Slice):
            return Sym(("slice",))
        self.note(f"expression kind {type(e).__name__}")
        return Sym(("?", type(e).__name__, getattr(e, "lineno", 0)))

    def mk_alt(self, options: list) -> Val:
        flat = []
        for g, v in options:
            g = self.simp(g)
            if g == FALSE:
                continue
            if isinstance(v, Alt):
                for g2, v2 in v.options:
                    gg = self.simp(f_and([g, g2])) if g != TRUE else g2
                    if gg != FALSE:
                        flat.append((gg if gg == TRUE else f_and([g, g2]), v2))
            else:
                flat.append((g, v))
        if not flat:
            return Const(None)
        if len(flat) == 1:
            return flat[0][1]
        first = flat[0][1]
        if all(v is first for _g, v in flat):
            return first
        if all(isinstance(v, Const) for _g, v in flat) and len({repr(v.value) for _g, v in flat}) == 1:
            return first
        if all(isinstance(v, (Const, BoolF)) and (isinstance(v, BoolF) or isinstance(v.value, bool)) for _g, v in flat):
            f = f_or([f_and([g, self.truth(v)]) for g, v in flat])
            return Const(True) if f == TRUE else Const(False) if f == FALSE else BoolF(f)
        return Alt(flat)

    def comprehension(self, e: ast.AST, fr: Frame) -> Val:
        sub = Frame(fr.fi, {}, fr.selfv, fr, fr.base)
        if isinstance(e, ast.DictComp):
            out: Val = DictV([], self.serial())
        else:
            out = Coll({ast.ListComp: "list", ast.SetComp: "set", ast.GeneratorExp: "iter"}[type(e)], [], self.serial())

        def gen(i: int) -> None:
            if i == len(e.generators):
                g = self.guard_since(mark)
                if isinstance(e, ast.DictComp):
                    out.entries.append((self.eval(e.key, sub), self.eval(e.value, sub), g))  # type: ignore[union-attr]
                else:
                    out.entries.append((self.eval(e.elt, sub), g))  # type: ignore[union-attr]
                return
            c = e.generators[i]
            ents = self.iterate(self.eval(c.iter, sub))
            if ents is None:
                ents = [(Sym(("elem", ("?", ast.unparse(c.iter)[:40]), self.fresh_iter())), TRUE)]
            for x, gx in ents[:MAX_ENTRIES]:
                self.path.append(gx)
                self.assign(c.target, x, sub)
                conds = []
                dead = False
                for t in c.ifs:
                    f = self.truth_expr(t, sub)
                    if f == FALSE:
                        dead = True
                        break
                    conds.append(f)
                    self.path.append(f)
                if not dead:
                    gen(i + 1)
                del self.path[len(self.path) - len(conds):]
                self.path.pop()

        mark = len(self.path)
        gen(0)
        return out

    def guard_since(self, mark: int) -> Formula:
        """Event guard: the whole current path (conditions established before `mark` hold for the event as well)."""
        return self.guard()

    def subscript(self, v: Val, sl: ast.expr, fr: Frame, node: ast.AST) -> Val:
        if isinstance(v, Alt):
            return self.mk_alt([(g, self.subscript(o, sl, fr, node)) for g, o in v.options])
        if isinstance(sl, ast.Slice):
            v = self.as_tuple(v) or v
            if isinstance(v, (Coll, Tup)):
                ents = list(v.entries) if isinstance(v, Coll) else [(x, TRUE) for x in v.items]
                bounds = []
                for b in (sl.lower, sl.upper, sl.step):
                    bv = self.eval(b, fr) if b is not None else Const(None)
                    bounds.append(bv.value if isinstance(bv, Const) and (bv.value is None or isinstance(bv.value, int)) else "?")
                if "?" not in bounds and all(g == TRUE for _x, g in ents):
                    ents = ents[slice(*bounds)]
                    if isinstance(v, Tup):
                        return Tup(tuple(x for x, _g in ents))
                else:
                    self.note(f"slice with symbolic bounds `{ast.unparse(node)[:40]}`")
                    ents = [(x, f_and([g, self.taint("slice", node)])) for x, g in ents]
                return Coll(v.kind if isinstance(v, Coll) else "list", ents, self.serial())
            if isinstance(v, Sym) and sl.lower is None and sl.upper is None and isinstance(sl.step, ast.UnaryOp) and isinstance(sl.step.op, ast.USub) and isinstance(sl.step.operand, ast.Constant) and sl.step.operand.value == 1:
                return Sym(("reversed", v.term))
            return Sym(("slice", term_of(v)))
        return self.index_value(v, self.eval(sl, fr), node)

    def index_value(self, v: Val, idx: Val, node: ast.AST | None) -> Val:
        """`v[idx]` for evaluated operands (no slices)."""
        if isinstance(v, Alt):
            return self.mk_alt([(g, self.index_value(o, idx, node)) for g, o in v.options])
        t_ = self.as_tuple(v)
        if t_ is not None:
            v = t_
        if isinstance(v, ClsV) and is_enum(self.repo, v.ci) and isinstance(idx, Const) and idx.value in enum_members(self.repo, v.ci):
            return Const(("enum", v.ci.fq, idx.value))
        if isinstance(idx, BoolF) and isinstance(v, (Tup, DictV, Coll)):
            # a two-way table selected by a condition: `("objects", "subjects")[flag]`, `{True: a, False: b}[flag]`
            return self.mk_alt([(idx.f, self._index_const(v, True, node)), (f_not(idx.f), self._index_const(v, False, node))])
        if isinstance(idx, Alt) and all(isinstance(o, Const) for _g, o in idx.options) and isinstance(v, (Tup, DictV, Coll)):
            return self.mk_alt([(g, self._index_const(v, o.value, node)) for g, o in idx.options])
        if isinstance(v, Tup) and isinstance(idx, Const) and isinstance(idx.value, int) and -len(v.items) <= idx.value < len(v.items):
            return v.items[idx.value]
        if isinstance(v, DictV):
            ti = term_of(idx)
            hits = [(g, x) for k, x, g in v.entries if term_of(k) == ti]
            if hits:
                return hits[-1][1] if len(hits) == 1 or all(g == TRUE for g, _x in hits) else self.mk_alt(hits)
            return Sym(("index", term_of(v), ti))
        if isinstance(v, Coll) and isinstance(idx, Const) and isinstance(idx.value, int) and v.entries and all(g == TRUE for _x, g in v.entries) and -len(v.entries) <= idx.value < len(v.entries):
            return v.entries[idx.value][0]
        if isinstance(v, Sym):
            ti = term_of(idx)
            if isinstance(idx, Sym) and idx.term[0] == "key" and idx.term[1] == v.term:
                return Sym(("val", v.term, idx.term[-1]))
            if v.term[0] == "attr" and v.term[2] == "__dict__":
                return Sym(("attr", v.term[1], ("dyn", ti)))
            return Sym(("index", v.term, ti))
        return Sym(("index", term_of(v), term_of(idx)))

    def _index_const(self, v: Val, key: object, node: ast.AST) -> Val:
        """`v[key]` for a concrete key of a modelled tuple / list / dict."""
        if isinstance(v, DictV):
            hits = [x for k, x, g in v.entries if isinstance(k, Const) and k.value == key and type(k.value) is type(key) and g == TRUE]
            return hits[-1] if hits else Sym(("index", term_of(v), ("const", repr(key))))
        items = list(v.items) if isinstance(v, Tup) else [x for x, g in v.entries if g == TRUE] if all(g == TRUE for _x, g in v.entries) else []  # type: ignore[union-attr]
        if isinstance(key, (bool, int)) and -len(items) <= int(key) < len(items):
            return items[int(key)]
        return Sym(("index", term_of(v), ("const", repr(key))))

    # ------------------------------------------------------------------ attributes
    def getattr(self, v: Val, attr: str, node: ast.AST | None, fr: Frame | None) -> Val:
        if isinstance(v, Alt):
            return self.mk_alt([(g, self.getattr(o, attr, node, fr)) for g, o in v.options])
        if isinstance(v, Inst):
            if attr in v.fields:
                if not v.constructing and v.written_at.get(attr, "init") == "init":
                    v.entry_reads.add(attr)
                return v.fields[attr]
            if attr in ("_replace", "_asdict", "_fields", "count", "index") and self.as_tuple(v) is not None and self.repo.lookup_method(v.cls, attr) is None:
                if attr == "_fields":
                    return Tup(tuple(Const(n) for n in v.fields))
                return Bound(v, attr)
            m = self.repo.lookup_method(v.cls, attr)
            if m is not None:
                if is_prop(m):
                    return self.invoke(m, v, [], {}, None, node, fr)
                if m.is_staticmethod:
                    return Fn(m, None)
                if m.is_classmethod:
                    return Fn(m, ClsV(v.cls))
                return Fn(m, v)
            for c in self.repo.mro(v.cls):
                if attr in c.class_attrs:
                    return self.eval_in_module(c.class_attrs[attr], c)
            if attr == "__dict__":
                return DictV([(Const(k), x, TRUE) for k, x in v.fields.items()], self.serial())
            if attr == "__class__":
                return ClsV(v.cls)
            v.entry_reads.add(attr)
            return Sym(("attr", term_of(v), attr))
        if isinstance(v, ClsV) and is_enum(self.repo, v.ci) and attr in enum_members(self.repo, v.ci):
            return Const(("enum", v.ci.fq, attr))
        if isinstance(v, Const) and isinstance(v.value, tuple) and v.value[:1] == ("enum",):
            eci = self.repo.classes.get(v.value[1])
            if attr == "name":
                return Const(v.value[2])
            if eci is not None and attr in ("value", "_value_"):
                for c in self.repo.mro(eci):
                    if v.value[2] in c.class_attrs:
                        val = self.eval_in_module(c.class_attrs[v.value[2]], c)
                        return val if isinstance(val, (Const, Tup)) else Sym(("enumvalue", v.value[1], v.value[2]))
            if eci is not None:
                m = self.repo.lookup_method(eci, attr)
                if m is not None:
                    if is_prop(m):
                        return self.invoke(m, v, [], {}, None, node, fr)
                    return Fn(m, None if m.is_staticmethod else ClsV(eci) if m.is_classmethod else v)
            return Sym(("attr", term_of(v), attr))
        if isinstance(v, ClsV):
            m = self.repo.lookup_method(v.ci, attr)
            if m is None and attr in ("_make", "_fields") and is_namedtuple(self.repo, v.ci):
                if attr == "_make":
                    return Bound(v, "_make")
                names_: list[str] = []
                for c in reversed(self.repo.mro(v.ci)):
                    names_ += [n for n in c.ann_attrs if n not in names_]
                return Tup(tuple(Const(n) for n in names_))
            if m is not None:
                if m.is_classmethod:
                    return Fn(m, v)
                return Fn(m, None)
            for c in self.repo.mro(v.ci):
                if attr in c.class_attrs:
                    return self.eval_in_module(c.class_attrs[attr], c)
            return Sym(("attr", term_of(v), attr))
        if isinstance(v, SuperV):
            mro = self.repo.mro(v.selfv.cls if isinstance(v.selfv, Inst) else v.ci)
            after = False
            for c in mro:
                if after and attr in c.methods:
                    m = c.methods[attr]
                    if is_prop(m) and isinstance(v.selfv, Val):
                        return self.invoke(m, v.selfv, [], {}, None, node, fr)
                    return Fn(m, v.selfv)
                if c is v.ci or c.fq == v.ci.fq:
                    after = True
            return Sym(("attr", ("super", v.ci.fq), attr))
        if isinstance(v, (Coll, DictV, Tup, Const)):
            return Bound(v, attr)
        if isinstance(v, Sym):
            if v.term[0] == "dcfield" and attr == "name":
                return Const(v.term[1])
            stand_in = getattr(self, "stand_in", None)
            if stand_in and v.cls in stand_in:
                return self.getattr(stand_in[v.cls], attr, node, fr)
            ci = self.repo.classes.get(v.cls) if v.cls else None
            if ci is not None:
                impls = [m for m in self.repo.implementations(ci, attr) if not m.is_abstract]
                if len(impls) == 1 and self.descend(impls[0]):
                    m = impls[0]
                    if is_prop(m):
                        return self.invoke(m, v, [], {}, None, node, fr)
                    return Fn(m, None if m.is_staticmethod else v)
            return Sym(("attr", v.term, attr), self._attr_cls(ci, attr))
        if isinstance(v, Fn):
            return Sym(("attr", term_of(v), attr))
        if isinstance(v, Bound):
            return Sym(("attr", term_of(v), attr))
        return Sym(("attr", term_of(v), attr))

    def _attr_cls(self, ci: ClassInfo | None, attr: str) -> str | None:
        if ci is None:
            return None
        try:
            from .common import types_of

            t = types_of(self.repo).attr_type(ci, attr)
        except Exception:  # noqa: BLE001
            return None
        if t and t[0] == "cls":
            return t[1]
        return None

    def eval_in_module(self, e: ast.expr, ci: ClassInfo) -> Val:
        probe = FuncInfo(name="<class>", qualname=f"{ci.name}.<class>", node=ast.Lambda(args=ast.arguments(posonlyargs=[], args=[], kwonlyargs=[], kw_defaults=[], defaults=[]), body=ast.Constant(value=None)), module=ci.module, cls=ci)
        return self.eval(e, Frame(probe, {}, None, None, len(self.path)))

    def set_field(self, obj: Val, attr: str, value: Val, node: ast.AST | None, fr: Frame | None) -> None:
        if isinstance(obj, Alt):
            for g, o in obj.options:
                self.path.append(g)
                self.set_field(o, attr, value, node, fr)
                self.path.pop()
            return
        if isinstance(obj, Inst):
            # a store under a symbolic condition keeps the old value as an alternative; conditions that already held when the
            # object was created hold whenever it exists: only what was established since then makes the store conditional
            born = obj.born
            if born is not None and tuple(self.path[: len(born)]) == born:
                g = f_and(list(self.path[len(born):]))
            else:
                g = self.guard()
            if g != TRUE and attr in obj.fields and g != FALSE:
                value = self.mk_alt([(g, value), (f_not(g), obj.fields[attr])])
            obj.fields[attr] = value
            obj.written_at[attr] = "init" if obj.constructing else "late"
            if not obj.constructing:
                obj.late_writes.setdefault(attr, []).append((value, fr.fi if fr else None, node))
            return
        self.events.append(Event("store", attr, obj, [value], {}, self.guard(), node, fr.fi if fr else None))

    # ------------------------------------------------------------------ calls
    def call(self, e: ast.Call, fr: Frame) -> Val:
        f = e.func
        # super()
        if isinstance(f, ast.Name) and f.id == "super" and not e.args and self._is_builtin("super", fr):
            cls = fr.fi.cls
            if cls is None and fr.closure is not None:
                cls = fr.closure.fi.cls
            return SuperV(cls, fr.selfv) if cls is not None else Sym(("super",))
        args: list = []
        for a in e.args:
            if isinstance(a, ast.Starred):
                sub = self.iterate(self.eval(a.value, fr))
                args += [x for x, _g in (sub or [])]
            else:
                args.append(self.eval(a, fr))
        kwargs = {}
        for k in e.keywords:
            if k.arg is None:
                d = self.eval(k.value, fr)
                if isinstance(d, DictV):
                    for kk, vv, _g in d.entries:
                        if isinstance(kk, Const) and isinstance(kk.value, str):
                            kwargs[kk.value] = vv
                continue
            kwargs[k.arg] = self.eval(k.value, fr)
        if isinstance(f, ast.Name) and self._is_builtin(f.id, fr):
            return self.builtin(f.id, args, kwargs, e, fr)
        fv = self.eval(f, fr)
        return self.apply(fv, args, kwargs, e, fr)

    def apply(self, fv: Val, args: list, kwargs: dict, node: ast.AST | None, fr: Frame | None) -> Val:
        if isinstance(fv, Alt):
            outs = []
            for g, o in fv.options:
                self.path.append(g)
                outs.append((g, self.apply(o, args, kwargs, node, fr)))
                self.path.pop()
            return self.mk_alt(outs)
        if isinstance(fv, Fn):
            return self.invoke(fv.fi, fv.selfv, args, kwargs, fv.closure, node, fr)
        if isinstance(fv, ClsV):
            return self.instantiate(fv.ci, args, kwargs, node, fr)
        if isinstance(fv, Bound):
            return self.builtin_method(fv.recv, fv.name, args, kwargs, node, fr)
        if isinstance(fv, Partial):
            return self.apply(fv.fn, [*fv.args, *args], {**fv.kwargs, **kwargs}, node, fr)
        if isinstance(fv, Getter) and len(args) == 1:
            return self.apply_getter(fv, args[0], node, fr)
        if isinstance(fv, Inst):
            call_m = self.repo.lookup_method(fv.cls, "__call__")
            if call_m is not None:
                return self.invoke(call_m, fv, args, kwargs, None, node, fr)
        if isinstance(fv, Sym):
            t = fv.term
            if t[0] == "lib":
                return self.lib_call(t[1], args, kwargs, node, fr)
            if t[0] == "attr" and isinstance(t[1], tuple) and t[1][:1] == ("builtin",) and t[1][1] in ("set", "frozenset", "list", "dict", "tuple", "str") and args and isinstance(args[0], (Coll, DictV, Tup, Const)):
                return self.builtin_method(args[0], t[2], list(args[1:]), kwargs, node, fr)  # unbound method: set.union(a, b)
            if t[0] == "attr":
                recv = Sym(t[1], None) if isinstance(t[1], tuple) else None
                name = t[2]
                if name in ("values", "items", "keys") and not args and isinstance(t[1], tuple):
                    return Sym((name, t[1]))
                if name == "get" and args and isinstance(args[0], Sym) and args[0].term[0] == "key" and args[0].term[1] == t[1]:
                    return Sym(("val", t[1], args[0].term[-1]))
                if name in ("startswith", "endswith") and isinstance(t[1], tuple):
                    s = Sym(("strtest", name, t[1], *[term_of(a) for a in args]))
                    self.atom_info.setdefault(show_term(s.term), {"kind": "strtest", "term": s.term, "node": node, "fi": fr.fi if fr else None, "args": list(args), "recv": t[1]})
                    return s
                if t[1] and isinstance(t[1], tuple) and t[1][0] == "lib":
                    return self.lib_call(f"{t[1][1]}.{name}", args, kwargs, node, fr)
                return self.opaque_call(name, recv, args, kwargs, node, fr)
            if t[0] == "builtin":
                return self.builtin(t[1], args, kwargs, node, fr)

            return self.opaque_call(show_term(t), None, args, kwargs, node, fr)
        return self.opaque_call(show_term(term_of(fv)), None, args, kwargs, node, fr)

    def apply_getter(self, gt: Getter, x: Val, node: ast.AST | None, fr: Frame | None) -> Val:
        if gt.kind == "item":
            outs = [self.index_value(x, k, node) for k in gt.keys]
        elif gt.kind == "attr":
            outs = []
            for dotted_name in gt.keys:
                cur = x
                for part in str(dotted_name).split("."):
                    cur = self.getattr(cur, part, node, fr)
                outs.append(cur)
        else:
            return self.apply(self.getattr(x, str(gt.keys[0]), node, fr), list(gt.args), dict(gt.kwargs), node, fr)
        return outs[0] if len(outs) == 1 else Tup(tuple(outs))

    def opaque_call(self, name: str, recv: Val | None, args: list, kwargs: dict, node: ast.AST | None, fr: Frame | None, cls: str | None = None) -> Val:
        parts = [term_of(recv)] if recv is not None else []
        parts += [term_of(a) for a in args] + [("kw", k, term_of(v)) for k, v in sorted(kwargs.items())]
        res = Sym(("call", name, *parts), cls)
        self.events.append(Event("call", name, recv, list(args), dict(kwargs), self.guard(), node, fr.fi if fr else None, res))
        return res

    def invoke(self, fi: FuncInfo, selfv: Val | None, args: list, kwargs: dict, closure: Frame | None, node: ast.AST | None, fr: Frame | None) -> Val:
        if not self.descend(fi) or len(self.stack) >= MAX_DEPTH or fi in self.stack:
            recv = selfv if not isinstance(selfv, ClsV) else None
            res = self.opaque_call(fi.qualname if fi.cls is not None and recv is None else fi.name, recv, args, kwargs, node, fr, self._ret_cls(fi))
            self.events[-1].callee = fi
            return res
        is_gen = any(isinstance(n, (ast.Yield, ast.YieldFrom)) for n in _own(fi.node))
        a = fi.node.args
        pos = [p.arg for p in [*a.posonlyargs, *a.args]]
        env: dict = {}
        actual = list(args)
        if fi.cls is not None and fi.outer is None and not fi.is_staticmethod and not isinstance(fi.node, ast.Lambda):
            actual = [selfv if selfv is not None else Sym(("self", fi.cls.fq), fi.cls.fq), *actual]
        for p, v in zip(pos, actual):
            env[p] = v
        extra = actual[len(pos):]
        if a.vararg is not None:
            env[a.vararg.arg] = Coll("list", [(x, TRUE) for x in extra], self.serial())
        kw = dict(kwargs)
        for p in [*pos, *[k.arg for k in a.kwonlyargs]]:
            if p in kw and p not in env:
                env[p] = kw.pop(p)
        if a.kwarg is not None:
            env[a.kwarg.arg] = DictV([(Const(k), v, TRUE) for k, v in kw.items()], self.serial())
        # defaults are evaluated where the function was defined
        def_fr = closure if closure is not None else Frame(fi, {}, None, None, len(self.path))
        pos_all = [*a.posonlyargs, *a.args]
        for p, d in zip(pos_all[len(pos_all) - len(a.defaults):], a.defaults):
            if p.arg not in env:
                env[p.arg] = self.eval(d, def_fr)
        for p, d in zip(a.kwonlyargs, a.kw_defaults):
            if d is not None and p.arg not in env:
                env[p.arg] = self.eval(d, def_fr)
        for p in [*pos, *[k.arg for k in a.kwonlyargs]]:
            env.setdefault(p, Sym(("unbound", fi.fq, p)))
        new = Frame(fi, env, actual[0] if (fi.cls is not None and fi.outer is None and not fi.is_staticmethod and actual and not isinstance(fi.node, ast.Lambda)) else (closure.selfv if closure else None), closure, len(self.path))
        self.stack.append(fi)
        try:
            if isinstance(fi.node, ast.Lambda):
                result: Val = self.eval(fi.node.body, new)
            elif is_gen:
                # a generator: its value is the collection of the yielded elements (each under the guard of its `yield`)
                new.gen = Coll("iter", [], self.serial())  # type: ignore[attr-defined]
                self.exec_block(fi.node.body, new)
                result = new.gen  # type: ignore[attr-defined]
            else:
                rx, _lx = self.exec_block(fi.node.body, new)
                rx = self.simp(rx)
                opts = list(new.returns)
                if rx != TRUE:
                    opts.append((f_not(rx), Const(None)))
                result = self.mk_alt(opts)
        finally:
            self.stack.pop()
        self.frames_of.setdefault(fi.fq, []).append((env, result, new))
        if new.raised:
            exc = f_or(new.raised)
            if exc != FALSE:
                self.pending.append(exc)
        return result

    def _ret_cls(self, fi: FuncInfo) -> str | None:
        try:
            from .common import types_of

            t = types_of(self.repo).return_type(fi)
        except Exception:  # noqa: BLE001
            return None
        if t and t[0] == "cls":
            return t[1]
        if t and t[0] == "b" and t[1] == "dict":
            return "dict"
        return None

    def instantiate(self, ci: ClassInfo, args: list, kwargs: dict, node: ast.AST | None, fr: Frame | None) -> Val:
        if is_enum(self.repo, ci) and len(args) == 1 and not kwargs:
            a = args[0]
            if isinstance(a, Const) and isinstance(a.value, tuple) and a.value[:1] == ("enum",):
                return a
            if isinstance(a, Alt):
                return self.mk_alt([(g, self.instantiate(ci, [o], {}, node, fr)) for g, o in a.options])
            if isinstance(a, Const):
                for n in enum_members(self.repo, ci):
                    mv = self.getattr(Const(("enum", ci.fq, n)), "value", node, fr)
                    if isinstance(mv, Const) and mv.value == a.value and type(mv.value) is type(a.value):
                        return Const(("enum", ci.fq, n))
            return Sym(("new", ci.name, term_of(a)), ci.fq)
        init = self.repo.lookup_method(ci, "__init__")
        is_dc = any(c.is_dataclass for c in self.repo.mro(ci))
        if init is not None and self.descend(init):
            inst = Inst(ci, {}, self.serial(), made_at=(fr.fi if fr else None, node), born=tuple(self.path))
            self.instances.append(inst)
            inst.constructing = True
            self.invoke(init, inst, args, kwargs, None, node, fr)
            inst.constructing = False
            self.events.append(Event("new", ci.name, inst, list(args), dict(kwargs), self.guard(), node, fr.fi if fr else None, inst))
            return inst
        if init is None and (is_dc or any(c.ann_attrs for c in self.repo.mro(ci))) and self.descend_class(ci):
            inst = Inst(ci, {}, self.serial(), made_at=(fr.fi if fr else None, node), born=tuple(self.path))
            self.instances.append(inst)
            names: list[str] = []
            for c in reversed(self.repo.mro(ci)):
                for n in c.ann_attrs:
                    if n not in names:
                        names.append(n)
            for n, v in zip(names, args):
                inst.fields[n] = v
            for k, v in kwargs.items():
                inst.fields[k] = v
            for n in names:
                if n not in inst.fields:
                    d = None
                    for c in self.repo.mro(ci):
                        if n in c.class_attrs:
                            d = c.class_attrs[n]
                            break
                    inst.fields[n] = self._dc_default(d, ci) if d is not None else Sym(("missing", ci.name, n))
                inst.written_at[n] = "init"
            inst.given = set(names[: len(args)]) | set(kwargs)  # type: ignore[attr-defined]
            post = self.repo.lookup_method(ci, "__post_init__")
            if post is not None and self.descend(post):
                self.invoke(post, inst, [], {}, None, node, fr)
            self.events.append(Event("new", ci.name, inst, list(args), dict(kwargs), self.guard(), node, fr.fi if fr else None, inst))
            return inst
        parts = [term_of(a) for a in args] + [("kw", k, term_of(v)) for k, v in sorted(kwargs.items())]
        res = Sym(("new", ci.name, *parts), ci.fq)
        self.events.append(Event("new", ci.name, None, list(args), dict(kwargs), self.guard(), node, fr.fi if fr else None, res))
        return res

    def descend_class(self, ci: ClassInfo) -> bool:
        probe = next(iter(ci.methods.values()), None)
        if probe is not None:
            return self.descend(probe)
        fake = FuncInfo(name="<class>", qualname=ci.name, node=ast.Lambda(args=ast.arguments(posonlyargs=[], args=[], kwonlyargs=[], kw_defaults=[], defaults=[]), body=ast.Constant(value=None)), module=ci.module, cls=ci)
        return self.descend(fake)

    def _dc_default(self, d: ast.expr, ci: ClassInfo) -> Val:
        if isinstance(d, ast.Call) and isinstance(d.func, ast.Name) and d.func.id == "field":
            for k in d.keywords:
                if k.arg == "default":
                    return self.eval_in_module(k.value, ci)
                if k.arg == "default_factory":
                    n = ast.unparse(k.value)
                    if n in ("list", "set"):
                        return Coll(n, [], self.serial())
                    if n == "dict":
                        return DictV([], self.serial())
                    return self.apply(self.eval_in_module(k.value, ci), [], {}, d, None)
            return Sym(("missing-default", ci.name))
        return self.eval_in_module(d, ci)

    # ------------------------------------------------------------------ builtins and library functions
    def builtin(self, name: str, args: list, kwargs: dict, node: ast.AST | None, fr: Frame | None) -> Val:
        if name in ("reversed", "tuple", "list", "set", "frozenset", "sorted", "iter", "len", "zip", "enumerate", "map", "filter", "any", "all", "sum", "next", "dict", "min", "max"):
            args = [self.as_tuple(a) or a for a in args]
        a0 = args[0] if args else None
        if name == "type" and len(args) == 1 and isinstance(a0, Inst):
            return ClsV(a0.cls)
        if name in ("set", "list", "tuple", "frozenset", "sorted", "reversed", "iter"):
            kind = {"set": "set", "frozenset": "set"}.get(name, "list")
            if a0 is None:
                return Coll(kind, [], self.serial())
            if name == "reversed" and isinstance(a0, Sym):
                return Sym(("reversed", a0.term))
            if name == "reversed" and isinstance(a0, Tup):
                return Tup(tuple(reversed(a0.items)))
            if name == "tuple" and isinstance(a0, Tup):
                return a0
            if name in ("tuple", "list") and isinstance(a0, Sym) and a0.term[0] == "reversed":
                return a0
            return self.copy_coll(a0, kind)
        if name == "dict":
            d = DictV([], self.serial())
            if a0 is not None:
                if isinstance(a0, DictV):
                    d.entries = list(a0.entries)
                elif isinstance(a0, Sym):
                    return Sym(("copy", a0.term), a0.cls or "dict")
                else:
                    for x, g in self.iterate(a0) or []:
                        if isinstance(x, Tup) and len(x.items) == 2:
                            d.entries.append((x.items[0], x.items[1], g))
                        else:
                            d.entries.append((Sym(("index", term_of(x), ("const", "0"))), Sym(("index", term_of(x), ("const", "1"))), g))
            for k, v in kwargs.items():
                d.entries.append((Const(k), v, TRUE))
            return d
        if name == "len":
            if isinstance(a0, (Coll, DictV)) and all(g == TRUE for *_x, g in a0.entries) and not any(isinstance(x[0], Sym) and x[0].term[0] in ("elem", "key", "val") for x in a0.entries):
                return Const(len(a0.entries))
            if isinstance(a0, Tup):
                return Const(len(a0.items))
            return Sym(("len", term_of(a0) if a0 is not None else ()))
        if name == "bool":
            f = self.truth(a0) if a0 is not None else FALSE
            return Const(True) if f == TRUE else Const(False) if f == FALSE else BoolF(f)
        if name in ("any", "all"):
            ents = self.iterate(a0) if a0 is not None else []
            if ents is None:
                return BoolF(self.truth(Sym(("call", name, term_of(a0)))))
            f = f_or([f_and([g, self.truth(x)]) for x, g in ents]) if name == "any" else f_and([f_or([f_not(g), self.truth(x)]) for x, g in ents])
            return Const(True) if f == TRUE else Const(False) if f == FALSE else BoolF(f)
        if name == "map" and len(args) == 2:
            out = Coll("iter", [], self.serial())
            ents = self.iterate(args[1])
            if ents is None:
                ents = [(Sym(("elem", term_of(args[1]), self.fresh_iter())), TRUE)]
            for x, g in ents[:MAX_ENTRIES]:
                self.path.append(g)
                out.entries.append((self.apply(args[0], [x], {}, node, fr), g))
                self.path.pop()
            return out
        if name == "map" and len(args) > 2:
            rows = self.builtin("zip", args[1:], {}, node, fr)
            out = Coll("iter", [], self.serial())
            for x, g in (self.iterate(rows) or [])[:MAX_ENTRIES]:
                self.path.append(g)
                out.entries.append((self.apply(args[0], list(x.items) if isinstance(x, Tup) else [x], {}, node, fr), g))
                self.path.pop()
            return out
        if name == "filter" and len(args) == 2:
            out = Coll("iter", [], self.serial())
            for x, g in (self.iterate(args[1]) or [])[:MAX_ENTRIES]:
                self.path.append(g)
                keep = self.truth(x) if isinstance(args[0], Const) and args[0].value is None else self.truth(self.apply(args[0], [x], {}, node, fr))
                self.path.pop()
                if keep != FALSE:
                    out.entries.append((x, f_and([g, keep])))
            return out
        if name == "zip":
            lists = [self.iterate(a) or [] for a in args]
            out = Coll("iter", [], self.serial())
            if lists and all(lists):
                if all(isinstance(a, (Coll, Tup)) for a in args):
                    for row in zip(*lists):
                        out.entries.append((Tup(tuple(x for x, _g in row)), f_and([g for _x, g in row])))
                else:
                    out.entries.append((Tup(tuple(l[0][0] for l in lists)), f_and([l[0][1] for l in lists])))
            return out
        if name == "enumerate" and a0 is not None:
            out = Coll("iter", [], self.serial())
            for n, (x, g) in enumerate(self.iterate(a0) or []):
                out.entries.append((Tup((Const(n) if isinstance(a0, (Coll, Tup)) else Sym(("idx", n)), x)), g))
            return out
        if name == "isinstance" and len(args) == 2:
            return BoolF(self.mk_atom(f"isinstance({show_term(term_of(args[0]))}, {show_term(term_of(args[1]))})", kind="isinstance", node=node))
        if name == "getattr" and len(args) >= 2 and isinstance(args[1], (Const, Alt)):
            def get(n: str) -> Val:
                o = args[0]
                if len(args) > 2 and isinstance(o, Inst) and n not in o.fields and self.repo.lookup_method(o.cls, n) is None and not any(n in c.class_attrs for c in self.repo.mro(o.cls)):
                    if not o.constructing:
                        o.entry_reads.add(n)
                    return args[2]
                return self.getattr(o, n, node, fr)

            return self._by_name(args[1], get)
        if name == "setattr" and len(args) == 3 and isinstance(args[1], (Const, Alt)):
            self._by_name(args[1], lambda n: (self.set_field(args[0], n, args[2], node, fr), Const(None))[1])
            return Const(None)
        if name == "hasattr" and len(args) == 2:
            if isinstance(args[0], Inst) and isinstance(args[1], Const):
                if not args[0].constructing and args[0].written_at.get(str(args[1].value), "init") == "init":
                    args[0].entry_reads.add(str(args[1].value))
                return Const(args[1].value in args[0].fields or self.repo.lookup_method(args[0].cls, str(args[1].value)) is not None)
            return BoolF(self.mk_atom(f"hasattr({show_term(term_of(args[0]))}, {show_term(term_of(args[1]))})", kind="hasattr", node=node))
        if name == "cast" and len(args) == 2:
            return args[1]
        if name == "next" and a0 is not None:
            ents = self.iterate(a0)
            return ents[0][0] if ents else (args[1] if len(args) > 1 else Sym(("next", term_of(a0))))
        if name == "sum" and len(args) == 2 and isinstance(args[1], Coll) and a0 is not None:
            out = Coll("list", list(args[1].entries), self.serial())
            for x, g in self.iterate(a0) or []:
                for y, gy in self.iterate(x) or []:
                    out.entries.append((y, f_and([g, gy])))
            return out
        if name in ("str", "repr", "int", "float", "min", "max", "sum", "abs", "hash", "id", "type", "format", "round", "ord", "chr"):
            if name == "str" and isinstance(a0, Const) and isinstance(a0.value, str):
                return a0
            return Sym(("call", name, *[term_of(a) for a in args]))
        if name == "print":
            return Const(None)
        if name == "vars" and isinstance(a0, Inst):
            return DictV([(Const(k), x, TRUE) for k, x in a0.fields.items()], self.serial())
        if name == "callable":
            return Const(isinstance(a0, (Fn, ClsV, Bound, Partial, Getter)))
        if name == "range":
            return Sym(("range", *[term_of(a) for a in args]))
        return self.opaque_call(name, None, args, kwargs, node, fr)

    def _by_name(self, namev: Val, fn) -> Val:
        if isinstance(namev, Const):
            return fn(str(namev.value))
        outs = []
        for g, o in namev.options:  # type: ignore[union-attr]
            self.path.append(g)
            outs.append((g, self._by_name(o, fn) if isinstance(o, (Const, Alt)) else Sym(("?",))))
            self.path.pop()
        return self.mk_alt(outs)

    def copy_coll(self, v: Val, kind: str) -> Val:
        if isinstance(v, Alt):
            return self.mk_alt([(g, self.copy_coll(o, kind)) for g, o in v.options])
        if isinstance(v, Sym):
            return Sym(("copy", v.term), v.cls if v.cls != "dict" else None) if v.cls != "dict" else Sym(("keys", v.term))
        ents = self.iterate(v)
        if ents is None:
            return Sym(("copy", term_of(v)))
        return Coll(kind, list(ents), self.serial())

    def lib_call(self, fq: str, args: list, kwargs: dict, node: ast.AST | None, fr: Frame | None) -> Val:
        a0 = args[0] if args else None
        if fq == "dataclasses.replace" and isinstance(a0, (Inst, Alt)):
            return self._replace(a0, kwargs, node, fr)
        if fq in ("copy.deepcopy", "copy.copy") and a0 is not None:
            return a0
        if fq == "typing.cast" and len(args) == 2:
            return args[1]
        if fq == "itertools.chain.from_iterable" and a0 is not None:
            if isinstance(a0, Sym):
                return Sym(("flat", a0.term))
            out = Coll("iter", [], self.serial())
            for x, g in self.iterate(a0) or []:
                for y, gy in self.iterate(x) or []:
                    out.entries.append((y, f_and([g, gy])))
            return out
        if fq == "itertools.chain":
            out = Coll("iter", [], self.serial())
            for a in args:
                out.entries += self.iterate(a) or []
            return out
        if fq == "itertools.product":
            if all(isinstance(a, Sym) for a in args):
                return Sym(("product", *[a.term for a in args]))
            out = Coll("iter", [], self.serial())
            lists = [self.iterate(a) or [] for a in args]
            if all(lists):
                import itertools

                for row in itertools.islice(itertools.product(*lists), MAX_ENTRIES):
                    out.entries.append((Tup(tuple(x for x, _g in row)), f_and([g for _x, g in row])))
            return out
        if fq in ("dataclasses.fields",) and isinstance(a0, Inst):
            return Coll("list", [(Sym(("dcfield", k)), TRUE) for k in a0.fields], self.serial())
        if fq in ("dataclasses.asdict",) and isinstance(a0, Inst):
            return DictV([(Const(k), x, TRUE) for k, x in a0.fields.items()], self.serial())
        if fq in ("dataclasses.astuple",) and isinstance(a0, Inst):
            return Tup(tuple(a0.fields.values()))
        if fq in ("dataclasses.fields",) and a0 is not None:
            return Sym(("fields", term_of(a0)))
        if fq == "collections.defaultdict":
            return DictV([], self.serial())
        if fq == "functools.partial" and a0 is not None:
            return Partial(a0, list(args[1:]), dict(kwargs))
        if fq == "functools.reduce" and len(args) >= 2:
            ents = self.iterate(args[1])
            if ents is not None and len(ents) <= MAX_ENTRIES and not isinstance(args[1], Sym):
                items = list(ents)
                if len(args) > 2:
                    acc = args[2]
                elif items and items[0][1] == TRUE:
                    acc = items.pop(0)[0]
                else:
                    acc = None
                if acc is not None:
                    for x, g in items:
                        if g == TRUE:
                            acc = self.apply(args[0], [acc, x], {}, node, fr)
                        else:
                            self.path.append(g)
                            nxt = self.apply(args[0], [acc, x], {}, node, fr)
                            self.path.pop()
                            acc = self.mk_alt([(g, nxt), (f_not(g), acc)])
                    return acc
        if fq in ("operator.or_", "operator.and_", "operator.add", "operator.sub", "operator.concat") and len(args) == 2 and fr is not None:
            op = {"or_": ast.BitOr(), "and_": ast.BitAnd(), "add": ast.Add(), "sub": ast.Sub(), "concat": ast.Add()}[fq.split(".")[-1]]
            tmp = Frame(fr.fi, {"__a": args[0], "__b": args[1]}, fr.selfv, None, fr.base)
            return self.eval(ast.BinOp(left=ast.Name(id="__a", ctx=ast.Load()), op=op, right=ast.Name(id="__b", ctx=ast.Load())), tmp)
        if fq == "operator.itemgetter" and args:
            return Getter("item", list(args))
        if fq == "operator.attrgetter" and args and all(isinstance(a, Const) and isinstance(a.value, str) for a in args):
            return Getter("attr", [a.value for a in args])
        if fq == "operator.methodcaller" and isinstance(a0, Const) and isinstance(a0.value, str):
            return Getter("method", [a0.value], list(args[1:]), dict(kwargs))
        if fq == "operator.getitem" and len(args) == 2:
            return self.index_value(args[0], args[1], node)
        if fq in ("operator.not_", "operator.truth") and len(args) == 1:
            f = self.truth(args[0])
            f = f_not(f) if fq.endswith("not_") else f
            return Const(True) if f == TRUE else Const(False) if f == FALSE else BoolF(f)
        if fq in ("operator.eq", "operator.ne") and len(args) == 2 and fr is not None:
            f = self._equal(args[0], args[1], node, fr)  # type: ignore[arg-type]
            f = f_not(f) if fq.endswith("ne") else f
            return Const(True) if f == TRUE else Const(False) if f == FALSE else BoolF(f)
        if fq in ("operator.is_", "operator.is_not") and len(args) == 2 and isinstance(args[1], Const) and args[1].value is None:
            f = self.is_none(args[0])
            f = f_not(f) if fq.endswith("is_not") else f
            return Const(True) if f == TRUE else Const(False) if f == FALSE else BoolF(f)
        if fq == "operator.contains" and len(args) == 2 and fr is not None:
            f = self._contains(args[0], args[1], node, fr)  # type: ignore[arg-type]
            return Const(True) if f == TRUE else Const(False) if f == FALSE else BoolF(f)
        if fq == "itertools.starmap" and len(args) == 2:
            out = Coll("iter", [], self.serial())
            ents = self.iterate(args[1])
            if ents is None:
                ents = [(Sym(("elem", term_of(args[1]), self.fresh_iter())), TRUE)]
            for x, g in ents[:MAX_ENTRIES]:
                self.path.append(g)
                row = self.iterate(x)
                out.entries.append((self.apply(args[0], [y for y, _g in row] if row is not None and not isinstance(x, Sym) else [self._component(x, 0, 2), self._component(x, 1, 2)], {}, node, fr), g))
                self.path.pop()
            return out
        if fq == "itertools.filterfalse" and len(args) == 2:
            out = Coll("iter", [], self.serial())
            for x, g in (self.iterate(args[1]) or [])[:MAX_ENTRIES]:
                self.path.append(g)
                keep = f_not(self.truth(x) if isinstance(args[0], Const) and args[0].value is None else self.truth(self.apply(args[0], [x], {}, node, fr)))
                self.path.pop()
                if keep != FALSE:
                    out.entries.append((x, f_and([g, keep])))
            return out
        if fq in ("collections.namedtuple", "typing.NamedTuple") and isinstance(a0, Const) and isinstance(a0.value, str) and len(args) >= 2:
            made = self.make_record_class(a0.value, args[1], fr)
            if made is not None:
                return made
        return self.opaque_call(fq, None, args, kwargs, node, fr)

    def make_record_class(self, name: str, fields_v: Val, fr: Frame | None) -> Val | None:
        """The class made by `namedtuple("X", "a b")` / `namedtuple("X", ["a", "b"])` / `NamedTuple("X", [("a", int), ..])`."""
        names: list[str] = []
        if isinstance(fields_v, Const) and isinstance(fields_v.value, str):
            names = fields_v.value.replace(",", " ").split()
        else:
            for x, g in self.iterate(fields_v) or []:
                if isinstance(x, Tup) and x.items and isinstance(x.items[0], Const):
                    x = x.items[0]
                if not (isinstance(x, Const) and isinstance(x.value, str)) or g != TRUE:
                    return None
                names.append(x.value)
        if not names or fr is None:
            return None
        made = self.__dict__.setdefault("_record_classes", {})
        key = (fr.fi.module.name, name, tuple(names))
        if key not in made:
            ci = ClassInfo(name=name, node=ast.ClassDef(name=name, bases=[], keywords=[], body=[], decorator_list=[]), module=fr.fi.module, base_exprs=[], bases=["typing.NamedTuple"])
            ci.ann_attrs = {n: ast.Constant(value=None) for n in names}
            made[key] = ci
        return ClsV(made[key])

    def _replace(self, base: Val, overrides: dict, node: ast.AST | None, fr: Frame | None) -> Val:
        if isinstance(base, Alt):
            return self.mk_alt([(g, self._replace(o, overrides, node, fr) if isinstance(o, (Inst, Alt)) else Sym(("replace", term_of(o)))) for g, o in base.options])
        assert isinstance(base, Inst)
        new = Inst(base.cls, dict(base.fields), self.serial(), made_at=(fr.fi if fr else None, node), born=tuple(self.path))
        new.copied_from = base  # type: ignore[attr-defined]
        new.overridden = set(overrides)  # type: ignore[attr-defined]
        for k, v in overrides.items():
            new.fields[k] = v
        for k in new.fields:
            new.written_at[k] = "init"
        self.instances.append(new)
        return new

    def builtin_method(self, recv: Val, name: str, args: list, kwargs: dict, node: ast.AST | None, fr: Frame | None) -> Val:
        a0 = args[0] if args else None
        g = self.guard()
        if isinstance(recv, Inst) and name == "_replace":
            return self._replace(recv, kwargs, node, fr)
        if isinstance(recv, Inst) and name == "_asdict":
            return DictV([(Const(k), x, TRUE) for k, x in recv.fields.items()], self.serial())
        if isinstance(recv, ClsV) and name == "_make" and a0 is not None:
            ents = self.iterate(a0)
            if ents is not None and all(gx == TRUE for _x, gx in ents):
                return self.instantiate(recv.ci, [x for x, _g in ents], {}, node, fr)
            return Sym(("call", "_make", term_of(recv), term_of(a0)), recv.ci.fq)
        if isinstance(recv, Coll):
            if name in ("add", "append") and a0 is not None:
                recv.entries.append((a0, g))
                return Const(None)
            if name == "insert" and len(args) == 2:
                recv.entries.append((args[1], g))
                return Const(None)
            if name in ("update", "extend"):
                for a in args:
                    ents = self.iterate(a)
                    if ents is None:
                        ents = [(Sym(("elem", term_of(a), self.fresh_iter())), TRUE)]
                    recv.entries += [(x, f_and([g, gx])) for x, gx in ents]
                return Const(None)
            if name in ("remove", "discard", "clear", "sort", "reverse"):
                self.atom_info.setdefault(f"removed(coll#{recv.serial})", {"kind": "removed", "node": node, "what": name, "args": list(args)})
                return Const(None)
            if name in ("copy",):
                return Coll(recv.kind, list(recv.entries), self.serial())
            if name in ("union",):
                c = Coll(recv.kind, list(recv.entries), self.serial())
                for a in args:
                    c.entries += self.iterate(a) or []
                return c
            if name in ("difference", "intersection", "symmetric_difference"):
                c = Coll(recv.kind, [(x, f_and([gx, self.mk_atom(f"kept-by-{name}({show_term(term_of(x))})", kind="setop", node=node)])) for x, gx in recv.entries], self.serial())
                return c
            if name == "pop":
                return recv.entries[-1][0] if recv.entries else Sym(("pop",))
            if name in ("index", "count"):
                return Sym(("call", name, term_of(recv)))
            if name == "__contains__" and a0 is not None:
                return BoolF(self._contains(recv, a0, node, fr))  # type: ignore[arg-type]
        if isinstance(recv, DictV):
            if name == "items":
                return Coll("iter", [(Tup((k, v)), gg) for k, v, gg in recv.entries], self.serial())
            if name == "values":
                return Coll("iter", [(v, gg) for _k, v, gg in recv.entries], self.serial())
            if name == "keys":
                return Coll("iter", [(k, gg) for k, _v, gg in recv.entries], self.serial())
            if name in ("get", "pop", "setdefault") and a0 is not None:
                ta = term_of(a0)
                hits = [(gg, v) for k, v, gg in recv.entries if term_of(k) == ta]
                if hits:
                    return hits[-1][1]
                d = args[1] if len(args) > 1 else Const(None)
                if name == "setdefault":
                    recv.entries.append((a0, d, g))
                    return d
                if not recv.entries:
                    return d
                return self.mk_alt([(self.mk_atom(f"{show_term(ta)} in dict#{recv.serial}", kind="in", node=node), Sym(("index", term_of(recv), ta))), (f_not(self.mk_atom(f"{show_term(ta)} in dict#{recv.serial}", kind="in", node=node)), d)])
            if name == "update":
                for a in args:
                    if isinstance(a, DictV):
                        recv.entries += [(k, v, f_and([g, gg])) for k, v, gg in a.entries]
                for k, v in kwargs.items():
                    recv.entries.append((Const(k), v, g))
                return Const(None)
            if name == "copy":
                return DictV(list(recv.entries), self.serial())
        if isinstance(recv, Const) and isinstance(recv.value, str):
            if name in ("startswith", "endswith") and isinstance(a0, Const) and isinstance(a0.value, str):
                return Const(getattr(recv.value, name)(a0.value))
            if name in ("startswith", "endswith"):
                s = Sym(("strtest", name, term_of(recv), *[term_of(a) for a in args]))
                self.atom_info.setdefault(show_term(s.term), {"kind": "strtest", "term": s.term, "node": node, "fi": fr.fi if fr else None, "args": list(args), "recv": term_of(recv)})
                return s
            if name == "join" and a0 is not None:
                return Sym(("call", "join", term_of(recv), term_of(a0)))
            if name in ("replace", "lower", "upper", "strip", "format", "split", "rstrip", "lstrip") and all(isinstance(a, Const) for a in args) and not kwargs:
                try:
                    r = getattr(recv.value, name)(*[a.value for a in args])
                    if isinstance(r, str):
                        return Const(r)
                except Exception:  # noqa: BLE001
                    pass
        if isinstance(recv, Tup) and name in ("index", "count"):
            return Sym(("call", name, term_of(recv)))
        return Sym(("call", name, term_of(recv), *[term_of(a) for a in args]))

    # ------------------------------------------------------------------ statements
    def exec_block(self, stmts: list, fr: Frame) -> tuple:
        """Returns (return/raise exit condition, continue/break exit condition), relative to the entry of the block."""
        rx: Formula = FALSE
        lx: Formula = FALSE
        rel: list = []
        for s in stmts:
            r, l = self.exec_stmt(s, fr)
            here = f_and(list(rel))
            if r != FALSE:
                rx = f_or([rx, f_and([here, r])])
            if l != FALSE:
                lx = f_or([lx, f_and([here, l])])
            ex = self.simp(f_or([r, l]))
            if ex == TRUE:
                break
            if ex != FALSE:
                self.path.append(f_not(ex))
                rel.append(f_not(ex))
        del self.path[len(self.path) - len(rel):]
        return rx, lx

    def exec_stmt(self, s: ast.stmt, fr: Frame) -> tuple:
        saved, self.pending = self.pending, []
        try:
            r, l = self._exec_stmt(s, fr)
        except RecursionError:
            raise
        except Exception as ex:  # noqa: BLE001
            self.note(f"statement failed `{ast.unparse(s)[:60]}`: {type(ex).__name__}: {ex}")
            r, l = FALSE, FALSE
        mine, self.pending = self.pending, saved
        if mine and not isinstance(s, (ast.If, ast.For, ast.AsyncFor, ast.While, ast.Try, ast.With, ast.AsyncWith)):
            # an exception raised by a callee leaves this statement (and, uncaught, the frame)
            exc = f_or(mine)
            fr.raised.append(f_and([f_and(self.path[fr.base:]), exc]))
            r = f_or([r, exc])
        elif mine:
            # compound statements: the conditions of nested simple statements were already recorded; test expressions only
            exc = f_or(mine)
            fr.raised.append(f_and([f_and(self.path[fr.base:]), exc]))
            r = f_or([r, exc])
        return r, l

    def _exec_stmt(self, s: ast.stmt, fr: Frame) -> tuple:
        if isinstance(s, ast.Expr):
            if not isinstance(s.value, ast.Constant):
                self.eval(s.value, fr)
            return FALSE, FALSE
        if isinstance(s, ast.Assign):
            v = self.eval(s.value, fr)
            for t in s.targets:
                self.assign(t, v, fr)
            return FALSE, FALSE
        if isinstance(s, ast.AnnAssign):
            if s.value is not None:
                self.assign(s.target, self.eval(s.value, fr), fr)
            return FALSE, FALSE
        if isinstance(s, ast.AugAssign):
            cur = self.eval(s.target if not isinstance(s.target, ast.Name) else ast.Name(id=s.target.id, ctx=ast.Load()), fr) if isinstance(s.target, (ast.Name,)) else self.eval(_as_load(s.target), fr)
            v = self.eval(s.value, fr)
            if isinstance(cur, Coll) and isinstance(s.op, (ast.Add, ast.BitOr)):
                ents = self.iterate(v)
                if ents is None:
                    ents = [(Sym(("elem", term_of(v), self.fresh_iter())), TRUE)]
                g = self.guard()
                cur.entries += [(x, f_and([g, gx])) for x, gx in ents]
                return FALSE, FALSE
            self.assign(s.target, Sym(("binop", type(s.op).__name__, term_of(cur), term_of(v))), fr)
            return FALSE, FALSE
        if isinstance(s, ast.Return):
            v = self.eval(s.value, fr) if s.value is not None else Const(None)
            fr.returns.append((f_and(self.path[fr.base:]), v))
            return TRUE, FALSE
        if isinstance(s, ast.Raise):
            name = ""
            if s.exc is not None:
                name = ast.unparse(s.exc.func) if isinstance(s.exc, ast.Call) else ast.unparse(s.exc)
            self.events.append(Event("raise", name, None, [], {}, self.guard(), s, fr.fi))
            fr.raised.append(f_and(self.path[fr.base:]))
            return TRUE, FALSE
        if isinstance(s, (ast.Continue, ast.Break)):
            return FALSE, TRUE
        if isinstance(s, ast.If):
            t = self.simp(self.truth_expr(s.test, fr))
            if t == TRUE:
                return self.exec_block(s.body, fr)
            if t == FALSE:
                return self.exec_block(s.orelse, fr)
            before = dict(fr.env)
            self.path.append(t)
            r1, l1 = self.exec_block(s.body, fr)
            env1 = fr.env
            fr.env = dict(before)
            self.path[-1] = f_not(t)
            r2, l2 = self.exec_block(s.orelse, fr)
            self.path.pop()
            env2 = fr.env
            merged = {}
            for k in {*env1, *env2}:
                a, b = env1.get(k), env2.get(k)
                if a is b:
                    merged[k] = a
                elif a is None:
                    merged[k] = b
                elif b is None:
                    merged[k] = a
                else:
                    merged[k] = self.mk_alt([(t, a), (f_not(t), b)])
            fr.env = merged
            return f_or([f_and([t, r1]), f_and([f_not(t), r2])]), f_or([f_and([t, l1]), f_and([f_not(t), l2])])
        if isinstance(s, (ast.For, ast.AsyncFor)):
            itv = self.eval(s.iter, fr)
            ents = self.iterate(itv)
            if ents is None:
                ents = [(Sym(("elem", term_of(itv), self.fresh_iter())), TRUE)]
            rx: Formula = FALSE
            for x, g in ents[:MAX_ENTRIES]:
                if g == FALSE:
                    continue
                self.path.append(g)
                self.assign(s.target, x, fr)
                r, _l = self.exec_block(s.body, fr)
                self.path.pop()
                if r != FALSE:
                    rx = f_or([rx, f_and([g, r])])
            if s.orelse:
                r, l = self.exec_block(s.orelse, fr)
                rx = f_or([rx, r])
            return rx, FALSE
        if isinstance(s, ast.While):
            t = self.truth_expr(s.test, fr)
            if t == FALSE:
                return FALSE, FALSE
            self.path.append(f_and([t, self.taint("while-loop", s)]) if t != TRUE else self.taint("while-loop", s))
            r, _l = self.exec_block(s.body, fr)
            self.path.pop()
            return (r if r != TRUE else self.taint("while-exit", s)), FALSE
        if isinstance(s, ast.Try):
            r, l = self.exec_block(s.body, fr)
            for h in s.handlers:
                self.path.append(self.taint("except-handler", h))
                if h.name:
                    fr.env[h.name] = Sym(("exception", getattr(h, "lineno", 0)))
                self.exec_block(h.body, fr)
                self.path.pop()
            self.exec_block(s.orelse, fr)
            self.exec_block(s.finalbody, fr)
            self.try_nodes.append((fr.fi, s))
            return (r if r != TRUE else self.taint("try-exit", s)), l
        if isinstance(s, (ast.With, ast.AsyncWith)):
            for it in s.items:
                v = self.eval(it.context_expr, fr)
                if it.optional_vars is not None:
                    self.assign(it.optional_vars, v, fr)
            return self.exec_block(s.body, fr)
        if isinstance(s, (ast.FunctionDef, ast.AsyncFunctionDef)):
            nf = getattr(s, "_func", None)
            fr.env[s.name] = Fn(nf, None, fr) if nf is not None else Sym(("def", s.name))
            return FALSE, FALSE
        if isinstance(s, ast.Assert):
            t = self.simp(self.truth_expr(s.test, fr))
            if t == TRUE:
                return FALSE, FALSE
            self.path.append(f_not(t))
            self.events.append(Event("raise", "AssertionError", None, [], {}, self.guard(), s, fr.fi))
            fr.raised.append(f_and(self.path[fr.base:]))
            self.path.pop()
            return f_not(t), FALSE
        if isinstance(s, (ast.Pass, ast.Import, ast.ImportFrom, ast.Global, ast.Nonlocal, ast.Delete, ast.ClassDef)):
            return FALSE, FALSE
        if isinstance(s, ast.Match):
            self.path.append(self.taint("match-statement", s))
            for c in s.cases:
                self.exec_block(c.body, fr)
            self.path.pop()
            return FALSE, FALSE
        self.note(f"statement kind {type(s).__name__}")
        return FALSE, FALSE

    def assign(self, target: ast.expr, v: Val, fr: Frame) -> None:
        if isinstance(target, ast.Name):
            fr.env[target.id] = v
            return
        if isinstance(target, (ast.Tuple, ast.List)):
            n = len(target.elts)
            if isinstance(v, Alt):
                parts = []
                for i in range(n):
                    parts.append(self.mk_alt([(g, self._component(o, i, n)) for g, o in v.options]))
            else:
                parts = [self._component(v, i, n) for i in range(n)]
            for t, p in zip(target.elts, parts):
                self.assign(t.value if isinstance(t, ast.Starred) else t, p, fr)
            return
        if isinstance(target, ast.Attribute):
            self.set_field(self.eval(target.value, fr), target.attr, v, target, fr)
            return
        if isinstance(target, ast.Subscript):
            obj = self.eval(target.value, fr)
            key = self.eval(target.slice, fr)
            g = self.guard()
            if isinstance(obj, DictV):
                obj.entries.append((key, v, g))
            elif isinstance(obj, Alt):
                for gg, o in obj.options:
                    if isinstance(o, DictV):
                        o.entries.append((key, v, f_and([g, gg])))
            else:
                self.events.append(Event("store", "[]", obj, [key, v], {}, g, target, fr.fi))
            return
        if isinstance(target, ast.Starred):
            self.assign(target.value, v, fr)

    def _component(self, v: Val, i: int, n: int) -> Val:
        v = self.as_tuple(v) or v
        if isinstance(v, Tup) and len(v.items) == n:
            return v.items[i]
        if isinstance(v, Coll) and len(v.entries) == n and all(g == TRUE for _x, g in v.entries):
            return v.entries[i][0]
        return Sym(("index", term_of(v), ("const", str(i))))

    # ------------------------------------------------------------------ driver helpers
    def new_frame(self, fi: FuncInfo) -> Frame:
        return Frame(fi, {}, None, None, len(self.path))

    def call_method(self, obj: Val, name: str, args: list, kwargs: dict | None = None) -> Val:
        f = self.getattr(obj, name, None, None)
        return self.apply(f, args, kwargs or {}, None, None)


def _own(fn: ast.AST):
    from core.loader import own_nodes

    if isinstance(fn, ast.Lambda):
        return []
    return own_nodes(fn)


_TABLE_WRAPPERS = {"tuple", "list", "set", "frozenset", "dict"}
_TABLE_MAKERS = {"itemgetter", "attrgetter", "methodcaller", "partial", "namedtuple", "NamedTuple"}  # pure constructors of callables / record classes


def _literal_table(e: ast.expr) -> bool:
    """A display of constants, names, attribute chains, lambdas and nested displays (see Interp.module_table)."""
    if isinstance(e, (ast.Constant, ast.Lambda, ast.Name)):
        return True
    if isinstance(e, ast.Attribute):
        return _literal_table(e.value)
    if isinstance(e, ast.JoinedStr):
        return all(isinstance(p, ast.Constant) or (isinstance(p, ast.FormattedValue) and _literal_table(p.value)) for p in e.values)
    if isinstance(e, (ast.Tuple, ast.List, ast.Set)):
        return all(_literal_table(x.value if isinstance(x, ast.Starred) else x) for x in e.elts)
    if isinstance(e, ast.Dict):
        return all((k is None or _literal_table(k)) and _literal_table(v) for k, v in zip(e.keys, e.values))
    if isinstance(e, ast.Call) and isinstance(e.func, ast.Name) and e.func.id in _TABLE_WRAPPERS and not e.keywords:
        return all(_literal_table(a) for a in e.args)
    if isinstance(e, ast.Call) and isinstance(e.func, (ast.Name, ast.Attribute)) and (e.func.id if isinstance(e.func, ast.Name) else e.func.attr) in _TABLE_MAKERS:
        return all(_literal_table(a) for a in e.args) and all(k.arg is not None and _literal_table(k.value) for k in e.keywords)
    return False


def _as_load(t: ast.expr) -> ast.expr:
    import copy

    c = copy.copy(t)
    c.ctx = ast.Load()  # type: ignore[attr-defined]
    return c


# --------------------------------------------------------------------------- formula utilities


def assign_atoms(f: Formula, env: dict[str, bool]) -> Formula:
    """Partial evaluation: atoms of `env` replaced by constants, the rest simplified."""
    tag = f[0]
    if tag == "const":
        return f
    if tag == "atom":
        return (TRUE if env[f[1]] else FALSE) if f[1] in env else f
    if tag == "not":
        return f_not(assign_atoms(f[1], env))
    parts = [assign_atoms(g, env) for g in f[1]]
    return f_and(parts) if tag == "and" else f_or(parts)


def depends_on(f: Formula, name: str) -> bool:
    """Semantic dependence of a formula on one atom (exhaustive over the other atoms, bounded)."""
    if name not in atoms_of(f):
        return False
    others = sorted(atoms_of(f) - {name})
    if len(others) > 12:
        return True
    import itertools

    for vals in itertools.product([False, True], repeat=len(others)):
        env = dict(zip(others, vals))
        if evaluate(f, {**env, name: True}) != evaluate(f, {**env, name: False}):
            return True
    return False


def tainted(f: Formula) -> list[str]:
    return sorted(a for a in atoms_of(f) if a.startswith("?"))
