"""C01 - module-rule verdicts equal the documented rule semantics (dispatch tables and search discipline).

  C01.T1  which graph questions a (verb, except) rule asks        (decision table vs LANGUAGE_DEFINTION.md)
  C01.T2  flag -> query result -> violation bucket -> judging mode (vs the Semantics block)
  C01.T3  no starved bucket / no unread question
  C01.T4  direction: swap parity of importer/importee, orientation of the 'other' queries, evaluation-local matcher state
  C01.T5  fluent method -> configuration effect table; 'anything' alias rewrite
  C01.T6  verdict: AssertionError raised exactly on a truthy RuleViolations covering all buckets
  C01.S   search discipline: hierarchy/import classification before use, push/record/mark conditions, object sets

T1-T6 are decided on an *abstract interpretation of the public entry point* `Rule.assert_applies` (rules/absint.py, rules/tables.py):
for each of the 6 legal (verb, except) points x 2 directions (and the two 'anything' aliases) the pipeline is evaluated with
concrete configuration flags and symbolic data.  The rules read the resulting *events* - which graph question was asked with which
arguments, which requirement objects were built from what, which elements reach which violation bucket under which condition, when
AssertionError is raised - and never the names of private helpers, fields or locals.
"""

from __future__ import annotations

import ast

from core.guards import FALSE, TRUE, atom, atoms_of, equivalent, evaluate, f_and, f_not, f_or, implies, satisfiable, show  # noqa: F401
from core.loader import AnalysisError, FuncInfo, Repo, own_nodes
from core.report import Result

from .absint import BoolF, Coll, Const, DictV, Inst, Interp, Sym, assign_atoms, roots_of, show_term, subterms, tainted, term_of
from .common import where
from .tables import (  # noqa: F401
    EVALUABLE_CLS, EXPLICIT_QUERY, LEGAL_POINTS, MATCHER, MODREQ, OTHER_QUERIES, RULE,
    Inliner, Run, Scenario, alias_scenarios, bound_args, bucket_wiring, demand_run, descend_pipeline, legal_scenarios, parse_language_doc, plain_detector_class,
    plain_mode, point_name, point_taint, run_scenario, simple_helper, violations_class,
)

SUCC = "direct_successor_nodes"
PRED = "direct_predecessor_nodes"


def _site(run: Run, fallback: FuncInfo | None = None) -> tuple[str, str]:
    """(construct prefix, where) of the place a rule evaluation asks its questions: the function holding the query call."""
    if run.queries:
        q = run.queries[0]
        return f"{q.fi.relpath}::{q.fi.qualname}", where(q.fi, q.node)
    if run.matcher is not None:
        return f"{run.matcher.cls.module.relpath}::{run.matcher.cls.name}", ""
    return f"{RULE}::Rule.assert_applies", ""


def _asked(run: Run) -> set[str]:
    return {"explicit" if q.name == EXPLICIT_QUERY else "other" for q in run.queries if _sat(q.guard)}


def _asked_taint(*runs: Run) -> str:
    """Non-empty when a question is asked under a condition the interpreter could not evaluate (the configuration flags are
    concrete in every evaluated rule, so such a condition stems from a computation the interpreter does not model): whether the
    question is asked at this point is then not known."""
    for run in runs:
        for q in run.queries:
            if q.guard not in (TRUE, FALSE) and _sat(q.guard) and _sat(f_not(q.guard)):
                return f"`{q.name}` is asked under `{show(q.guard)[:140]}`, a condition the interpreter could not evaluate"
    return ""


def _sat(f) -> bool:
    try:
        return satisfiable(f)
    except AnalysisError:
        return True


def _add(res: Result, rule: str, construct: str, ok: bool, detail: str, where_: str = "", kind: str = "structural", taint=None, nontrivial: bool = True) -> None:
    """A failed obligation whose evidence passes through a construct the interpreter does not model is *undecided*."""
    if not ok and taint:
        res.undecide(rule, construct, f"{detail} - but the evidence depends on {taint}", where_)
        return
    res.add(rule, construct, ok, detail, where_, nontrivial, kind)


# --------------------------------------------------------------------------- T1


def run_t1(repo: Repo, res: Result, inl: Inliner | None, markers: dict) -> None:
    doc = {"explicit": markers["edge"] | markers["neg edge"], "other": markers["any"] | markers["neg any"]}
    sites: dict = {}
    for sc in legal_scenarios():
        run = run_scenario(repo, sc)
        for q in run.queries:
            sites.setdefault("explicit" if q.name == EXPLICIT_QUERY else "other", q)
    probe = run_scenario(repo, Scenario("should", False, True))
    matcher_cls = probe.matcher.cls if probe.matcher is not None else repo.cls(MATCHER, "RuleMatcher")
    for kind in ("explicit", "other"):
        q = sites.get(kind)
        prefix = f"{q.fi.relpath}::{q.fi.qualname}" if q is not None else f"{matcher_cls.module.relpath}::{matcher_cls.name}"
        loc = where(q.fi, q.node) if q is not None else ""
        for verb, exc in LEGAL_POINTS:
            want = (verb, exc) in doc[kind]
            got = {imp: kind in _asked(run_scenario(repo, Scenario(verb, exc, imp))) for imp in (True, False)}
            ok = all(g == want for g in got.values())
            said = "asked" if all(got.values()) else "not asked" if not any(got.values()) else f"asked only for {'import' if got[True] else 'be-imported-by'} rules"
            _add(
                res, "C01.T1",
                f"{prefix}::{kind} question @ {point_name(verb, exc)}",
                ok,
                f"'{point_name(verb, exc)}': the {kind} graph question is {said}, documented: {'asked' if want else 'not asked'}",
                loc,
                "decision-table", _asked_taint(*[run_scenario(repo, Scenario(verb, exc, imp)) for imp in (True, False)]),
            )
    # every legal rule shape is evaluated up to the verdict: no exception on the way
    for sc in legal_scenarios():
        run = run_scenario(repo, sc)
        fatal = [e for e in run.other_raises if e.guard == TRUE or not _sat(f_not(e.guard))]
        if fatal:
            e = fatal[0]
            res.add(
                "C01.T1", f"{e.fi.relpath}::{e.fi.qualname}::raise {e.name} @ {sc.name}", False,
                f"'{sc.name}' is a legal rule, but its evaluation raises {e.name} in {e.fi.qualname} before any verdict is reached",
                where(e.fi, e.node), kind="decision-table",
            )
    # between them, the two 'other' queries cover both directions (one each)
    used = {imp: {q.name for v, e in LEGAL_POINTS for q in run_scenario(repo, Scenario(v, e, imp)).queries if q.name in OTHER_QUERIES} for imp in (True, False)}
    ok = all(len(u) == 1 for u in used.values()) and used[True] != used[False]
    q = sites.get("other")
    res.add(
        "C01.T1",
        f"{q.fi.relpath}::{q.fi.qualname}::both 'other' queries reachable" if q is not None else f"{matcher_cls.module.relpath}::{matcher_cls.name}::both 'other' queries reachable",
        ok,
        f"'other' question: import rules use {sorted(used[True])}, be-imported-by rules use {sorted(used[False])}",
        where(q.fi, q.node) if q is not None else "",
        kind="decision-table",
    )


# --------------------------------------------------------------------------- T2 / T3


def run_t2_t3(repo: Repo, res: Result, inl: Inliner | None, sem: dict) -> None:
    grv, buckets = bucket_wiring(repo, inl)
    viol = violations_class(repo)
    table = {}
    for verb, exc in LEGAL_POINTS:
        want = sem[(verb, exc)]
        per_dir = {}
        und = ""
        for imp in (True, False):
            b = demand_run(repo, Scenario(verb, exc, imp))
            per_dir[imp] = {(x.source, x.mode) for x in b.values() if not x.empty}
        und = point_taint(repo, verb, exc)
        active = per_dir[True] | per_dir[False]
        ok = per_dir[True] == want and per_dir[False] == want
        table[point_name(verb, exc)] = sorted(map(str, active))
        _add(
            res, "C01.T2", f"{grv.relpath}::{grv.qualname}::buckets @ {point_name(verb, exc)}", ok,
            f"'{point_name(verb, exc)}' judges {sorted(map(str, active))}; documented semantics: {sorted(want)}"
            + ("" if per_dir[True] == per_dir[False] else f" (import rules: {sorted(map(str, per_dir[True]))}, be-imported-by rules: {sorted(map(str, per_dir[False]))})"),
            where(grv, grv.node), "decision-table", und,
        )
        # T3: sources read by the active buckets == questions asked
        for imp in (True, False):
            sc = Scenario(verb, exc, imp)
            used = {s for s, _m in per_dir[imp]}
            asked = _asked(run_scenario(repo, sc))
            if imp and used == asked and {s for s, _m in per_dir[False]} == _asked(run_scenario(repo, Scenario(verb, exc, False))):
                res.add("C01.T3", f"{grv.relpath}::{grv.qualname}::starvation @ {point_name(verb, exc)}", True, f"'{point_name(verb, exc)}': buckets read {sorted(map(str, used))}, questions asked {sorted(asked)}", where(grv, grv.node), kind="decision-table")
                break
            if used != asked:
                _add(
                    res, "C01.T3", f"{grv.relpath}::{grv.qualname}::starvation @ {point_name(verb, exc)}", False,
                    f"'{sc.name}': buckets read {sorted(map(str, used))}, questions asked {sorted(asked)}"
                    + (": a bucket whose data is never requested receives None and passes vacuously" if used - asked else ": a question is asked whose answer no bucket reads"),
                    where(grv, grv.node), "decision-table", und or _asked_taint(run_scenario(repo, sc)),
                )
                break
    res.analysed["bucket_table"] = table
    # judging granularity of every bucket of the plain detector
    call_of = {b.field: b for b in buckets}
    for f in viol.ann_attrs:
        mode, gran, detail, und = plain_mode(repo, f)
        b = call_of.get(f)
        helper = repo.lookup_method(plain_detector_class(repo), b.method) if b is not None and b.method else None
        prefix = f"{helper.relpath}::{helper.qualname}" if helper is not None else f"{grv.relpath}::{grv.qualname}"
        ok = (mode, gran) in (("absent", "per-key"), ("present", "per-pair"))
        if mode is None:
            _add(res, "C01.T2", f"{prefix}::granularity of {f}", False, f"{f} is never filled at any legal (verb, except) point: violations of one rule shape can never be reported", where(helper, helper.node) if helper is not None else where(grv, grv.node), "structural", und)
            continue
        _add(
            res, "C01.T2", f"{prefix}::granularity of {f}", ok,
            f"{f}: {mode} mode judged {gran}" + ("" if ok else (": requirements of a module rule must be judged per subject/object pair resp. per subject, not jointly" if mode == "absent" else ": realised pairs are filtered before being reported") + (f" [{detail}]" if detail else "")),
            where(helper, helper.node) if helper is not None else where(grv, grv.node), "structural", und,
        )


# --------------------------------------------------------------------------- T4


def _side(v) -> set:
    return roots_of(v) & {"S", "O"}


def _expansions_in(node: ast.AST) -> set[str]:
    """Neighbour expansions named in a piece of code: `graph.direct_successor_nodes`, also as getattr(graph, "direct_...")."""
    out: set[str] = set()
    for n in ast.walk(node):
        if isinstance(n, ast.Attribute) and n.attr in (SUCC, PRED):
            out.add(n.attr)
        elif isinstance(n, ast.Constant) and n.value in (SUCC, PRED):
            out.add(n.value)
    return out


def _reachable_units(repo: Repo, fi: FuncInfo) -> list[ast.AST]:
    """The function and everything of the repo it can reach by name: functions and *classes* (all their methods: traversal
    objects, iterator protocols, strategy classes) of its own module or imported from another repo module."""
    seen: set[str] = set()
    units: list[ast.AST] = []
    work: list = [fi]
    while work:
        u = work.pop()
        key = u.fq
        if key in seen:
            continue
        seen.add(key)
        node = u.node
        units.append(node)
        mod = u.module
        for n in ast.walk(node):
            if not isinstance(n, ast.Name) or not isinstance(n.ctx, ast.Load):
                continue
            target = None
            if n.id in mod.functions:
                target = mod.functions[n.id]
            elif n.id in mod.classes:
                target = mod.classes[n.id]
            elif n.id in mod.imports:
                fq = repo.resolve_name(mod, n)
                m2, _, attr = (fq or "").rpartition(".")
                om = repo.modules.get(m2)
                if om is not None:
                    target = om.functions.get(attr) or om.classes.get(attr)
            if target is not None:
                work.append(target)
    return units


def search_direction(repo: Repo, fi: FuncInfo) -> str | None:
    """pred | succ: which neighbours a search function of breadth_first_searches expands to find import edges.

    A backward search reaches a `direct_predecessor_nodes` expansion (it may also walk down the hierarchy through successors);
    a forward search reaches successor expansions only.  No inner shape is required: (0) the search model, when it can read the
    searches, knows in which direction each public search walks *as it is called* (the walk may live in a helper class or in a helper
    shared by both directions); (1) otherwise an expansion named in the function's own body decides; (2) otherwise the function is
    *interpreted* with a symbolic graph and the expansions it actually asks the graph for are observed (traversal classes, iterator
    protocols, a direction chosen by a constant argument are followed); (3) otherwise everything reachable by name is scanned."""
    dirs = repo.__dict__.get("_search_directions")
    if dirs is None:
        dirs = {}
        try:
            from . import search as S

            dirs = {m.base.fq: m.direction for m in S.models(repo) if m.base is not None}
        except AnalysisError:
            pass  # shape not modelled: the routes below decide; C01.S reports the model's failure
        repo.__dict__["_search_directions"] = dirs
    if fi.fq in dirs:
        return dirs[fi.fq]
    cache = repo.__dict__.setdefault("_c01_search_dir", {})
    if fi.fq in cache:
        return cache[fi.fq]
    own = _expansions_in(fi.node)
    if PRED in own:
        cache[fi.fq] = "pred"
        return "pred"
    observed: set[str] = set()
    try:
        home = fi.module.name
        I = Interp(repo, lambda f: f.module.name == home or ((f.cls is None or f.is_staticmethod) and f.outer is None and simple_helper(f)))
        args = [Sym(("root", p)) for p in fi.param_names]
        I.invoke(fi, None, args, {}, None, None, None)
        observed = {e.name for e in I.events if e.kind == "call" and e.name in (SUCC, PRED)}
    except (AnalysisError, RecursionError):
        observed = set()
    if observed:
        d = "pred" if PRED in observed else "succ"
    else:
        attrs: set[str] = set()
        for u in _reachable_units(repo, fi):
            attrs |= _expansions_in(u)
        d = "pred" if PRED in attrs else "succ" if SUCC in attrs else None
    cache[fi.fq] = d
    return d


def _stub(f: FuncInfo) -> bool:
    """Body is only a docstring / `...` / `pass` / `raise NotImplementedError` (protocol or abstract declaration)."""
    for st in f.node.body:
        if isinstance(st, ast.Expr) and isinstance(st.value, ast.Constant):
            continue
        if isinstance(st, ast.Pass):
            continue
        if isinstance(st, ast.Raise) and st.exc is not None and "NotImplemented" in ast.unparse(st.exc):
            continue
        return False
    return True


def graph_query_model(repo: Repo, qname: str) -> dict:
    """How EvaluableArchitectureGraph.<qname> builds its answer: {direction, entries: [(key roots, scalar arg roots, collection arg roots)]}."""
    proto = repo.classes.get(EVALUABLE_CLS)
    impls = [i for i in (repo.implementations(proto, qname) if proto is not None else []) if not i.is_abstract and i.cls is not None and i.cls is not proto and not _stub(i)]
    if len(impls) != 1:
        raise AnalysisError(f"expected exactly one concrete implementation of EvaluableArchitecture.{qname}, found {[i.fq for i in impls]}")
    m = impls[0]
    eg = m.cls
    home = eg.module.name
    I = Interp(repo, lambda f: (f.module.name == home and (f.cls is None or any(c.fq == f.cls.fq for c in repo.mro(eg)))) or ((f.cls is None or f.is_staticmethod) and f.outer is None and simple_helper(f)))
    inst = I.instantiate(eg, [Sym(("root", "graph"))], {}, None, None)
    p1, p2 = Sym(("root", "P1"), "list"), Sym(("root", "P2"), "list")
    out = I.call_method(inst, qname, [p1, p2])
    searches = [e for e in I.events if e.kind == "call" and e.callee is not None and search_direction(repo, e.callee) is not None]
    dirs = {search_direction(repo, e.callee) for e in searches}
    entries = []
    if isinstance(out, DictV):
        for k, v, _g in out.entries:
            call = next((e for e in searches if e.result is not None and term_of(e.result) in set(subterms(term_of(v)))), None)
            scalar, coll = set(), set()
            if call is not None:
                for a in [*call.args, *call.kwargs.values()]:  # (keyword arguments too: partial(search, graph, dependent_upons=..))
                    r = roots_of(a) & {"P1", "P2"}
                    if not r:
                        continue
                    t = term_of(a)
                    if any(isinstance(st, tuple) and st and st[0] == "elem" for st in subterms(t)) and not isinstance(a, Coll):
                        scalar |= r
                    else:
                        coll |= r
            entries.append((roots_of(k) & {"P1", "P2"}, scalar, coll, call))
    # the search whose result becomes the answer decides the orientation (helper searches - e.g. the sub-module closure of the
    # objects - may run in the same method)
    feeding = {search_direction(repo, c.callee) for _k, _s, _c, c in entries if c is not None}
    if feeding:
        dirs = feeding
    return {"method": m, "directions": dirs, "entries": entries, "searches": searches, "notes": I.notes, "result": out}


def run_t4(repo: Repo, res: Result, inl: Inliner | None) -> None:
    probe = run_scenario(repo, Scenario("should", False, True))
    mr_cls = probe.modreq_new[0].result.cls if probe.modreq_new else repo.cls(MODREQ, "ModuleRequirement")
    # (a) what the accessors of a requirement built as ModuleRequirement(A, B, flag) return
    for acc, exchanged in (("importers_as_specified_by_user", False), ("importees_as_specified_by_user", False), ("importers", True), ("importees", True)):
        got = {}
        for flag in (True, False):
            I = Interp(repo, descend_pipeline)
            inst = I.instantiate(mr_cls, [Sym(("root", "S"), "list"), Sym(("root", "O"), "list"), Const(flag)], {}, None, None)
            got[flag] = _side(I.getattr(inst, acc, None, None)) if isinstance(inst, Inst) else set()
        first = acc.startswith("importers")
        want = {True: {"S"} if first else {"O"}, False: ({"O"} if first else {"S"}) if exchanged else ({"S"} if first else {"O"})}
        ok = got == want
        m = repo.lookup_method(mr_cls, acc)
        res.add(
            "C01.T4",
            f"{mr_cls.module.relpath}::{mr_cls.name}.{acc}::exchange",
            ok,
            f"{acc} of ModuleRequirement(a, b, importer_is_subject) is {'a / b exchanged exactly for be-imported-by rules' if exchanged else 'the side as given'}" if ok
            else f"ModuleRequirement(a, b, flag).{acc} yields {'/'.join(sorted(got[True])) or '?'} for import rules and {'/'.join(sorted(got[False])) or '?'} for be-imported-by rules (a=S, b=O): "
            + ("importers/importees must be exchanged exactly when the rule is written 'be imported by'" if exchanged else "the as-specified accessor must not be affected by the exchange"),
            where(m, m.node) if m is not None else "",
            kind="decision-table",
        )
    # (b) the requirement objects built on the way, and the arguments of every question
    seen_sites: set = set()
    for sc in legal_scenarios():
        run = run_scenario(repo, sc)
        subj, obj = ("S", "O")
        imp = sc.import_
        for n, e in enumerate(run.modreq_new):
            key = (id(e.node), imp)
            if key in seen_sites:
                continue
            seen_sites.add(key)
            eargs = bound_args(repo, e)
            if len(eargs) < 3:
                res.undecide("C01.T4", f"{e.fi.relpath}::{e.fi.qualname}::ModuleRequirement(...)", "the constructor arguments could not be bound to (importers, importees, flag)", where(e.fi, e.node) if e.node is not None else "")
                continue
            a0, a1 = _side(eargs[0]), _side(eargs[1])
            flag = eargs[2]
            ok = a0 == {subj} and a1 == {obj} and isinstance(flag, Const) and flag.value is imp
            what = "rule" if e.fi is not None and e.fi.cls is not None and any(c.fq == e.fi.cls.fq for c in repo.mro(run.rule.cls)) else "matcher"
            detail = (
                f"{e.fi.qualname if e.fi else '?'} builds ModuleRequirement(subjects, objects, import_) for {'import' if imp else 'be-imported-by'} rules" if ok
                else f"{e.fi.qualname if e.fi else '?'} builds ModuleRequirement from ({'/'.join(sorted(a0)) or '?'}, {'/'.join(sorted(a1)) or '?'}, {show_term(term_of(flag))}) for {'import' if imp else 'be-imported-by'} rules "
                f"(S = rule subjects, O = rule objects): the constructor applies the importer/importee exchange itself, so it must receive (subjects, objects, import_) - "
                + ("the exchange is applied an even number of times for be-imported-by rules" if what == "matcher" else "subjects and objects are confused")
            )
            res.add("C01.T4", f"{e.fi.relpath}::{e.fi.qualname}::ModuleRequirement(...) [{'import' if imp else 'be imported by'}]", ok, detail, where(e.fi, e.node) if e.node is not None else "", kind="flow")
        for q in run.queries:
            key = (id(q.node), q.name, imp)
            if key in seen_sites:
                continue
            seen_sites.add(key)
            qargs = bound_args(repo, q)
            if len(qargs) < 2:
                res.undecide("C01.T4", f"{q.fi.relpath}::{q.fi.qualname}::{q.name} arguments", "the arguments of the graph question could not be bound to (dependents, dependent_upons)", where(q.fi, q.node))
                continue
            a0, a1 = _side(qargs[0]), _side(qargs[1])
            want0, want1 = ({subj}, {obj}) if imp else ({obj}, {subj})
            ok = a0 == want0 and a1 == want1
            res.add(
                "C01.T4",
                f"{q.fi.relpath}::{q.fi.qualname}::{q.name} arguments [{'import' if imp else 'be imported by'}]",
                ok,
                f"query receives (importers, importees) = ({'subjects, objects' if imp else 'objects, subjects'}) of the converted requirement" if ok
                else f"query `{q.name}` receives ({'/'.join(sorted(a0)) or '?'}, {'/'.join(sorted(a1)) or '?'}) for {'import' if imp else 'be-imported-by'} rules (S = subjects, O = objects): expected ({'/'.join(want0)}, {'/'.join(want1)}) - importers first, importees second",
                where(q.fi, q.node),
                kind="flow",
            )
    # (c) every evaluation asks its questions with modules converted for *its* evaluable: the same rule object is evaluated a second
    # time against another evaluable; where the second evaluation is stale, the matcher state that carries the first evaluation's
    # data over is named (a field read on entry of an evaluation and overwritten with evaluable-derived data)
    from .tables import run_twice

    for imp in (True, False):
        sc = Scenario("should_only", False, imp)
        first, second = run_twice(repo, sc)
        stale = [q for q in second if "evaluable" in set().union(roots_of(q.recv), *[roots_of(a) for a in bound_args(repo, q)])]
        carriers = []
        for inst in first.interp.instances:
            if inst is first.rule or inst is first.config0:
                continue
            for fld in sorted(set(inst.entry_reads) & set(inst.late_writes)):
                for value, fi, node in inst.late_writes[fld]:
                    if "evaluable" in roots_of(value) or (isinstance(value, Inst) and any("evaluable" in roots_of(x) for x in value.fields.values())):
                        carriers.append((inst, fld, fi, node))
        site = first.queries[0] if first.queries else None
        prefix = f"{site.fi.relpath}::{site.fi.qualname}" if site is not None else "rule evaluation"
        tag = "import" if imp else "be imported by"
        if not stale:
            res.add("C01.T4", f"{prefix}::questions of a second evaluation [{tag}]", True, "a second evaluation of the same rule object asks its questions with modules converted against its own evaluable", where(site.fi, site.node) if site else "", kind="flow")
        elif carriers:
            inst, fld, fi, node = carriers[0]
            res.add(
                "C01.T4", f"{fi.relpath}::{fi.qualname}::state `{fld}` of {inst.cls.name} [{tag}]" if fi else f"state `{fld}` [{tag}]", False,
                f"`{inst.cls.name}.{fld}` is read at the start of an evaluation and overwritten with a value derived from the evaluable being checked; the object survives the evaluation, so a second evaluation "
                f"(another evaluable) asks `{stale[0].name}` with the first one's converted modules",
                where(fi, node) if fi and node is not None else "", kind="flow",
            )
        else:
            q = stale[0]
            res.add("C01.T4", f"{q.fi.relpath}::{q.fi.qualname}::questions of a second evaluation [{tag}]", False, f"a second evaluation of the same rule object asks `{q.name}` with modules converted against the previous evaluable", where(q.fi, q.node), kind="flow")
    # (d) orientation of the 'other' query chosen per direction, and the per-subject judgement inside it
    for imp in (True, False):
        used = sorted({q.name for v, e in LEGAL_POINTS for q in run_scenario(repo, Scenario(v, e, imp)).queries if q.name in OTHER_QUERIES})
        for qname in used:
            model = graph_query_model(repo, qname)
            m = model["method"]
            dirs = model["directions"]
            want_dir = "succ" if imp else "pred"
            site = next(q for v, e in LEGAL_POINTS for q in run_scenario(repo, Scenario(v, e, imp)).queries if q.name == qname)
            if len(dirs) != 1 or None in dirs:
                res.undecide("C01.T4", f"{m.relpath}::{m.qualname}::search", f"expected exactly one graph search behind `{qname}`, found directions {sorted(map(str, dirs))}", where(m, m.node))
                continue
            d = next(iter(dirs))
            ok = d == want_dir
            res.add(
                "C01.T4",
                f"{site.fi.relpath}::{site.fi.qualname}::{qname} [selected for {'import' if imp else 'be imported by'}]",
                ok,
                f"{qname} ({'forward' if d == 'succ' else 'backward'} search) is selected for {'import' if imp else 'be-imported-by'} rules" if ok
                else f"{qname} expands {'successors' if d == 'succ' else 'predecessors'} but is selected for {'import' if imp else 'be-imported-by'} rules: subject and 'something else' are on the wrong sides of the import",
                where(site.fi, site.node),
                kind="decision-table",
            )
            # per-subject: one search per element of the subject side (importers for the forward, importees for the backward search)
            subj_param = "P1" if d == "succ" else "P2"
            other_param = "P2" if d == "succ" else "P1"
            ents = model["entries"]
            okl = bool(ents) and all(k == {subj_param} and sc_ == {subj_param} and co == {other_param} for k, sc_, co, _c in ents)
            pname = m.param_names[1] if subj_param == "P1" else m.param_names[2]
            if not ents and model["notes"]:
                res.undecide("C01.T4", f"{m.relpath}::{m.qualname}::per-subject loop", f"the answer of `{qname}` is not built in a way the interpreter models ({'; '.join(model['notes'][:2])})", where(m, m.node))
                continue
            got = "; ".join(f"key from {'/'.join(sorted(k)) or '?'}, search({'/'.join(sorted(s_)) or '?'} against {'/'.join(sorted(c_)) or '?'})" for k, s_, c_, _c in ents) or "no entry"
            res.add(
                "C01.T4",
                f"{m.relpath}::{m.qualname}::per-subject loop",
                okl,
                f"one search per element of `{pname}` (the subject side) against all of the other side" if okl
                else f"the answer of {qname} is built as [{got}] (P1 = first, P2 = second argument): 'something else' must be judged per element of `{pname}` (the subject side) against the whole other side",
                where(m, m.node),
                kind="structural",
            )


# --------------------------------------------------------------------------- T5

# expected effect of every fluent method on the rule configuration (the documented vocabulary); `_next` is the marker that tells
# whether module names given next are rule subjects (True) or rule objects (False)
FLUENT_EFFECTS = {
    "modules_that": {"_next": True},
    "should": {"should": True},
    "should_only": {"should_only": True},
    "should_not": {"should_not": True},
    "import_modules_that": {"import_": True, "_next": False},
    "be_imported_by_modules_that": {"import_": False, "_next": False},
    "import_modules_except_modules_that": {"import_": True, "except_present": True, "_next": False},
    "be_imported_by_modules_except_modules_that": {"import_": False, "except_present": True, "_next": False},
    "import_anything": {"rule_object_anything": True, "import_": True, "_next": False},
    "be_imported_by_anything": {"rule_object_anything": True, "import_": False, "_next": False},
}


def _plain(v):
    if isinstance(v, Const):
        return v.value
    return show_term(term_of(v))


def method_effects(repo: Repo, name: str) -> tuple[dict, list]:
    """Effect of calling one fluent method on a fresh Rule: {configuration field / other Rule field: new value}."""
    from .tables import _find_config, _rule_class

    I = Interp(repo, descend_pipeline)
    rule = I.instantiate(_rule_class(repo), [], {}, None, None)
    if not isinstance(rule, Inst):
        raise AnalysisError("Rule() could not be instantiated by the interpreter")
    cfg_name, cfg = _find_config(rule)
    # give every field a distinguishable start value so that "set to its default" is still seen as an effect
    start_cfg = {k: term_of(v) for k, v in cfg.fields.items()}
    writes_before = {k: len(v) for k, v in cfg.late_writes.items()}
    rule_before = {k: term_of(v) for k, v in rule.fields.items()}
    rule_writes_before = {k: len(v) for k, v in rule.late_writes.items()}
    if repo.lookup_method(rule.cls, name) is None:
        raise AnalysisError(f"Rule.{name} not found")
    I.call_method(rule, name, [])
    eff: dict = {}
    cfg2 = rule.fields.get(cfg_name)
    if cfg2 is not cfg and isinstance(cfg2, Inst):
        for k, v in cfg2.fields.items():
            if term_of(v) != start_cfg.get(k):
                eff[k] = _plain(v)
    else:
        for k, ws in cfg.late_writes.items():
            if len(ws) > writes_before.get(k, 0):
                eff[k] = _plain(cfg.fields[k])
    for k, ws in rule.late_writes.items():
        if k != cfg_name and len(ws) > rule_writes_before.get(k, 0):
            eff["." + k] = _plain(rule.fields[k])
    return eff, list(I.notes)


def _safe_prefix_needle(t) -> bool:
    """The needle of a startswith test ends in the dot separator: f"{name}." / name + "."."""
    return isinstance(t, tuple) and len(t) >= 2 and t[0] == "fstr" and t[-1] == ("const", repr("."))


def _needle_kind(v) -> str:
    """safe | bare | unknown for the needle of `name.startswith(needle)`.

    safe: the needle - or *every* element of a tuple / list needle (`str.startswith(tuple)`), however it was built: literal,
    comprehension, generator, map over the names - ends in the dot separator (f"{name}." / name + "."); bare: it is (or contains) a
    whole module name without the separator; unknown: a collection whose elements are of another shape."""
    from .absint import Alt, Tup

    if isinstance(v, Alt):
        kinds = {_needle_kind(o) for _g, o in v.options}
        return "bare" if "bare" in kinds else "safe" if kinds == {"safe"} else "unknown"
    if isinstance(v, (Coll, Tup)):
        elems = [x for x, _g in v.entries] if isinstance(v, Coll) else list(v.items)
        kinds = {_needle_kind(x) for x in elems}
        return "bare" if "bare" in kinds else "safe" if kinds <= {"safe"} else "unknown"
    if isinstance(v, Const):
        return "safe" if isinstance(v.value, str) and v.value.endswith(".") else "bare"
    t = term_of(v)
    if _safe_prefix_needle(t):
        return "safe"
    if isinstance(t, tuple) and t and t[0] in ("copy", "keys", "values", "flat", "binop", "call", "slice"):
        # a collection (or derived value) the interpreter holds symbolically: bare if it is made of whole names only
        subs = list(subterms(t))
        if any(_safe_prefix_needle(st) for st in subs):
            return "unknown"
        return "bare" if any(_plain_name(st) for st in subs) else "unknown"
    return "bare"


def run_t5(repo: Repo, res: Result) -> None:
    rule = repo.cls(RULE, "Rule")
    effects = {}
    marker_fields: set = set()
    for name in FLUENT_EFFECTS:
        eff, _notes = method_effects(repo, name)
        effects[name] = eff
        marker_fields |= {k for k in eff if k.startswith(".")}
    # the subject/object marker: the (one) Rule field outside the configuration that the fluent methods set to constants;
    # its values are private vocabulary: whatever `modules_that()` stores means "subjects next", any other value "objects next"
    marker = next(iter(marker_fields)) if len(marker_fields) == 1 else None
    subjects_next = effects["modules_that"].get(marker) if marker else None
    object_values = {repr(effects[n].get(marker)) for n in FLUENT_EFFECTS if n != "modules_that" and marker in effects[n]}

    def marker_value(v):
        if v == subjects_next:
            return True
        return False if len(object_values) == 1 and repr(subjects_next) not in object_values else v

    for name, want in FLUENT_EFFECTS.items():
        got = {("_next" if k == marker else k): (marker_value(v) if k == marker else v) for k, v in effects[name].items()}
        m = repo.lookup_method(rule, name)
        res.add(
            "C01.T5",
            f"{m.relpath}::{m.qualname}::configuration effect",
            got == want,
            f"{name}() sets {got}" + ("" if got == want else f", documented vocabulary requires {want}"),
            where(m, m.node),
            kind="effect",
        )
    run_t5_names(repo, res)
    run_t5_alias_depth(repo, res)
    # every evaluation runs the whole pipeline afresh: a second evaluation of the same rule object converts, asks and judges
    # against *its* evaluable
    from .tables import run_twice

    aa0 = repo.lookup_method(rule, "assert_applies")
    for imp in (True, False):
        sc = Scenario("should_only", False, imp)
        first, second = run_twice(repo, sc)
        names1 = sorted(q.name for q in first.queries)
        names2 = sorted(q.name for q in second if _sat(q.guard))
        stale = [q for q in second if "evaluable" in set().union(roots_of(q.recv), *[roots_of(a) for a in bound_args(repo, q)])]
        ok = names1 == names2 and not stale
        res.add(
            "C01.T5", f"{aa0.relpath}::{aa0.qualname}::pipeline [{'import' if imp else 'be imported by'}]", ok,
            "assert_applies: alias rewrite -> validation -> matcher.match, afresh on every evaluation" if ok
            else (f"a second evaluation of the same rule asks `{stale[0].name}` with modules converted against the *previous* evaluable ({stale[0].fi.qualname})" if stale else f"a second evaluation of the same rule asks {names2} instead of {names1}")
            + ": assert_applies no longer runs conversion, questions and judgement afresh for the evaluable it is given",
            where(stale[0].fi, stale[0].node) if stale else where(aa0, aa0.node), kind="flow",
        )
    # 'anything' aliases: should not import anything  ==  should not import modules except <the subjects themselves>
    inl_roles = Inliner(repo)._role_of_param
    aa = repo.lookup_method(rule, "assert_applies")
    for sc in alias_scenarios():
        run = run_scenario(repo, sc)
        I = run.interp
        tag = "import" if sc.import_ else "be imported by"
        # behaviour requirement: verbs untouched, except flag set
        ok = len(run.behavior_new) == 1
        detail = f"{len(run.behavior_new)} behaviour requirement(s) built"
        taint = None
        if ok:
            e = run.behavior_new[0]
            init = repo.lookup_method(e.result.cls, "__init__")
            params = init.param_names[1:] if init else list(e.result.cls.ann_attrs)
            bound = dict(zip(params, bound_args(repo, e, params)))
            want = {"should": atom("cfg.should"), "should_only": atom("cfg.should_only"), "should_not": TRUE, "except_present": TRUE}
            bad = []
            for p, role in inl_roles.items():
                f = I.truth(bound[p]) if p in bound else FALSE
                try:
                    same = equivalent(f, want[role])
                except AnalysisError:
                    same = False
                if not same:
                    bad.append(f"{role} = {show(f)}")
                    taint = taint or (", ".join(tainted(f)) or None)
            ok = not bad
            detail = (
                "anything := except itself (except flag set, verbs untouched)" if ok
                else f"'should not {tag} anything' is evaluated with {', '.join(bad)}: the alias must become 'should not {tag} modules except <subjects>' (except flag set, every other verb flag passed on unchanged)"
            )
        _add(res, "C01.T5", f"{aa.relpath}::{aa.qualname}::alias rewrite [{tag} anything: flags]", ok, detail, where(aa, aa.node), "flow", taint)
        # module requirement: objects := subjects (the same modules), direction kept
        first = run.modreq_new[0] if run.modreq_new else None
        fargs = bound_args(repo, first) if first is not None else []
        ok = first is not None and len(fargs) >= 3
        detail = "no module requirement built"
        if ok:
            a0, a1, flag = fargs[:3]
            same = a0 is a1 or (isinstance(a0, Coll) and isinstance(a1, Coll) and len(a0.entries) == len(a1.entries) and all(term_of(x) == term_of(y) and _same(g, h) for (x, g), (y, h) in zip(a0.entries, a1.entries)))
            ok = same and roots_of(a0) == {"S"} and isinstance(flag, Const) and flag.value is sc.import_
            detail = (
                "rule objects := the (de-duplicated) rule subjects themselves" if ok
                else f"alias rewrite builds the requirement from subjects `{show_term(term_of(a0))[:90]}` and objects `{show_term(term_of(a1))[:90]}`: 'anything' must become 'except <the subjects themselves>' (objects = the very same modules)"
            )
        res.add("C01.T5", f"{aa.relpath}::{aa.qualname}::alias rewrite [{tag} anything: objects]", ok, detail, where(aa, aa.node), kind="flow")
        # de-duplication of the subjects: only strict dotted descendants of another subject may be dropped
        if first is not None and fargs and isinstance(fargs[0], Coll):
            subj = fargs[0]
            for x, g in subj.entries:
                t = term_of(x)
                okx = isinstance(t, tuple) and t[0] == "elem" and t[1] == ("root", "S")
                problems, unknown = [], []
                for a in sorted(atoms_of(g)):
                    info = I.atom_info.get(a, {})
                    k = info.get("kind")
                    if k == "strtest":
                        term = info["term"]
                        needle = _needle_kind(info["args"][0]) if info.get("args") else ("safe" if len(term) >= 4 and _safe_prefix_needle(term[3]) else "bare")
                        if term[1] == "startswith" and needle == "safe":
                            continue
                        if term[1] == "startswith" and needle == "unknown":
                            unknown.append(a)
                        else:
                            node = info.get("node")
                            problems.append(f"`{ast.unparse(node) if node is not None else a}` is not bounded by the dot separator: a sibling such as `pkg.utils` is dropped as if it were a sub module of `pkg.util`")
                    elif k == "eq" and all(_plain_name(t_) or _safe_prefix_needle(t_) for t_ in info.get("terms", ())):
                        continue  # equality of two whole names (or of a name part with `<name>.`)
                    else:
                        unknown.append(a)
                if unknown and not problems:
                    # tests of another shape (split / parents / slices): ask the shared F-NAME classification about the functions involved
                    verdicts = _fname_verdicts(repo, [I.atom_info.get(a, {}).get("fi") for a in unknown], run)
                    if verdicts.get("unsafe"):
                        problems += [f"{w} (F-NAME)" for w in verdicts["unsafe"][:2]]
                    elif not verdicts.get("unknown"):
                        # no string-relational operation on module names is left unexplained in the functions involved: the
                        # remaining tests compare whole names (equality / set membership, e.g. against get_parent_modules(..))
                        unknown = []
                fi, node = subj_made_at(I, subj, aa)
                cons = f"{fi.relpath}::{fi.qualname}::alias subjects [{tag} anything]"
                if not okx:
                    res.add("C01.T5", cons, False, f"the alias rewrite evaluates `{show_term(t)[:80]}` instead of the rule subjects", where(fi, node), kind="flow")
                elif problems:
                    res.add("C01.T5", cons, False, "a rule subject is dropped from the alias rewrite although it is not a sub module of another subject: " + "; ".join(problems), where(fi, node), kind="flow")
                elif unknown:
                    res.undecide("C01.T5", cons, f"a rule subject is kept under `{show(g)[:160]}`: the tests {unknown[:3]} are not recognised as 'is a strict dotted descendant of another subject'", where(fi, node))
                else:
                    res.add("C01.T5", cons, True, "subjects are only dropped when they are strict dotted descendants (prefix + '.') of another subject", where(fi, node), kind="flow")
        # the rewritten rule is evaluated as 'should not except'
        zero = {"cfg.should": False, "cfg.should_only": False, "cfg.except_present": False}
        asked = {"explicit" if q.name == EXPLICIT_QUERY else "other" for q in run.queries if _sat(assign_atoms(q.guard, zero))}
        ok = asked == {"other"}
        alias_taint = next((f"`{q.name}` is asked under `{show(assign_atoms(q.guard, zero))[:140]}`, a condition the interpreter could not evaluate" for q in run.queries if assign_atoms(q.guard, zero) not in (TRUE, FALSE) and _sat(assign_atoms(q.guard, zero)) and _sat(f_not(assign_atoms(q.guard, zero)))), "")
        _add(res, "C01.T5", f"{aa.relpath}::{aa.qualname}::alias rewrite [{tag} anything: question]", ok, f"'should not {tag} anything' asks {sorted(asked)}" + ("" if ok else ", expected the 'other' question only (neg(any edge))"), where(aa, aa.node), "decision-table", alias_taint)


# the public vocabulary that names modules (RuleSubject / RuleObject) and the methods that announce rule objects
NAMING_METHODS = ("are_named", "are_sub_modules_of", "have_name_matching", "have_name_containing")
OBJECT_INTRODUCERS = {
    "import_modules_that": True, "be_imported_by_modules_that": False,
    "import_modules_except_modules_that": True, "be_imported_by_modules_except_modules_that": False,
}
SUBJECT_NAME, OBJECT_NAME = "subjectpkg.subjectmod", "objectpkg.objectmod"


def _mentions(v, name: str, depth: int = 0) -> bool:
    """Does the string constant `name` occur in the derivation of a value (elements of collections, alternatives, fields)?"""
    from .absint import Alt, Tup

    if depth > 6:
        return False
    if isinstance(v, Const):
        return v.value == name
    if isinstance(v, Alt):
        return any(_mentions(o, name, depth + 1) for _g, o in v.options)
    if isinstance(v, Coll):
        return any(_mentions(x, name, depth + 1) for x, g in v.entries if g != FALSE)
    if isinstance(v, DictV):
        return any(_mentions(k, name, depth + 1) or _mentions(x, name, depth + 1) for k, x, g in v.entries if g != FALSE)
    if isinstance(v, Tup):
        return any(_mentions(x, name, depth + 1) for x in v.items)
    if isinstance(v, Inst):
        return any(_mentions(x, name, depth + 1) for x in v.fields.values())
    needle = ("const", repr(name))
    return any(st == needle for st in subterms(term_of(v)))


def fluent_names_run(repo: Repo, naming: str, introducer: str):
    """Rule().modules_that().<naming>(SUBJECT_NAME).should().<introducer>().<naming>(OBJECT_NAME).assert_applies(evaluable), interpreted:
    (interpreter, first module requirement the rule builds, the configuration object at the time the names were given)."""
    from .tables import _find_config, _requirement_events, _rule_class, _scenario_interp

    I = _scenario_interp(repo)
    rule = I.instantiate(_rule_class(repo), [], {}, None, None)
    if not isinstance(rule, Inst):
        raise AnalysisError("Rule() could not be instantiated by the interpreter")
    _cfg_name, cfg = _find_config(rule)
    cur = rule
    for meth, args in (("modules_that", []), (naming, [Const(SUBJECT_NAME)]), ("should", []), (introducer, []), (naming, [Const(OBJECT_NAME)])):
        nxt = I.call_method(cur, meth, args)
        cur = nxt if isinstance(nxt, Inst) else cur  # the fluent methods return the rule (or whatever object continues the sentence)
    n_before = len(I.events)
    I.call_method(cur, "assert_applies", [Sym(("root", "evaluable"), EVALUABLE_CLS)])
    probe = run_scenario(repo, Scenario("should", False, True))
    mr_cls = probe.modreq_new[0].result.cls if probe.modreq_new else None
    news = [e for e in I.events[n_before:] if e.kind == "new" and isinstance(e.result, Inst) and mr_cls is not None and e.result.cls is mr_cls]
    return I, (news[0] if news else None), cfg


def run_t5_names(repo: Repo, res: Result) -> None:
    """Names given after `modules_that()` are the rule's subjects, names given after an object-introducing method its objects:
    the first module requirement an evaluation builds receives them on these sides (whatever state the rule keeps them in)."""
    rule = repo.cls(RULE, "Rule")
    for naming in NAMING_METHODS:
        m = repo.lookup_method(rule, naming)
        if m is None:
            continue
        bad, unseen, loc = [], [], None
        for intro, imp in OBJECT_INTRODUCERS.items():
            if repo.lookup_method(rule, intro) is None:
                continue
            I, ev, cfg = fluent_names_run(repo, naming, intro)
            if ev is None:
                unseen.append(f"{intro}: no module requirement is built")
                continue
            args = bound_args(repo, ev)
            if len(args) < 2:
                unseen.append(f"{intro}: constructor arguments not bound")
                continue
            s_in = (_mentions(args[0], SUBJECT_NAME), _mentions(args[1], SUBJECT_NAME))
            o_in = (_mentions(args[0], OBJECT_NAME), _mentions(args[1], OBJECT_NAME))
            if s_in == (True, False) and o_in == (False, True):
                continue
            if s_in[1] or o_in[0]:
                what = []
                if s_in[1]:
                    what.append(f"the names given after modules_that() reach the requirement as rule objects{'' if s_in[0] else ' only'}")
                if o_in[0]:
                    what.append(f"the names given after {intro}() reach it as rule subjects{'' if o_in[1] else ' only'}")
                bad.append(f"`modules_that().{naming}(a).should().{intro}().{naming}(b)`: " + " and ".join(what))
                # the store that put a name on the wrong side of the configuration (diagnostics)
                for fld, ws in cfg.late_writes.items():
                    for value, fi, node in ws:
                        if fi is not None and node is not None and loc is None and ((fld == "modules_to_check_against" and _mentions(value, SUBJECT_NAME)) or (fld == "modules_to_check" and _mentions(value, OBJECT_NAME))):
                            loc = (fi, node)
            else:
                unseen.append(f"{intro}: the given names are not visible in the requirement's arguments")
        fi, node = loc if loc is not None else (m, m.node)
        cons = f"{fi.relpath}::{fi.qualname}::names given to {naming}() [subject / object side]"
        if bad:
            res.add("C01.T5", cons, False, "; ".join(bad[:2]) + ": subject and object of the rule are confused", where(fi, node), kind="effect")
        elif unseen and len(unseen) == len(OBJECT_INTRODUCERS):
            res.observe(f"C01.T5: the flow of the names given to {naming}() into the module requirement could not be followed ({unseen[0]})")
        else:
            res.add("C01.T5", cons, True, f"names given to {naming}() after modules_that() become the requirement's subjects, after an object-introducing method its objects", where(m, m.node), kind="effect")


# concrete subjects for the de-duplication of the 'anything' alias: a package, a descendant two levels below it whose intermediate
# package is *not* listed, a direct child, a sibling that only shares the text prefix, and an unrelated module
ALIAS_PROBE = {"probepkg": True, "probepkg.mid.leaf": False, "probepkg.child": False, "probepkgx": True, "otherpkg.mod": True}


def run_t5_alias_depth(repo: Repo, res: Result) -> None:
    """'should not import anything' excludes the subjects themselves: a subject that lies *anywhere* below another subject (any
    depth, the modules in between need not be listed) is dropped from the rewritten objects - otherwise the search treats its sub
    tree as excluded and the imports leaving it are never reported; a sibling that merely shares a text prefix is kept.  Decided
    on concrete names: `Rule().modules_that().are_named([...]).should_not().import_anything().assert_applies(..)` is interpreted
    and the objects of the first module requirement are read off.  Where the interpreter cannot evaluate the name tests on the
    constants (a helper it does not follow), this probe gives no verdict (the symbolic rule above still applies)."""
    from .absint import Alt, Tup
    from .tables import _rule_class, _scenario_interp

    rule_cls = _rule_class(repo)
    aa = repo.lookup_method(rule_cls, "assert_applies")
    probe = run_scenario(repo, Scenario("should", False, True))
    mr_cls = probe.modreq_new[0].result.cls if probe.modreq_new else None
    filt = repo.classes.get("pytestarch.eval_structure.evaluable_architecture.ModuleFilter")
    if mr_cls is None or filt is None or aa is None:
        return
    filter_classes = {c.fq for c in repo.classes.values() if any(b.fq == filt.fq for b in repo.mro(c))}
    for anything in ("import_anything", "be_imported_by_anything"):
        if repo.lookup_method(rule_cls, anything) is None or repo.lookup_method(rule_cls, "are_named") is None:
            continue
        I = Interp(repo, lambda f: descend_pipeline(f) or (f.cls is not None and f.cls.fq in filter_classes), assume={"bool(evaluable)": True})
        rule = I.instantiate(rule_cls, [], {}, None, None)
        if not isinstance(rule, Inst):
            continue
        names = I.lift(list(ALIAS_PROBE))
        cur = rule
        for meth, args in (("modules_that", []), ("are_named", [names]), ("should_not", []), (anything, [])):
            nxt = I.call_method(cur, meth, args)
            cur = nxt if isinstance(nxt, Inst) else cur
        n0 = len(I.events)
        I.call_method(cur, "assert_applies", [Sym(("root", "evaluable"), EVALUABLE_CLS)])
        news = [e for e in I.events[n0:] if e.kind == "new" and isinstance(e.result, Inst) and e.result.cls is mr_cls]
        if not news:
            continue
        args = bound_args(repo, news[0])
        if len(args) < 2:
            continue
        objs = args[1]
        ents = I.iterate(objs) if not isinstance(objs, Sym) else None
        if ents is None:
            continue
        kept: dict = {}
        concrete = True
        for x, g in ents:
            g = I.simp(g)
            hit = [n for n in ALIAS_PROBE if _mentions(x, n) and not any(m != n and len(m) > len(n) and _mentions(x, m) for m in ALIAS_PROBE)]
            if len(hit) != 1 or g not in (TRUE, FALSE):
                concrete = False
                break
            kept[hit[0]] = kept.get(hit[0], False) or g == TRUE
        if not concrete or I.notes:
            continue  # the name tests were not evaluated on the constants: no verdict from this probe
        tag = "import" if anything == "import_anything" else "be imported by"
        bad = []
        for n, want in ALIAS_PROBE.items():
            got = kept.get(n, False)
            if got and not want:
                depth = "two levels below" if n.count(".") == 2 else "directly below"
                bad.append(f"`{n}` ({depth} the subject `probepkg`{', the module in between is not a subject' if n.count('.') == 2 else ''}) stays among the rewritten objects: its sub tree is then excluded from the search and imports leaving it are never reported")
            if want and not got:
                bad.append(f"`{n}` is dropped although it is not a sub module of another subject" + (" (it only shares the text prefix `probepkg`)" if n == "probepkgx" else ""))
        fi, node = subj_made_at(I, objs, aa) if isinstance(objs, Coll) else (aa, aa.node)
        where_fi = next((fr_[2].fi for fq, frames in I.frames_of.items() for fr_ in frames if isinstance(fr_[1], Coll) and fr_[1] is objs), None)
        if where_fi is not None:
            fi, node = where_fi, where_fi.node
        res.add(
            "C01.T5", f"{fi.relpath}::{fi.qualname}::alias subjects on concrete names [{tag} anything]", not bad,
            f"subjects {sorted(ALIAS_PROBE)} -> objects {sorted(n for n, k in kept.items() if k)}: every descendant (any depth) of another subject is dropped, siblings are kept" if not bad
            else f"'should not {tag} anything' with subjects {sorted(ALIAS_PROBE)} is rewritten to the objects {sorted(n for n, k in kept.items() if k)}: " + "; ".join(bad),
            where(fi, node), kind="flow",
        )


def _plain_name(t) -> bool:
    """`<element of the subjects>.identifier` (or another attribute of it): a whole module name."""
    return isinstance(t, tuple) and len(t) == 3 and t[0] == "attr" and isinstance(t[1], tuple) and t[1] and t[1][0] == "elem"


def _fname_verdicts(repo: Repo, funcs: list, run: Run) -> dict:
    """Verdicts of the shared F-NAME lint (rules/names.py) on the name-relational sites of the given functions (or, when the
    function of a test is unknown, of every Rule function the alias evaluation went through)."""
    from . import names

    fqs = {f.fq for f in funcs if f is not None}
    if not fqs or any(f is None for f in funcs):
        fqs |= {fq for fq in run.interp.frames_of if ("::Rule." in fq or "::Rule::" in fq)}
    out: dict = {}
    try:
        for s_ in names.scan(repo):
            top = s_.fi
            while top.outer is not None and top.fq not in fqs:
                top = top.outer
            if top.fq in fqs and s_.name_typed:
                out.setdefault("unsafe" if s_.verdict == "unsafe" else "safe" if s_.verdict in ("safe", "reviewed", "not-name") else "unknown", []).append(s_.why)
    except AnalysisError:
        return {"unknown": ["F-NAME scan failed"]}
    return out


def subj_made_at(I: Interp, coll: Coll, fallback: FuncInfo):
    """Function in which the first element was added to a collection (diagnostics)."""
    for a, info in I.atom_info.items():
        if info.get("kind") == "strtest" and info.get("fi") is not None:
            return info["fi"], info.get("node")
    return fallback, fallback.node


def _same(a, b) -> bool:
    try:
        return equivalent(a, b)
    except AnalysisError:
        return False


# --------------------------------------------------------------------------- T6


_CATCHES_ASSERTION = {"", "Exception", "BaseException", "AssertionError"}


def run_t6(repo: Repo, res: Result) -> None:
    probe = run_scenario(repo, Scenario("should", False, True))
    matcher = probe.matcher.cls if probe.matcher is not None else repo.cls(MATCHER, "RuleMatcher")
    match = repo.lookup_method(matcher, "match") or repo.lookup_method(repo.cls(RULE, "Rule"), "assert_applies")
    bad = []
    site = None
    swallow = []
    for sc in legal_scenarios():
        run = run_scenario(repo, sc)
        live = [v for v in run.verdicts if _sat(v.guard)]
        if live:
            site = site or live[0]
        if run.violations is None:
            bad.append(f"'{sc.name}': no RuleViolations object is built")
            continue
        want = atom(f"truthy({run.violations.cls.name}#{run.violations.serial})")
        got = f_or([v.guard for v in live])
        # an exception of another kind that leaves the evaluation earlier (validation of the configuration under a condition the
        # interpreter keeps symbolic) is no verdict: the verdict is judged on the evaluations that get as far as the matcher
        earlier = f_or([e.guard for e in run.other_raises if _sat(e.guard)])
        if not _same(got, want) and not (earlier != FALSE and _same(got, f_and([want, f_not(earlier)]))):
            bad.append(f"'{sc.name}': AssertionError is raised under `{show(got)[:120]}` instead of exactly when the violations found are truthy")
        for fi, node in run.interp.try_nodes:
            if not fi.module.name.startswith("pytestarch.eval_structure"):
                names = {("" if h.type is None else ast.unparse(h.type).split(".")[-1]) for h in node.handlers}
                if names & _CATCHES_ASSERTION or any(isinstance(h.type, ast.Tuple) for h in node.handlers):
                    swallow.append((fi, node))
    fi, node = (site.fi, site.node) if site is not None else (match, match.node)
    ok = not bad
    res.add(
        "C01.T6", f"{fi.relpath}::{fi.qualname}::verdict", ok,
        "AssertionError raised exactly when the RuleViolations object is truthy (all 12 evaluated rule shapes)" if ok else "the verdict is not the truthiness of the violations found: " + "; ".join(bad[:3]),
        where(fi, node), kind="dominance",
    )
    res.add(
        "C01.T6", f"{match.relpath}::{match.qualname}::no swallowing", not swallow,
        "no handler between the verdict and the caller" if not swallow else f"`{swallow[0][0].qualname}` wraps the evaluation in a handler that can swallow the AssertionError",
        where(*swallow[0]) if swallow else where(match, match.node), nontrivial=False,
    )
    # truthiness covers every bucket
    viol = violations_class(repo)
    b = repo.lookup_method(viol, "__bool__") or repo.lookup_method(viol, "__len__")
    fields = list(viol.ann_attrs)
    if b is None:
        res.add("C01.T6", f"{viol.module.relpath}::RuleViolations::__bool__", False, "RuleViolations defines no __bool__: every evaluation would raise", kind="structural")
    else:
        I = Interp(repo, descend_pipeline)
        inst = I.instantiate(viol, [], {f: Sym(("root", f), "set") for f in fields}, None, None)
        out = I.call_method(inst, b.name, [])
        got = I.truth(out)
        want = f_or([atom(f"bool({f})") for f in fields])
        covered = _same(got, want)
        missing = [f for f in fields if f"bool({f})" not in atoms_of(got)]
        _add(
            res, "C01.T6", f"{b.relpath}::{b.qualname}::covers all buckets", covered,
            f"truthiness is the disjunction over all {len(fields)} fields" if covered
            else "RuleViolations.__bool__ does not cover every violation bucket: some violations never raise" + (f" (not consulted: {missing})" if missing else f" (truthiness is `{show(got)[:160]}`)"),
            where(b, b.node), "structural", ", ".join(tainted(got)) or ("; ".join(I.notes[:2]) if I.notes and not missing else None),
        )
    res.floor("C01.T6", 3, 3)


from .searchrules import run_search  # noqa: E402,F401  (rules C01.S live in rules/searchrules.py)


def guarded_search(repo: Repo, res: Result) -> None:
    """C01.S is owned by the search model; a shape it cannot read must not hide the verdicts of T1-T6."""
    try:
        run_search(repo, res)
    except AnalysisError as e:
        res.undecide("C01.S", "pytestarch/eval_structure/breadth_first_searches.py", f"search model: {e}")


def run(repo: Repo) -> Result:
    res = Result("C01")
    res.explanation = (
        "Decides, for every rule configuration, the dispatch from the fluent configuration to graph questions and from answers to the verdict, "
        "on an abstract interpretation of Rule.assert_applies (concrete configuration flags, symbolic data; 6 legal points x 2 directions + 2 aliases): "
        "(T1) the explicit / 'other' questions are asked exactly at the documented (verb, except) points; (T2) each of the eight violation "
        "buckets is gated by the documented flag, fed by the documented query and judged in the documented mode (present / absent, per key); "
        "(T3) no bucket is starved and no answer unread; (T4) importer/importee exchange parity, orientation of the 'other' searches and "
        "evaluation-local matcher state; (T5) effect of every fluent method on the configuration and the 'anything' rewrite; (T6) AssertionError "
        "exactly on a truthy RuleViolations covering all buckets; (S) the searches classify every neighbour by edge kind before "
        "pushing/recording/marking, follow only hierarchy edges from the subject, record (importer, importee) on import edges only, restrict "
        "targets to the object's subtree and exclude the subject's own subtree from 'something else'."
    )
    res.not_decided = "that the three graph searches compute the right set on every graph (needs execution / loop unrolling over graphs)."
    res.trusted_base = ["LANGUAGE_DEFINTION.md (cross-checked with a frozen copy in rules/tables.py)", "the abstract interpreter rules/absint.py (evaluation rules for the Python subset used by the pipeline)", "engine resolver, CFG path conditions and formula evaluator"]
    markers, sem = parse_language_doc(repo)
    # a table that cannot be extracted (e.g. because every evaluation of a legal rule raises before it reaches the matcher - which
    # T1 reports) leaves its own rule undecided; it must not hide the findings of the other rules
    for rule_id, fn, args in (
        ("C01.T1", run_t1, (repo, res, None, markers)), ("C01.T2", run_t2_t3, (repo, res, None, sem)), ("C01.T4", run_t4, (repo, res, None)),
        ("C01.T5", run_t5, (repo, res)), ("C01.T6", run_t6, (repo, res)),
    ):
        try:
            fn(*args)
        except AnalysisError as e:
            res.undecide(rule_id, f"{RULE}::Rule.assert_applies::interpreted pipeline", f"table extraction failed: {e}")
    notes = sorted({n for sc in legal_scenarios() for n in run_scenario(repo, sc).interp.notes})
    if notes:
        res.observe("constructs on the evaluated pipeline that the interpreter walked without a model: " + "; ".join(notes[:8]))
    guarded_search(repo, res)
    res.floor("C01.T1", 12, sum(1 for o in res.obligations if o.rule == "C01.T1") + sum(1 for u in res.undecided if u["rule"] == "C01.T1"))
    res.floor("C01.T2", 6, sum(1 for o in res.obligations if o.rule == "C01.T2") + sum(1 for u in res.undecided if u["rule"] == "C01.T2"))
    res.floor("C01.T4", 8, sum(1 for o in res.obligations if o.rule == "C01.T4") + sum(1 for u in res.undecided if u["rule"] == "C01.T4"))
    res.floor("C01.T5", 10, sum(1 for o in res.obligations if o.rule == "C01.T5") + sum(1 for u in res.undecided if u["rule"] == "C01.T5"))
    return res
