"""C01 - module-rule verdicts equal the documented rule semantics (dispatch tables and search discipline).

  C01.T1  which graph questions a (verb, except) rule asks        (decision table vs LANGUAGE_DEFINTION.md)
  C01.T2  flag -> query result -> violation bucket -> judging mode (vs the Semantics block)
  C01.T3  no starved bucket / no unread question
  C01.T4  direction: swap parity of importer/importee, orientation of the 'other' queries
  C01.T5  fluent method -> configuration effect table; 'anything' alias rewrite
  C01.T6  verdict: AssertionError raised exactly on a truthy RuleViolations covering all buckets
  C01.S   search discipline: hierarchy/import classification before use, push/record/mark conditions, object sets
"""

from __future__ import annotations

import ast

from core.flow import Flow, Spec
from core.guards import FALSE, TRUE, atom, atoms_of, conds_formula, equivalent, evaluate, f_and, f_not, f_or, implies, show, to_formula
from core.loader import AnalysisError, FuncInfo, Repo, calls_in, header, norm, own_nodes, parent
from core.report import Result
from core.types import members

from . import search as S
from .common import cfg_of, conds, dotted, guard_formula, is_attr_call, stmt_of, types_of, where
from .tables import (
    ATOMS, DETECTOR, EVAL_GRAPH, EXPLICIT_QUERY, LEGAL_POINTS, MATCHER, MODREQ, OTHER_QUERIES, RULE, SEARCHES, VIOLATIONS,
    Inliner, asked_at, bucket_wiring, issuing_conditions, method_mode, parse_language_doc, point_env, point_name,
)


def run_t1(repo: Repo, res: Result, inl: Inliner, markers: dict) -> list:
    issues = issuing_conditions(repo, inl)
    doc_explicit = markers["edge"] | markers["neg edge"]
    doc_other = markers["any"] | markers["neg any"]
    for kind, doc in (("explicit", doc_explicit), ("other", doc_other)):
        for verb, exc in LEGAL_POINTS:
            got = asked_at(issues, kind, point_env(verb, exc))
            want = (verb, exc) in doc
            site = next(i for i in issues if i.kind == kind)
            res.add(
                "C01.T1",
                f"{site.func.relpath}::{site.func.qualname}::{kind} question @ {point_name(verb, exc)}",
                got == want,
                f"'{point_name(verb, exc)}': the {kind} graph question is {'asked' if got else 'not asked'}, documented: {'asked' if want else 'not asked'}"
                + ("" if got == want else f" (issuing condition: {' | '.join(show(i.formula) for i in issues if i.kind == kind)})"),
                where(site.func, site.call),
                kind="decision-table",
            )
    # the two 'other' queries are selected by direction only and between them cover both directions
    others = [i for i in issues if i.kind == "other"]
    meths = {i.method for i in others}
    res.add(
        "C01.T1",
        f"{others[0].func.relpath}::{others[0].func.qualname}::both 'other' queries reachable",
        meths == set(OTHER_QUERIES),
        f"'other' questions issued through {sorted(meths)}",
        where(others[0].func, others[0].call),
        kind="decision-table",
    )
    # arguments of every question: (importers, importees) of the *updated* requirement, in this order
    for i in issues:
        args = [norm(a) for a in i.call.args]
        ok = len(args) == 2 and args[0].endswith(".importers") and args[1].endswith(".importees") and "_updated_module_requirement" in args[0] and "_updated_module_requirement" in args[1]
        res.add(
            "C01.T4",
            repo.key(i.func, stmt_of(i.call)) + f" [{i.method} arguments]",
            ok,
            "query receives (importers, importees) of the converted requirement" if ok else f"query `{i.method}` receives {args}: expected (updated.importers, updated.importees)",
            where(i.func, i.call),
            kind="flow",
        )
    return issues


def run_t2_t3(repo: Repo, res: Result, inl: Inliner, sem: dict, issues: list) -> None:
    grv, buckets = bucket_wiring(repo, inl)
    det = repo.cls(DETECTOR, "RuleViolationDetector")
    modes = {}
    for b in buckets:
        mode, gran, helper = method_mode(repo, inl.T, det, b.method)
        modes[b.field] = (mode, gran, helper)
    res.analysed["bucket_table"] = {b.field: {"flag": show(b.flag), "source": b.source, "mode": modes[b.field][0], "granularity": modes[b.field][1], "method": b.method} for b in buckets}
    for verb, exc in LEGAL_POINTS:
        env = point_env(verb, exc)
        active = {(b.source, modes[b.field][0]) for b in buckets if evaluate(b.flag, env)}
        want = sem[(verb, exc)]
        res.add(
            "C01.T2",
            f"{grv.relpath}::{grv.qualname}::buckets @ {point_name(verb, exc)}",
            active == want,
            f"'{point_name(verb, exc)}' judges {sorted(active)}; documented semantics: {sorted(want)}",
            where(grv, grv.node),
            kind="decision-table",
        )
        # T3: sources read by active buckets == questions asked
        used = {s for s, _m in active}
        asked = {k for k in ("explicit", "other") if asked_at(issues, k, env)}
        res.add(
            "C01.T3",
            f"{grv.relpath}::{grv.qualname}::starvation @ {point_name(verb, exc)}",
            used == asked,
            f"'{point_name(verb, exc)}': buckets read {sorted(used)}, questions asked {sorted(asked)}"
            + ("" if used == asked else (": a bucket whose data is never requested receives None and passes vacuously" if used - asked else ": a question is asked whose answer no bucket reads")),
            where(grv, grv.node),
            kind="decision-table",
        )
    # judging granularity of the plain detector: absent-mode buckets are judged per key, present-mode unfiltered
    for b in buckets:
        mode, gran, helper = modes[b.field]
        ok = gran in ("per-key", "per-pair")
        res.add(
            "C01.T2",
            f"{helper.relpath}::{helper.qualname}::granularity of {b.field}",
            ok,
            f"{b.field}: {mode} mode judged {gran}" + ("" if ok else (": requirements of a module rule must be judged per subject/object pair resp. per subject, not jointly" if mode == "absent" else ": realised pairs are filtered before being reported")),
            where(helper, helper.node),
            kind="structural",
        )


def run_t4(repo: Repo, res: Result, inl: Inliner) -> None:
    T = inl.T
    mr = repo.cls(MODREQ, "ModuleRequirement")
    init = mr.methods["__init__"]
    p_importers, p_importees, p_flag = init.param_names[1:4]
    # fields written from the raw parameters
    raw_fields: dict[str, str] = {}
    swaps = []
    for n in own_nodes(init.node):
        if isinstance(n, ast.Assign):
            if isinstance(n.value, ast.Name) and n.value.id in (p_importers, p_importees, p_flag):
                for t in n.targets:
                    if isinstance(t, ast.Attribute):
                        raw_fields.setdefault(t.attr, n.value.id)
            if isinstance(n.value, ast.Tuple) and isinstance(n.targets[0], ast.Tuple):
                swaps.append(n)
    # accessor -> field
    def accessor_field(name: str) -> str | None:
        m = mr.methods.get(name)
        if m is None:
            return None
        rets = [s for s in own_nodes(m.node) if isinstance(s, ast.Return)]
        if len(rets) == 1 and isinstance(rets[0].value, ast.Attribute):
            return rets[0].value.attr
        return None

    ok_swap = len(swaps) == 1
    swap_cond = None
    swapped_fields: set[str] = set()
    if ok_swap:
        sw = swaps[0]
        tg = [dotted(t) for t in sw.targets[0].elts]
        vl = [dotted(v) for v in sw.value.elts]
        ok_swap = len(tg) == 2 and tg == list(reversed(vl))
        swapped_fields = {t.split(".")[-1] for t in tg}
        # condition: swap iff importer is NOT the rule subject
        cf = conds_formula(conds(init, sw))

        def subst(x: ast.expr):
            if isinstance(x, ast.Attribute) and dotted(x.value) == "self":
                meth = mr.methods.get(x.attr)
                if meth is not None and meth.is_property:
                    r = [s for s in own_nodes(meth.node) if isinstance(s, ast.Return)]
                    if len(r) == 1:
                        return to_formula(r[0].value, subst)
                if x.attr in raw_fields and raw_fields[x.attr] == p_flag:
                    return atom("importer_is_subject")
            if isinstance(x, ast.Name) and x.id == p_flag:
                return atom("importer_is_subject")
            return None

        swap_cond = f_and([to_formula(e, subst) if pol else f_not(to_formula(e, subst)) for e, pol in conds(init, sw)])
        ok_swap = ok_swap and equivalent(swap_cond, f_not(atom("importer_is_subject")))
    res.add(
        "C01.T4",
        f"{init.relpath}::{init.qualname}::conditional exchange",
        ok_swap,
        "importers/importees are exchanged exactly when the rule is written 'be imported by'" if ok_swap else f"the importer/importee exchange is not applied exactly for be-imported-by rules (condition: {show(swap_cond) if swap_cond else 'not found'})",
        where(init, swaps[0] if swaps else init.node),
        kind="decision-table",
    )
    # as-specified accessors must read fields that the exchange does not touch; effective accessors the exchanged ones
    for acc, want_param, must_swap in (
        ("importers_as_specified_by_user", p_importers, False),
        ("importees_as_specified_by_user", p_importees, False),
        ("importers", p_importers, True),
        ("importees", p_importees, True),
    ):
        fld = accessor_field(acc)
        ok = fld is not None and raw_fields.get(fld) == want_param and ((fld in swapped_fields) == must_swap)
        res.add(
            "C01.T4",
            f"{mr.module.relpath}::ModuleRequirement.{acc}::field",
            ok,
            f"{acc} reads {fld} ({'exchanged' if must_swap else 'as given'})" if ok else f"{acc} reads field {fld}: expected a field initialised from `{want_param}` that is {'subject to' if must_swap else 'untouched by'} the exchange",
            kind="structural",
        )
    # constructions of ModuleRequirement: in Rule (subjects, objects, import_) and in the matcher (as-specified accessors)
    rule_prep = None
    for f in [*repo.module(RULE).all_funcs, *repo.module(MATCHER).all_funcs]:
        for call in calls_in(f.node):
            ci = T.ctor_class(f, call)
            if ci is None or ci.fq != mr.fq:
                continue
            args = [norm(a) for a in call.args]
            if f.module.name == RULE:
                ok = len(args) == 3 and args[0].endswith(".modules_to_check") and args[1].endswith(".modules_to_check_against") and args[2].endswith(".import_")
                detail = "ModuleRequirement(subjects, objects, import_)" if ok else f"rule builds ModuleRequirement({', '.join(args)}): expected (modules_to_check, modules_to_check_against, import_)"
            else:
                # arguments must derive from the as-specified accessors (the constructor applies the exchange itself)

                def sources(fn: FuncInfo, e: ast.expr):
                    if isinstance(e, ast.Attribute) and e.attr in ("importers_as_specified_by_user", "importees_as_specified_by_user", "importers", "importees"):
                        return {e.attr}
                    return None

                flow = Flow(repo, T, Spec(sources=sources, scope=lambda fn: fn is f))
                t0, t1 = flow.tags(call.args[0]), flow.tags(call.args[1])
                ok = t0 == {"importers_as_specified_by_user"} and t1 == {"importees_as_specified_by_user"} and len(args) == 3 and args[2].endswith("rule_specified_with_importer_as_rule_subject")
                detail = (
                    "the converted requirement is rebuilt from the as-specified sides (exchange applied exactly once)"
                    if ok
                    else f"the converted requirement is rebuilt from {sorted(t0)} / {sorted(t1)} / {args[2] if len(args) > 2 else '?'}: the importer/importee exchange is applied an even number of times for be-imported-by rules"
                )
            res.add("C01.T4", repo.key(f, stmt_of(call)), ok, detail, where(f, call), kind="flow")
    # orientation of the 'other' query chosen per direction
    eg = repo.cls(EVAL_GRAPH, "EvaluableArchitectureGraph")
    models = {m.fi.name: m for m in S.models(repo)}
    matcher = repo.cls(MATCHER, "RuleMatcher")
    for m in matcher.methods.values():
        for n in own_nodes(m.node):
            if isinstance(n, ast.Attribute) and n.attr in OTHER_QUERIES and isinstance(n.ctx, ast.Load):
                cf = conds(m, n)

                def subst2(x: ast.expr):
                    if isinstance(x, ast.Attribute) and x.attr == "rule_specified_with_importer_as_rule_object":
                        return f_not(atom("importer_is_subject"))
                    if isinstance(x, ast.Attribute) and x.attr == "rule_specified_with_importer_as_rule_subject":
                        return atom("importer_is_subject")
                    return None

                f = f_and([to_formula(e, subst2) if pol else f_not(to_formula(e, subst2)) for e, pol in cf])
                impl = eg.methods.get(n.attr)
                if impl is None:
                    raise AnalysisError(f"EvaluableArchitectureGraph.{n.attr} not found")
                used = [c.func.id for c in calls_in(impl.node) if isinstance(c.func, ast.Name) and c.func.id in models]
                if len(used) != 1:
                    raise AnalysisError(f"{impl.fq}: expected exactly one search call, found {used}")
                direction = models[used[0]].direction
                want_subject = direction == "succ"
                ok = implies(f, atom("importer_is_subject") if want_subject else f_not(atom("importer_is_subject"))) and "importer_is_subject" in atoms_of(f)
                res.add(
                    "C01.T4",
                    repo.key(m, stmt_of(n)) + f" [{n.attr}]",
                    ok,
                    f"{n.attr} ({'forward' if direction == 'succ' else 'backward'} search) is selected for {'import' if want_subject else 'be-imported-by'} rules" if ok else f"{n.attr} expands {direction} edges but is selected under `{show(f)}`: subject and 'something else' are on the wrong sides of the import",
                    where(m, n),
                    kind="decision-table",
                )
                # per-subject loop ranges over the subject side
                subj_param = impl.param_names[1] if want_subject else impl.param_names[2]
                loops = [l for l in own_nodes(impl.node) if isinstance(l, ast.For)]
                okl = False
                for l in loops:
                    src = dotted(l.iter)
                    origin = _set_origin(impl, src)
                    if origin == subj_param and any(c.func.id == used[0] for c in ast.walk(l) if isinstance(c, ast.Call) and isinstance(c.func, ast.Name)):
                        okl = True
                res.add(
                    "C01.T4",
                    f"{impl.relpath}::{impl.qualname}::per-subject loop",
                    okl,
                    f"one search per element of `{subj_param}` (the subject side)" if okl else f"the per-subject loop does not range over `{subj_param}`: 'something else' is judged per object instead of per subject",
                    where(impl, impl.node),
                    kind="structural",
                )


def _set_origin(fi: FuncInfo, var: str) -> str:
    for n in own_nodes(fi.node):
        if isinstance(n, ast.Assign) and isinstance(n.targets[0], ast.Name) and n.targets[0].id == var and isinstance(n.value, ast.Call) and isinstance(n.value.func, ast.Name) and n.value.func.id in ("set", "list", "frozenset", "sorted") and n.value.args:
            return dotted(n.value.args[0])
    return var


# expected effect of every fluent method on the rule configuration (the documented vocabulary)
FLUENT_EFFECTS = {
    "modules_that": {"_next": True},
    "should": {"should": True},
    "should_only": {"should_only": True},
    "should_not": {"should_not": True},
    "import_modules_that": {"import_": True, "_next": False},
    "be_imported_by_modules_that": {"import_": False, "_next": False},
    "import_modules_except_modules_that": {"import_": True, "except_present": True, "_next": False},
    "be_imported_by_modules_except_modules_that": {"import_": False, "except_present": True, "_next": False},
    "import_anything": {"rule_object_anything": True, "import_": True, "_next": False},
    "be_imported_by_anything": {"rule_object_anything": True, "import_": False, "_next": False},
}


def method_effects(repo: Repo, cls, name: str, depth: int = 0) -> dict[str, object]:
    m = repo.lookup_method(cls, name)
    if m is None:
        raise AnalysisError(f"{cls.fq}.{name} not found")
    eff: dict[str, object] = {}
    for s in m.body:
        if isinstance(s, ast.Expr) and isinstance(s.value, ast.Constant):
            continue
        if isinstance(s, ast.Assign) and len(s.targets) == 1 and isinstance(s.value, ast.Constant):
            t = dotted(s.targets[0])
            if t.startswith("self._configuration."):
                eff[t.split(".")[-1]] = s.value.value
                continue
            if t == "self._modules_to_check_to_be_specified_next":
                eff["_next"] = s.value.value
                continue
        if isinstance(s, ast.Expr) and isinstance(s.value, ast.Call) and isinstance(s.value.func, ast.Attribute) and dotted(s.value.func.value) == "self" and not s.value.args and depth < 3:
            eff.update(method_effects(repo, cls, s.value.func.attr, depth + 1))
            continue
        if isinstance(s, ast.Return) and isinstance(s.value, ast.Name) and s.value.id == "self":
            continue
        raise AnalysisError(f"{m.fq}: statement `{header(s)}` is not a recognised configuration effect")
    return eff


def run_t5(repo: Repo, res: Result) -> None:
    rule = repo.cls(RULE, "Rule")
    for name, want in FLUENT_EFFECTS.items():
        got = method_effects(repo, rule, name)
        m = repo.lookup_method(rule, name)
        res.add(
            "C01.T5",
            f"{m.relpath}::{m.qualname}::configuration effect",
            got == want,
            f"{name}() sets {got}" + ("" if got == want else f", documented vocabulary requires {want}"),
            where(m, m.node),
            kind="structural",
        )
    # alias rewrite
    ca = repo.lookup_method(rule, "_convert_aliases")
    if ca is None:
        raise AnalysisError("Rule._convert_aliases not found")
    cfgp = ca.param_names[1]
    rep = [c for c in calls_in(ca.node) if isinstance(c.func, ast.Name) and c.func.id == "replace"]
    ok = len(rep) == 1
    detail = "no dataclasses.replace call"
    if ok:
        kw = {k.arg: k.value for k in rep[0].keywords}
        ok = (
            dotted(rep[0].args[0]) == cfgp
            and isinstance(kw.get("except_present"), ast.Constant) and kw["except_present"].value is True
            and isinstance(kw.get("rule_object_anything"), ast.Constant) and kw["rule_object_anything"].value is False
            and "modules_to_check" in kw and "modules_to_check_against" in kw and norm(kw["modules_to_check"]) == norm(kw["modules_to_check_against"])
        )
        detail = "anything := except itself (objects = de-duplicated subjects, except flag set, alias flag cleared)" if ok else f"alias rewrite is `{norm(rep[0])}`: 'should not import anything' must become 'should not import modules except <subjects>'"
        # early return of the unchanged configuration when the alias flag is not set
        rets = [s for s in own_nodes(ca.node) if isinstance(s, ast.Return) and dotted(s.value) == cfgp]
        ok2 = len(rets) == 1 and implies(conds_formula(conds(ca, rets[0])), f_not(atom(f"bool({cfgp}.rule_object_anything)")))
        ok3 = implies(conds_formula(conds(ca, rep[0])), atom(f"bool({cfgp}.rule_object_anything)"))
        if ok and not (ok2 and ok3):
            ok = False
            detail = "the alias rewrite is not applied exactly when rule_object_anything is set"
    res.add("C01.T5", f"{ca.relpath}::{ca.qualname}::alias rewrite", ok, detail, where(ca, ca.node), kind="structural")
    # assert_applies applies the rewrite, validates, then matches
    aa = repo.lookup_method(rule, "assert_applies")
    calls = [c.func.attr for c in calls_in(aa.node) if isinstance(c.func, ast.Attribute)]
    ok = "_convert_aliases" in calls and "match" in calls and "_prepare_rule_matcher" in calls
    res.add("C01.T5", f"{aa.relpath}::{aa.qualname}::pipeline", ok, "assert_applies: alias rewrite -> validation -> matcher.match" if ok else f"assert_applies no longer runs the alias rewrite / matcher (calls: {calls})", where(aa, aa.node), nontrivial=False)


def run_t6(repo: Repo, res: Result) -> None:
    matcher = repo.cls(MATCHER, "RuleMatcher")
    match = matcher.methods.get("match")
    if match is None:
        raise AnalysisError("RuleMatcher.match not found")
    raises = [s for s in own_nodes(match.node) if isinstance(s, ast.Raise)]
    ok = len(raises) == 1 and isinstance(raises[0].exc, ast.Call) and dotted(raises[0].exc.func) == "AssertionError"
    detail = "exactly one `raise AssertionError`"
    if ok:
        cs_ = conds(match, raises[0])
        ok = len(cs_) == 1 and cs_[0][1] is True and isinstance(cs_[0][0], ast.Name)
        var = cs_[0][0].id if ok else None
        if ok:
            assigns = [s for s in own_nodes(match.node) if isinstance(s, ast.Assign) and dotted(s.targets[0]) == var]
            ok = len(assigns) == 1 and isinstance(assigns[0].value, ast.Call) and "_find_rule_violations" in norm(assigns[0].value.func)
        detail = "AssertionError raised exactly when the RuleViolations object is truthy" if ok else f"the verdict raise is guarded by `{' and '.join(norm(e) for e, _ in cs_)}` instead of the truthiness of the violations found"
    res.add("C01.T6", f"{match.relpath}::{match.qualname}::verdict", ok, detail, where(match, raises[0] if raises else match.node), kind="dominance")
    # no other exit swallows the verdict: the function has no return with a value and no try
    swallow = [n for n in own_nodes(match.node) if isinstance(n, (ast.Try,)) or (isinstance(n, ast.Return) and n.value is not None)]
    res.add("C01.T6", f"{match.relpath}::{match.qualname}::no swallowing", not swallow, "match has no handler or early return" if not swallow else f"match contains `{header(swallow[0])}`", where(match, match.node), nontrivial=False)
    viol = repo.cls(VIOLATIONS, "RuleViolations")
    b = viol.methods.get("__bool__")
    fields = list(viol.ann_attrs)
    if b is None:
        # dataclass without __bool__ is always truthy
        res.add("C01.T6", f"{viol.module.relpath}::RuleViolations::__bool__", False, "RuleViolations defines no __bool__: every evaluation would raise", kind="structural")
    else:
        text = norm(b.node, 2000)
        uses_fields = any(isinstance(c, ast.Call) and dotted(c.func) == "fields" for c in ast.walk(b.node))
        gen_filter = any(isinstance(g, ast.comprehension) and g.ifs for g in ast.walk(b.node))
        sliced = any(isinstance(n, ast.Subscript) and isinstance(n.slice, ast.Slice) for n in ast.walk(b.node))
        covered = (uses_fields and not gen_filter and not sliced and any(isinstance(c, ast.Call) and dotted(c.func) == "any" for c in ast.walk(b.node))) or all(f in text for f in fields)
        res.add(
            "C01.T6",
            f"{b.relpath}::{b.qualname}::covers all buckets",
            covered,
            f"truthiness is `any` over all {len(fields)} fields" if covered else "RuleViolations.__bool__ does not cover every violation bucket: some violations never raise",
            where(b, b.node),
            kind="structural",
        )
    res.floor("C01.T6", 3, 3)


from .searchrules import run_search  # noqa: E402,F401  (rules C01.S live in rules/searchrules.py)


def run(repo: Repo) -> Result:
    res = Result("C01")
    res.explanation = (
        "Decides, for every rule configuration, the dispatch from the fluent configuration to graph questions and from answers to the verdict: "
        "(T1) the explicit / 'other' questions are asked exactly at the documented (verb, except) points; (T2) each of the eight violation "
        "buckets is gated by the documented flag, fed by the documented query and judged in the documented mode (present / absent, per key); "
        "(T3) no bucket is starved and no answer unread; (T4) importer/importee exchange parity and orientation of the 'other' searches; "
        "(T5) effect of every fluent method on the configuration and the 'anything' rewrite; (T6) AssertionError exactly on a truthy "
        "RuleViolations covering all buckets; (S) the searches classify every neighbour by edge kind before pushing/recording/marking, follow "
        "only hierarchy edges from the subject, record (importer, importee) on import edges only, restrict targets to the object's subtree and "
        "exclude the subject's own subtree from 'something else'."
    )
    res.not_decided = "that the three graph searches compute the right set on every graph (needs execution / loop unrolling over graphs)."
    res.trusted_base = ["LANGUAGE_DEFINTION.md (cross-checked with a frozen copy in rules/tables.py)", "engine resolver, CFG path conditions and formula evaluator"]
    markers, sem = parse_language_doc(repo)
    inl = Inliner(repo)
    issues = run_t1(repo, res, inl, markers)
    run_t2_t3(repo, res, inl, sem, issues)
    run_t4(repo, res, inl)
    run_t5(repo, res)
    run_t6(repo, res)
    run_search(repo, res)
    res.floor("C01.T1", 12, sum(1 for o in res.obligations if o.rule == "C01.T1"))
    res.floor("C01.T2", 6, sum(1 for o in res.obligations if o.rule == "C01.T2"))
    res.floor("C01.T4", 8, sum(1 for o in res.obligations if o.rule == "C01.T4"))
    res.floor("C01.T5", 10, sum(1 for o in res.obligations if o.rule == "C01.T5"))
    return res
