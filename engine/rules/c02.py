"""C02 - every import statement in a scanned file becomes an import edge, only those.

Rules (DESIGN.md section 4, C02):
  C02.R1  grammar-exhaustive descent of the import collector (oracle: the running interpreter's `ast` grammar)
  C02.R2  both import statement classes are dispatched and every name of a statement is consumed
  C02.R3  `from P import n`: each n is joined to P and looked up in the internal-module set; no value leaks between names
  C02.R4  relative resolution: importee = ancestors(importer)[-level] + "." + name  (shape)
  C02.R5  converse: who may create Import records / import edges; edges only between known modules
"""

from __future__ import annotations

import ast
import re

from core.flow import Flow, Spec
from core.guards import atoms_of, conds_formula, evaluate, to_formula
from core.loader import AnalysisError, FuncInfo, Repo, ancestors, calls_in, header, norm, own_nodes, parent
from core.report import Result

from .common import cfg_of, conds, dotted, is_attr_call, loop_carried, loops_around, iter_sources, reachable_funcs, stmt_of, types_of, where

CONVERTER = "pytestarch.eval_structure_generation.file_import.converter"
IMPORT_TYPES = "pytestarch.eval_structure_generation.file_import.import_types"
TYPES_MOD = "pytestarch.eval_structure.types"
NXGRAPH = "pytestarch.eval_structure.networkxgraph"

STMT_CARRIERS = ("stmt*", "excepthandler*", "match_case*")


# --------------------------------------------------------------------------- grammar oracle


def grammar() -> dict[str, list[tuple[str, str]]]:
    """{class name: [(field, type)]} read from the signature docstrings of the running interpreter's ast classes."""
    out: dict[str, list[tuple[str, str]]] = {}
    for name, cls in vars(ast).items():
        if not (isinstance(cls, type) and issubclass(cls, ast.AST)) or cls is ast.AST:
            continue
        if not cls._fields and not (cls.__doc__ or "").startswith(name + "("):
            if cls.__subclasses__():
                continue  # abstract sum type (stmt, expr, ...)
        doc = (cls.__doc__ or "").strip()
        m = re.match(rf"^{re.escape(name)}\((.*)\)\s*$", doc, re.S)
        fields: list[tuple[str, str]] = []
        if m and m.group(1).strip():
            for part in m.group(1).split(","):
                part = part.strip()
                if not part:
                    continue
                typ, _, fname = part.rpartition(" ")
                fields.append((fname, typ))
        elif cls._fields:
            if getattr(cls, "__module__", "") != "ast" and not doc:
                continue
            # deprecated shim classes (Num, Str, ...) or undocumented: skip
            continue
        if set(f for f, _ in fields) != set(cls._fields):
            continue
        out[name] = fields
    if "Module" not in out or "If" not in out:
        raise AnalysisError("could not read the ast grammar from the interpreter's docstrings")
    return out


def concrete_classes_of(typ: str, gram: dict) -> list[str]:
    base = typ.rstrip("*?")
    cls = getattr(ast, base, None)
    if cls is None:
        return []  # identifier, int, string, constant
    out = []
    for name in gram:
        c = getattr(ast, name)
        if issubclass(c, cls):
            out.append(name)
    return out


# --------------------------------------------------------------------------- class-guard evaluation


def _class_tuple(e: ast.expr) -> list[str] | None:
    items = e.elts if isinstance(e, ast.Tuple) else [e]
    names = []
    for it in items:
        d = dotted(it)
        if not d:
            return None
        names.append(d.split(".")[-1])
    return names


def eval_conds_for_class(conditions: list, var: str, cls_name: str) -> bool | None:
    """Truth of a condition list for a node of class `cls_name` bound to `var`; None if it depends on anything else."""
    cls = getattr(ast, cls_name)
    env: dict[str, bool] = {}
    unknown = False
    f = conds_formula(conditions)
    atom_exprs: dict[str, ast.expr] = {}
    for e, _ in conditions:
        for n in ast.walk(e):
            if isinstance(n, ast.Call):
                atom_exprs[norm(n)] = n
                atom_exprs[f"bool({norm(n)})"] = n
    for a in atoms_of(f):
        e = atom_exprs.get(a)
        val = None
        if isinstance(e, ast.Call) and isinstance(e.func, ast.Name) and len(e.args) >= 2 and dotted(e.args[0]) == var:
            if e.func.id == "isinstance":
                names = _class_tuple(e.args[1])
                if names is not None and all(hasattr(ast, n) for n in names):
                    val = any(issubclass(cls, getattr(ast, n)) for n in names)
            elif e.func.id == "hasattr" and isinstance(e.args[1], ast.Constant):
                val = e.args[1].value in cls._fields or e.args[1].value in getattr(cls, "_attributes", ())
        if val is None:
            unknown = True
            env[a] = True
        else:
            env[a] = val
    if not unknown:
        return evaluate(f, env)
    # three-valued: try both values of the unknown atoms
    unk = [a for a in atoms_of(f) if atom_exprs.get(a) is None or env.get(a) is None]
    results = set()
    import itertools

    unknown_atoms = [a for a in atoms_of(f) if not _known_atom(atom_exprs.get(a), var)]
    for vals in itertools.product([False, True], repeat=len(unknown_atoms)):
        e2 = dict(env)
        e2.update(dict(zip(unknown_atoms, vals)))
        results.add(evaluate(f, e2))
    return results.pop() if len(results) == 1 else None


def _known_atom(e: ast.expr | None, var: str) -> bool:
    return (
        isinstance(e, ast.Call)
        and isinstance(e.func, ast.Name)
        and e.func.id in ("isinstance", "hasattr")
        and len(e.args) >= 2
        and dotted(e.args[0]) == var
    )


# --------------------------------------------------------------------------- R1


ALL = "*"


def _worklists(fi: FuncInfo) -> set[str]:
    """Names of lists that are popped inside a `while` loop of the collector."""
    out = set()
    for n in own_nodes(fi.node):
        if isinstance(n, ast.While):
            for c in ast.walk(n):
                if is_attr_call(c, "pop") and isinstance(c.func.value, ast.Name):
                    out.add(c.func.value.id)
    return out


def _aliases(fi: FuncInfo, worklists: set[str]) -> set[str]:
    """Worklist names plus parameters / locals aliased to them (`module_to_search = asts`)."""
    out = set(worklists)
    for n in own_nodes(fi.node):
        if isinstance(n, ast.Assign) and isinstance(n.value, ast.Name):
            for t in n.targets:
                if isinstance(t, ast.Name) and (t.id in out or n.value.id in out):
                    out |= {t.id, n.value.id}
    return out


def _push_of(node: ast.AST, fi: FuncInfo, worklists: set[str]) -> ast.AST | None:
    """The worklist push (`W.extend(..)`, `W.append(..)`, `W += ..`, `W = W + ..`) an expression feeds, if any."""
    for a in ancestors(node):
        if a is fi.node:
            return None
        if isinstance(a, ast.Call) and isinstance(a.func, ast.Attribute) and a.func.attr in ("extend", "append", "insert") and dotted(a.func.value) in worklists:
            return a
        if isinstance(a, ast.AugAssign) and dotted(a.target) in worklists:
            return a
        if isinstance(a, ast.Assign) and any(dotted(t) in worklists for t in a.targets):
            return a
        if isinstance(a, (ast.For, ast.AsyncFor)) and node is not a and _inside(node, a.iter):
            # `for m in <enumeration>: W.append(..m..)`
            for c in ast.walk(ast.Module(body=a.body, type_ignores=[])):
                if isinstance(c, ast.Call) and isinstance(c.func, ast.Attribute) and c.func.attr in ("append", "extend", "insert") and dotted(c.func.value) in worklists:
                    return c
    return None


def _inside(node: ast.AST, root: ast.AST) -> bool:
    return any(n is node for n in ast.walk(root))


def _element_filter(enum: ast.AST, push: ast.AST, fi: FuncInfo) -> tuple[str | None, list]:
    """Loop variable bound to the enumerated children and the conditions restricting which children are pushed."""
    p = parent(enum)
    # comprehension: [.. for m in ENUM if cond]
    if isinstance(p, ast.comprehension) and p.iter is enum and isinstance(p.target, ast.Name):
        return p.target.id, [(c, True) for c in p.ifs]
    # for m in ENUM: if cond: W.append(..)
    if isinstance(p, (ast.For, ast.AsyncFor)) and p.iter is enum and isinstance(p.target, ast.Name):
        all_c = conds(fi, push)
        outer = conds(fi, p)
        extra = [c for c in all_c if not any(c[0] is o[0] for o in outer)]
        return p.target.id, extra
    # W.extend(ENUM) / W += ENUM : no filter
    return None, []


def descent_relation(repo: Repo, fi: FuncInfo, gram: dict):
    """[(fields or ALL, node variable, guard conditions, child variable, child filter, where)] found in the collector."""
    worklists = _aliases(fi, _worklists(fi))
    if not worklists:
        raise AnalysisError(f"{fi.fq}: no worklist loop found (unknown descent idiom)")
    field_names = {f for fields in gram.values() for f, _ in fields}
    found = []
    for n in own_nodes(fi.node):
        fields = None
        var = None
        if isinstance(n, ast.Call):
            fq = repo.resolve_name(fi.module, n.func) or ""
            if fq in ("ast.iter_child_nodes", "ast.walk", "ast.iter_fields") and n.args:
                fields, var = ALL, dotted(n.args[0])
            elif isinstance(n.func, ast.Name) and n.func.id == "getattr" and len(n.args) >= 2:
                if isinstance(n.args[1], ast.Constant) and n.args[1].value in field_names:
                    fields, var = {n.args[1].value}, dotted(n.args[0])
                elif isinstance(n.args[1], ast.Name):
                    # getattr(node, name, ..) inside `for name in ("body", "orelse", ...)` or node._fields
                    for lp in loops_around(n, fi.node):
                        for tgt, it in iter_sources(lp):
                            if isinstance(tgt, ast.Name) and tgt.id == n.args[1].id:
                                if isinstance(it, (ast.Tuple, ast.List)) and all(isinstance(x, ast.Constant) for x in it.elts):
                                    fields, var = {x.value for x in it.elts}, dotted(n.args[0])
                                elif isinstance(it, ast.Attribute) and it.attr == "_fields":
                                    fields, var = ALL, dotted(n.args[0])
        elif isinstance(n, ast.Attribute) and isinstance(n.ctx, ast.Load) and n.attr in field_names and dotted(n.value):
            # node.<field> used as an iteration source
            p = parent(n)
            if (isinstance(p, ast.comprehension) and p.iter is n) or (isinstance(p, (ast.For, ast.AsyncFor)) and p.iter is n) or (
                isinstance(p, ast.Call) and n in p.args and isinstance(p.func, ast.Attribute) and p.func.attr == "extend"
            ):
                fields, var = {n.attr}, dotted(n.value)
        if fields is None or not var:
            continue
        push = _push_of(n, fi, worklists)
        if push is None:
            continue
        child_var, child_filter = _element_filter(n, push, fi)
        found.append((fields, var, conds(fi, push), child_var, child_filter, n))
    return found, worklists


def run_r1(repo: Repo, res: Result, gram: dict) -> FuncInfo:
    fi = repo.func(CONVERTER, "ImportConverter.convert")
    found, worklists = descent_relation(repo, fi, gram)
    if not found:
        raise AnalysisError(f"{fi.fq}: the way child nodes are pushed onto the worklist was not recognised (accepted idioms: ast.iter_child_nodes / ast.walk / ast.iter_fields / node._fields, node.<field> under hasattr, getattr over a literal tuple)")

    def descended_fields(cls_name: str) -> dict[str, list]:
        """field -> list of child filters under which its children are pushed, for a node of this class."""
        out: dict[str, list] = {}
        for fields, var, guard, child_var, child_filter, _ in found:
            ok = eval_conds_for_class(guard, var, cls_name)
            if ok is not True:
                continue
            for f, _t in gram[cls_name]:
                if fields == ALL or f in fields:
                    out.setdefault(f, []).append((child_var, child_filter))
        return out

    def admitted(child_cls: str, filters: list) -> bool:
        for child_var, child_filter in filters:
            if not child_filter or child_var is None:
                return True
            if eval_conds_for_class(child_filter, child_var, child_cls) is not False:
                return True
        return False

    # reachability over grammar classes starting at Module
    reached = {"Module"}
    work = ["Module"]
    edges_ok: set[tuple[str, str]] = set()
    while work:
        c = work.pop()
        d = descended_fields(c)
        for f, typ in gram[c]:
            if f not in d:
                continue
            edges_ok.add((c, f))
            for child in concrete_classes_of(typ, gram):
                if child not in reached and admitted(child, d[f]):
                    reached.add(child)
                    work.append(child)
    # grammar-level reachability through statement-carrying positions only (what *can* hold an import statement)
    g_reached = {"Module"}
    work = ["Module"]
    while work:
        c = work.pop()
        for f, typ in gram[c]:
            if typ in STMT_CARRIERS:
                for child in concrete_classes_of(typ, gram):
                    if child not in g_reached:
                        g_reached.add(child)
                        work.append(child)
    positions = [(c, f, typ) for c in sorted(gram) for f, typ in gram[c] if typ in STMT_CARRIERS]
    n_oblig = 0
    import_classes = sorted(c for c in gram if issubclass(getattr(ast, c), ast.stmt) and any(t == "alias*" for _, t in gram[c]))
    for c, f, typ in positions:
        if c not in g_reached:
            res.observe(f"C02.R1: grammar position {c}.{f} is not reachable from Module through statement lists (separate root), not an obligation")
            continue
        n_oblig += 1
        ok = c in reached and (c, f) in edges_ok
        detail = f"{c}.{f} ({typ}) is descended by the collector" if ok else (
            f"statement-list position {c}.{f} ({typ}) of the interpreter's grammar is never pushed onto the collector's worklist: "
            f"an import statement placed there produces no edge" + ("" if c in reached else f" (nodes of class {c} are never reached)")
        )
        if ok:
            # children that can carry imports must not be filtered away
            d = descended_fields(c)
            needed = concrete_classes_of(typ, gram) if typ != "stmt*" else [x for x in concrete_classes_of(typ, gram) if x in import_classes or any(t in STMT_CARRIERS for _, t in gram[x])]
            lost = [x for x in needed if not admitted(x, d[f])]
            if lost:
                ok = False
                detail = f"children of {c}.{f} of class {', '.join(lost)} are filtered out before being pushed: imports below them produce no edge"
        res.add("C02.R1", f"{fi.relpath}::{fi.qualname}::position {c}.{f}", ok, detail, where(fi, found[0][5]), kind="grammar")
    res.floor("C02.R1", 20, n_oblig)
    res.analysed["grammar_classes"] = len(gram)
    res.analysed["statement_positions"] = [f"{c}.{f}" for c, f, _ in positions]
    res.analysed["descent_idioms"] = [
        {"fields": "ALL" if fields == ALL else sorted(fields), "node": var, "guard": [(norm(e), pol) for e, pol in guard], "child_filter": [(norm(e), pol) for e, pol in flt]}
        for fields, var, guard, _cv, flt, _ in found
    ]
    # leaves: nodes of the import classes must reach the conversion call, not be descended past or dropped
    T = types_of(repo)
    leaf_calls = []
    for call in calls_in(fi.node):
        cs, _how = T.callees(fi, call, byname_fallback=False)
        for c in cs:
            if c.module.name == CONVERTER and c is not fi and any(
                isinstance(n, ast.Call) and isinstance(n.func, ast.Name) and n.func.id == "isinstance" for n in own_nodes(c.node)
            ):
                leaf_calls.append((call, c))
    if not leaf_calls:
        raise AnalysisError(f"{fi.fq}: no call to a dispatching converter found")
    node_vars = {v for _f, v, *_ in found}
    for ic in import_classes:
        ok = False
        for call, _c in leaf_calls:
            cs_ = conds(fi, call)
            verdicts = [eval_conds_for_class(cs_, v, ic) for v in node_vars]
            if any(v is True for v in verdicts) or (not cs_):
                ok = True
        res.add(
            "C02.R1",
            f"{fi.relpath}::{fi.qualname}::leaf {ic}",
            ok,
            f"nodes of class {ic} reach the conversion call" if ok else f"a node of class {ic} never reaches the conversion call (its guard excludes it)",
            where(fi, leaf_calls[0][0]),
            kind="grammar",
        )
    return leaf_calls[0][1]


# --------------------------------------------------------------------------- R2 / R3


def import_record_classes(repo: Repo) -> list:
    base = repo.cls(TYPES_MOD, "Import")
    return [c for c in repo.classes.values() if c is not base and repo.is_subclass(c, base.fq)]


def _branch_class(fi: FuncInfo, node: ast.AST, var: str, classes: list[str]) -> str | None:
    cs_ = conds(fi, node)
    hits = [c for c in classes if eval_conds_for_class(cs_, var, c) is not False]
    return hits[0] if len(hits) == 1 else None


def run_r2_r3(repo: Repo, res: Result, gram: dict, dispatch: FuncInfo) -> None:
    T = types_of(repo)
    import_classes = sorted(c for c in gram if issubclass(getattr(ast, c), ast.stmt) and any(t == "alias*" for _, t in gram[c]))
    rec_classes = import_record_classes(repo)
    rec_fqs = {c.fq for c in rec_classes}
    # node parameter of the dispatcher = the one tested with isinstance against ast.Import*
    node_param = None
    tested: set[str] = set()
    for n in own_nodes(dispatch.node):
        if isinstance(n, ast.Call) and isinstance(n.func, ast.Name) and n.func.id == "isinstance" and len(n.args) == 2:
            names = _class_tuple(n.args[1]) or []
            if any(x in import_classes for x in names) and dotted(n.args[0]) in dispatch.param_names:
                node_param = dotted(n.args[0])
                tested |= set(names)
    if node_param is None:
        raise AnalysisError(f"{dispatch.fq}: no isinstance dispatch on the grammar's import classes {import_classes}")
    for ic in import_classes:
        res.add(
            "C02.R2",
            f"{dispatch.relpath}::{dispatch.qualname}::dispatch {ic}",
            ic in tested,
            f"import statement class {ic} is dispatched" if ic in tested else f"import statement class ast.{ic} is never handled: such statements produce no edge",
            where(dispatch, dispatch.node),
            kind="grammar",
        )
    ctor_sites: dict[str, list[ast.Call]] = {ic: [] for ic in import_classes}
    for call in calls_in(dispatch.node):
        ci = T.ctor_class(dispatch, call)
        if ci is None or ci.fq not in rec_fqs:
            continue
        b = _branch_class(dispatch, call, node_param, import_classes)
        if b is None:
            from core.guards import satisfiable

            if not satisfiable(conds_formula(conds(dispatch, call))):
                continue  # dead code
            raise AnalysisError(f"{dispatch.fq}: constructor call `{norm(call)}` is not under exactly one import-class branch")
        ctor_sites[b].append(call)
    n_sites = 0
    for ic, sites in ctor_sites.items():
        res.add(
            "C02.R2",
            f"{dispatch.relpath}::{dispatch.qualname}::records for {ic}",
            bool(sites),
            f"{len(sites)} import record constructor site(s) in the {ic} branch" if sites else f"no import record is created for ast.{ic} statements",
            where(dispatch, dispatch.node),
            nontrivial=False,
        )
        for call in sites:
            n_sites += 1
            loop = None
            for lp in loops_around(call, dispatch.node):
                for tgt, it in iter_sources(lp):
                    if isinstance(it, ast.Attribute) and it.attr == "names" and dotted(it.value) == node_param and isinstance(tgt, ast.Name):
                        loop = (lp, tgt.id)
                if loop:
                    break
            ok = loop is not None
            detail = "constructed once per alias of `.names`" if ok else (
                f"`{norm(call)}` is not inside a loop over `{node_param}.names`: a multi-name import statement yields at most one record"
            )
            if ok and isinstance(loop[0], (ast.For, ast.AsyncFor)):
                brk = [n for n in ast.walk(loop[0]) if isinstance(n, (ast.Break, ast.Return))]
                if brk:
                    ok = False
                    detail = f"the loop over `{node_param}.names` can be left early (`{header(brk[0])}`): later names of the statement are dropped"
            res.add("C02.R2", repo.key(dispatch, stmt_of(call)) + f" [{ic}]", ok, detail, where(dispatch, call), kind="structural")
    res.floor("C02.R2", 3, n_sites)

    # ---- R3: tags ALIAS (alias.name), MODPART (node.module), INTERNAL (the internal-module set parameter)
    collector = repo.func(CONVERTER, "ImportConverter.convert")
    internal_param = None
    for p in collector.params:
        ann = norm(p.annotation) if p.annotation is not None else ""
        if "set" in ann.lower() and p.arg not in ("self",):
            internal_param = p.arg
    if internal_param is None:
        raise AnalysisError(f"{collector.fq}: no set-typed parameter holding the internal modules")
    alias_vars: set[tuple[str, str]] = set()
    for f in repo.module(CONVERTER).all_funcs:
        for n in own_nodes(f.node):
            for tgt, it in iter_sources(n) if isinstance(n, (ast.For, ast.ListComp, ast.SetComp, ast.GeneratorExp, ast.DictComp)) else []:
                if isinstance(it, ast.Attribute) and it.attr == "names" and isinstance(tgt, ast.Name):
                    alias_vars.add((f.fq, tgt.id))

    def sources(f: FuncInfo, e: ast.expr):
        if isinstance(e, ast.Attribute) and isinstance(e.value, ast.Name):
            if e.attr == "name" and (f.fq, e.value.id) in alias_vars:
                return {"ALIAS"}
            if e.attr == "module" and f is dispatch and e.value.id == node_param:
                return {"MODPART"}
        return None

    scope_mods = {CONVERTER, IMPORT_TYPES, TYPES_MOD}
    flow = Flow(repo, T, Spec(sources=sources, param_seeds={(collector.fq, internal_param): {"INTERNAL"}}, scope=lambda f: f.module.name in scope_mods))
    sites = ctor_sites.get("ImportFrom", [])
    n3 = 0
    for call in sites:
        n3 += 1
        ci = T.ctor_class(dispatch, call)
        # candidate membership tests: in the dispatcher (must dominate the constructor call) or in the constructor's call tree
        init = repo.lookup_method(ci, "__init__")
        funcs = [dispatch] + ([f for f in reachable_funcs(repo, [init], byname=False)] if init else [])
        good = None
        for f in funcs:
            for n in own_nodes(f.node):
                if isinstance(n, ast.Compare) and len(n.ops) == 1 and isinstance(n.ops[0], (ast.In, ast.NotIn)):
                    lt, rt = flow.tags(n.left), flow.tags(n.comparators[0])
                    if "ALIAS" in lt and "INTERNAL" in rt:
                        # must steer control flow (test of if / while / conditional expression), not be discarded
                        p = parent(n)
                        while isinstance(p, (ast.BoolOp, ast.UnaryOp)):
                            p = parent(p)
                        if not isinstance(p, (ast.If, ast.IfExp, ast.While)):
                            continue
                        if f is dispatch:
                            st = stmt_of(n)
                            if not cfg_of(dispatch).dominates(st, stmt_of(call)):
                                # a test on the other level branch does not decide this site
                                same_branch = _same_level_branch(dispatch, n, call)
                                if not same_branch:
                                    continue
                        good = (f, n, "MODPART" in lt)
                        break
            if good:
                break
        ok = good is not None
        detail = (
            f"importee decided by `{norm(good[1])}` in {good[0].qualname}" + ("" if good[2] else " (left operand not derived from the statement's module part: relative `from . import n` form)")
            if ok
            else f"no test `<P>.<alias.name> in <internal modules>` decides the importee of `{norm(call)}`: `from P import n` never names the sub-module P.n"
        )
        res.add("C02.R3", repo.key(dispatch, stmt_of(call)) + " [names consulted]", ok, detail, where(dispatch, call), kind="flow")
    # no value may leak from one alias to the next one of the same statement
    for call_list in ctor_sites.values():
        for call in call_list:
            for lp in loops_around(call, dispatch.node):
                if isinstance(lp, (ast.For, ast.AsyncFor)) and any(isinstance(it, ast.Attribute) and it.attr == "names" for _t, it in iter_sources(lp)):
                    carried = loop_carried(lp)
                    used = {n.id for a in [*call.args, *[k.value for k in call.keywords]] for n in ast.walk(a) if isinstance(n, ast.Name)}
                    # variables feeding the record (directly or through the preceding statements of the loop body)
                    feeding = _feeding_vars(lp, used)
                    leak = sorted(carried & feeding)
                    n3 += 1
                    res.add(
                        "C02.R3",
                        repo.key(dispatch, lp) + " [per-name independence]",
                        not leak,
                        "no variable carries a value from one imported name to the next" if not leak else f"variable(s) {', '.join(leak)} assigned in the loop over `.names` are read before being reset in the next iteration: the importee of one name depends on the previous name",
                        where(dispatch, lp),
                        kind="flow",
                    )
    res.floor("C02.R3", 2, n3)
    res.analysed["flow_rounds"] = flow.rounds


def _same_level_branch(fi: FuncInfo, a: ast.AST, b: ast.AST) -> bool:
    """a and b sit in the same innermost loop body and the If holding a precedes b's statement in the same block chain."""
    la = loops_around(a, fi.node)
    lb = loops_around(b, fi.node)
    if not la or not lb or la[0] is not lb[0]:
        return False
    ca = {id(e): pol for e, pol in conds(fi, stmt_of(a))}
    for e, pol in conds(fi, stmt_of(b)):
        if id(e) in ca and ca[id(e)] != pol:
            return False
    return stmt_of(a).lineno <= stmt_of(b).lineno


def _feeding_vars(loop: ast.For, used: set[str]) -> set[str]:
    feeding = set(used)
    changed = True
    while changed:
        changed = False
        for n in ast.walk(loop):
            if isinstance(n, ast.Assign):
                tg = {x.id for t in n.targets for x in ast.walk(t) if isinstance(x, ast.Name)}
                if tg & feeding:
                    src = {x.id for x in ast.walk(n.value) if isinstance(x, ast.Name)}
                    if not src <= feeding:
                        feeding |= src
                        changed = True
            elif isinstance(n, ast.If):
                body_t = {x.id for s in [*n.body, *n.orelse] for x in ast.walk(s) if isinstance(x, ast.Name) and isinstance(x.ctx, ast.Store)}
                if body_t & feeding:
                    src = {x.id for x in ast.walk(n.test) if isinstance(x, ast.Name)}
                    if not src <= feeding:
                        feeding |= src
                        changed = True
    return feeding


# --------------------------------------------------------------------------- R4


def run_r4(repo: Repo, res: Result) -> None:
    rel = repo.cls(IMPORT_TYPES, "RelativeImport")
    T = types_of(repo)
    # the method whose return value is the importee of a relative import
    importee = repo.lookup_method(rel, "importee")
    if importee is None:
        raise AnalysisError("RelativeImport.importee not found")
    cands = []
    for m in rel.methods.values():
        for n in own_nodes(m.node):
            if isinstance(n, ast.Subscript) and isinstance(n.slice, (ast.UnaryOp, ast.BinOp, ast.Name, ast.Attribute, ast.Constant)):
                base_t = T.expr(m, n.value)
                if "_importer_module_hierarchy" in norm(n.value) or "parent" in norm(n.value):
                    cands.append((m, n))
    if not cands:
        raise AnalysisError("RelativeImport: ancestor lookup `hierarchy[-level]` not recognised")
    n = 0
    for m, sub in cands:
        n += 1
        idx = sub.slice
        ok = isinstance(idx, ast.UnaryOp) and isinstance(idx.op, ast.USub) and "level" in norm(idx.operand).lower() and isinstance(idx.operand, (ast.Name, ast.Attribute))
        res.add(
            "C02.R4",
            repo.key(m, stmt_of(sub)),
            ok,
            "ancestor index is the negated level" if ok else f"the ancestor of a relative import is taken at index `{norm(idx)}` instead of `-level`: `from ..x import y` resolves against the wrong package",
            where(m, sub),
            kind="structural",
        )
        # result = ancestor + "." + name
        st = stmt_of(sub)
        joined = isinstance(st, ast.Return) and st.value is not None and any(isinstance(c, ast.Constant) and c.value == "." for c in ast.walk(st.value)) or any(
            isinstance(c, ast.Constant) and isinstance(c.value, str) and c.value.startswith(".") for c in ast.walk(st)
        )
        res.add("C02.R4", repo.key(m, stmt_of(sub)) + " [dot join]", bool(joined), "ancestor and name are joined with '.'" if joined else "ancestor and name are not joined with '.'", where(m, sub), kind="structural")
    # the hierarchy is get_parent_modules(importer)
    base = repo.cls(TYPES_MOD, "Import")
    init = base.methods.get("__init__")
    ok = False
    if init is not None:
        for c in calls_in(init.node):
            if isinstance(c.func, ast.Name) and c.func.id == "get_parent_modules" and c.args and "importer" in norm(c.args[0]):
                ok = True
    res.add("C02.R4", f"{base.module.relpath}::Import.__init__::importer hierarchy", ok, "importer ancestors come from get_parent_modules(importer)" if ok else "importer ancestors are not computed by get_parent_modules(importer)", nontrivial=False)
    gpm = repo.func(TYPES_MOD, "get_parent_modules")
    dots = [c for c in ast.walk(gpm.node) if isinstance(c, ast.Constant) and c.value == "."]
    other = [c for c in ast.walk(gpm.node) if isinstance(c, ast.Constant) and isinstance(c.value, str) and c.value not in (".", "") and c is not ast.get_docstring(gpm.node)]
    other = [c for c in other if not (isinstance(parent(c), ast.Expr))]
    ok = bool(dots) and not other
    res.add("C02.R4", f"{gpm.relpath}::get_parent_modules::separator", ok, "ancestors are cut at '.' only" if ok else f"get_parent_modules uses separators other than '.': {[c.value for c in other]}", where(gpm, gpm.node), kind="structural")
    res.floor("C02.R4", 3, n + 2)


# --------------------------------------------------------------------------- R5


def run_r5(repo: Repo, res: Result) -> None:
    T = types_of(repo)
    rec_fqs = {c.fq for c in import_record_classes(repo)}
    collector = repo.func(CONVERTER, "ImportConverter.convert")
    allowed = {f.fq for f in reachable_funcs(repo, [collector], byname=False)}
    n = 0
    for f in repo.all_functions():
        for call in calls_in(f.node):
            ci = T.ctor_class(f, call)
            if ci is not None and ci.fq in rec_fqs:
                n += 1
                ok = f.fq in allowed
                res.add(
                    "C02.R5",
                    repo.key(f, stmt_of(call)),
                    ok,
                    "import record created by the collector" if ok else f"import record `{norm(call)}` is created outside the import collector: an edge that no import statement accounts for",
                    where(f, call),
                    kind="effect",
                )
    res.floor("C02.R5", 3, n)
    g = repo.cls(NXGRAPH, "NetworkxGraph")
    adders = []
    for m in g.methods.values():
        for call in calls_in(m.node):
            if is_attr_call(call, "add_edge") and "_graph" in norm(call.func.value):
                adders.append((m, call))
    if not adders:
        raise AnalysisError("NetworkxGraph: no add_edge call found")
    for m, call in adders:
        cs_ = conds(m, call)
        text = " && ".join(f"{'' if pol else 'not '}{norm(e)}" for e, pol in cs_)
        f = conds_formula(cs_)
        ok_all = True
        missing = []
        for a in call.args[:2]:
            an = norm(a)
            want = [f"bool({norm(call.func.value)}.has_node({an}))", f"{an} in {norm(call.func.value)}"]
            from core.guards import atom, f_or, implies

            goal = f_or([atom(w) for w in want])
            if not implies(f, goal):
                ok_all = False
                missing.append(an)
        res.add(
            "C02.R5",
            repo.key(m, stmt_of(call)) + " [both endpoints are known modules]",
            ok_all,
            "edge creation is guarded by has_node on both endpoints" if ok_all else f"an edge is added without checking that {', '.join(missing)} is a known module: imported names that are not modules become edges/nodes (guard: {text or 'none'})",
            where(m, call),
            kind="dominance",
        )
    # nothing else may suppress an edge: the only reasons are self-edge (after flattening), unknown endpoint, edge already present
    for m, call in adders:
        allowed = []
        a0, a1 = (norm(a) for a in call.args[:2])
        gname = norm(call.func.value)
        for e, pol in conds(m, call):
            for part in (e.values if isinstance(e, ast.BoolOp) and isinstance(e.op, ast.And) and pol else [e]):
                t = norm(part.operand if isinstance(part, ast.UnaryOp) and isinstance(part.op, ast.Not) else part)
                okp = (
                    t in (f"{gname}.has_node({a0})", f"{gname}.has_node({a1})", f"{a0} in {gname}", f"{a1} in {gname}", f"{a0} == {a1}", f"{a1} == {a0}")
                    or "already_present" in t
                    or f"{gname}.has_edge({a0}, {a1})" in t
                )
                if not okp:
                    allowed.append(t)
        res.add(
            "C02.R5",
            repo.key(m, stmt_of(call)) + " [no other reason to drop an edge]",
            not allowed,
            "an edge between two known modules is only suppressed as a self-edge or a duplicate" if not allowed else f"the edge is additionally suppressed depending on `{'`, `'.join(allowed)}`: imports between two known modules silently disappear from the architecture",
            where(m, call),
            kind="dominance",
        )
    # import edges take their endpoints from the import records only, oriented importer -> importee
    init = g.methods.get("_initialise")
    if init is None:
        raise AnalysisError("NetworkxGraph._initialise not found")

    def sources(f: FuncInfo, e: ast.expr):
        if isinstance(e, ast.Call) and isinstance(e.func, ast.Attribute) and e.func.attr in ("importer", "importee") and not e.args:
            return {e.func.attr.upper()}
        return None

    flow = Flow(repo, T, Spec(sources=sources, scope=lambda f: f is init))
    k = 0
    for call in calls_in(init.node):
        if is_attr_call(call, "_create_edge"):
            inherits = [kw for kw in call.keywords if kw.arg == "inherits"]
            if (inherits and not (isinstance(inherits[0].value, ast.Constant) and inherits[0].value.value is False)) or len(call.args) > 2:
                continue
            k += 1
            a, b = flow.tags(call.args[0]), flow.tags(call.args[1])
            ok = a == {"IMPORTER"} and b == {"IMPORTEE"}
            res.add(
                "C02.R5",
                repo.key(init, stmt_of(call)) + " [orientation]",
                ok,
                "import edge runs from imp.importer() to imp.importee()" if ok else f"import edge endpoints are not (importer, importee) of the record: start derives from {sorted(a) or 'nothing'}, end from {sorted(b) or 'nothing'}",
                where(init, call),
                kind="flow",
            )
    res.floor("C02.R5.edges", 1, k)


def run(repo: Repo) -> Result:
    res = Result("C02")
    res.explanation = (
        "Decides the mechanism of C02 at the level of statement positions and import forms: (R1) every statement-list position of the "
        "running interpreter's ast grammar is descended by the import collector and import nodes reach the converter; (R2) both import "
        "statement classes are dispatched and every alias of a statement yields a record; (R3) for `from P import n` each n joined to P is "
        "looked up in the internal-module set and no value leaks between names; (R4) relative imports resolve against the importer's "
        "ancestor at -level; (R5) import records are created only by the collector and edges only between known modules, importer->importee."
    )
    res.not_decided = "that ast.parse builds the tree the grammar describes (trusted); behaviour on concrete project trees is not executed."
    res.trusted_base = ["CPython ast module docstrings describe the grammar", "ast.iter_child_nodes yields every child node", "engine resolver/flow (core/)"]
    gram = grammar()
    dispatch = run_r1(repo, res, gram)
    run_r2_r3(repo, res, gram, dispatch)
    run_r4(repo, res)
    run_r5(repo, res)
    return res
