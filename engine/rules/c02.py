"""C02 - every import statement in a scanned file becomes an import edge, only those.

The rules are *symbolic test cases against public entry points*, decided by the path-enumerating symbolic executor of
`c02_sym.py` / `c02_exec.py` / `c02_builtins.py` (static: the source of /repo is interpreted on symbolic inputs, nothing is imported
or run).  Only names that tests / docs / other modules use are anchored: `ImportConverter().convert(asts, prefix, internal)`,
`NamedModule(ast, name)`, the abstract `Import` API (`importer()`, `importee()`), `NetworkxGraph(all_modules, imports, level_limit)`,
the library calls `ast.*` and `DiGraph.add_edge / has_node / ...`.  Private helpers, local names, loop idioms are never looked at.

  C02.R1  descent: for every statement-list position of the running interpreter's `ast` grammar (oracle), in every nesting context,
          an import statement placed there comes out of `convert` as an import record; a tree without import statements yields none
  C02.R2  dispatch: every import statement class of the grammar yields exactly one record per imported name, importer = the file
  C02.R3  `from P import n`: the importee of each name is P.n if that is an internal module and P otherwise (absolute and relative),
          decided by a membership test in the internal-module set, independently for each name of the statement
  C02.R4  relative resolution: the package a relative import is resolved against is ancestors(importer)[-level], and ancestors()
          yields exactly the proper dotted prefixes of a module name
  C02.R6  completeness on the way to the graph: wherever a collection of import records is de-duplicated / filtered by record equality
          (set(), dict.fromkeys, `in`, ...), equality of two records must imply the same (importer(), importee()) - else two import
          statements collapse into one edge
  C02.R7  source -> tree: on the way from the public scan entry (reaches a directory listing and a parse call) every `ast.parse` /
          `compile(.., PyCF_ONLY_AST)` that produces the trees uses the running interpreter's full grammar (mode exec, no older
          feature_version), is not under a handler that swallows SyntaxError and lets the scan go on without the file, and its
          result itself is what is wrapped for the collector
  C02.R5  converse: import records are created only by the collector; the graph adds an import edge importer -> importee exactly when
          both are known nodes, distinct (after flattening) and the edge is not present yet - for no other reason is it dropped.
          Decided twice: symbolically (one opaque record, every path; construction that is first recorded in native collections and
          materialised later is followed through the collections: c02_sym.OpenInfo) and on constants (`run_r5_samples`: the whole
          constructor interpreted on 14 sample imports x 4 level limits with a concrete model of the networkx graph, the result read back
          through `nodes` / `edges` / `parent_child_relationship` and compared with the demanded edge set - a mismatch is a VIOLATION with
          a concrete counterexample; when the symbolic analysis has no verdict the decision on constants stands in for it)
  C02.R4  (anchor) a spelling of "importer minus its last `level` components" that the term comparison does not know is decided on
          concrete importers and levels (`anchor_by_samples`)
"""

from __future__ import annotations

import ast
import re
from typing import Any

from core.loader import AnalysisError, FuncInfo as FuncInfoT, Repo, calls_in, norm, own_nodes
from core.report import Result

from . import c02_builtins  # noqa: F401  (installs the full interpreter into Explorer)
from .c02_sym import ANode, App, Cat, Explorer, Inst, Run, Sym, Term, Unsupported, cat, dataclass_eq, mentions, show, subterms
from .common import callees_of, reachable_funcs, stmt_of, types_of, where

CONVERTER = "pytestarch.eval_structure_generation.file_import.converter"
IMPORT_TYPES = "pytestarch.eval_structure_generation.file_import.import_types"
TYPES_MOD = "pytestarch.eval_structure.types"
NXGRAPH = "pytestarch.eval_structure.networkxgraph"

STMT_CARRIERS = ("stmt*", "excepthandler*", "match_case*")


# --------------------------------------------------------------------------- grammar oracle


def grammar() -> dict[str, list[tuple[str, str]]]:
    """{class name: [(field, type)]} read from the signature docstrings of the running interpreter's ast classes."""
    out: dict[str, list[tuple[str, str]]] = {}
    for name, cls in vars(ast).items():
        if not (isinstance(cls, type) and issubclass(cls, ast.AST)) or cls is ast.AST:
            continue
        if not cls._fields and not (cls.__doc__ or "").startswith(name + "("):
            if cls.__subclasses__():
                continue  # abstract sum type (stmt, expr, ...)
        doc = (cls.__doc__ or "").strip()
        m = re.match(rf"^{re.escape(name)}\((.*)\)\s*$", doc, re.S)
        fields: list[tuple[str, str]] = []
        if m and m.group(1).strip():
            for part in m.group(1).split(","):
                part = part.strip()
                if not part:
                    continue
                typ, _, fname = part.rpartition(" ")
                fields.append((fname, typ))
        elif cls._fields:
            continue  # deprecated shim classes (Num, Str, ...) or undocumented: skip
        if set(f for f, _ in fields) != set(cls._fields):
            continue
        out[name] = fields
    if "Module" not in out or "If" not in out:
        raise AnalysisError("could not read the ast grammar from the interpreter's docstrings")
    return out


def concrete_classes_of(typ: str, gram: dict) -> list[str]:
    base = typ.rstrip("*?")
    cls = getattr(ast, base, None)
    if cls is None:
        return []  # identifier, int, string, constant
    return [name for name in gram if issubclass(getattr(ast, name), cls)]


def import_classes_of(gram: dict) -> list[str]:
    return sorted(c for c in gram if issubclass(getattr(ast, c), ast.stmt) and any(t == "alias*" for _, t in gram[c]))


# --------------------------------------------------------------------------- abstract syntax trees


_PRIMITIVE = {"identifier": "x", "int": 0, "string": "s", "constant": None}


def _representative(gram: dict, typ: str, depth: int) -> Any:
    """A value of a grammar type: primitives natively, node types by their simplest concrete class."""
    if typ in _PRIMITIVE:
        return _PRIMITIVE[typ]
    cands = concrete_classes_of(typ, gram)
    if not cands or depth > 4:
        return Sym(f"<{typ}>")
    prefer = {"expr": "Name", "expr_context": "Load", "stmt": "Pass", "pattern": "MatchAs"}
    c = prefer.get(typ) if prefer.get(typ) in cands else min(cands, key=lambda k: (sum(1 for _f, t in gram[k] if not t.endswith(("*", "?"))), len(gram[k]), k))
    return node(gram, c, _depth=depth + 1)


def node(gram: dict, cls: str, tag: str = "", _depth: int = 0, **fields: Any) -> ANode:
    """Abstract node of a grammar class: list fields empty, optional fields None, mandatory fields a representative of their type."""
    f: dict[str, Any] = {}
    for fname, typ in gram[cls]:
        if fname in fields:
            f[fname] = fields[fname]
        elif typ.endswith("*"):
            f[fname] = []
        elif typ.endswith("?"):
            f[fname] = None
        else:
            f[fname] = _representative(gram, typ, _depth)
    return ANode(cls, f, tag)


def import_leaf(gram: dict, cls: str, names: list[str], module: Any = None, level: Any = 0, symbolic: bool = True) -> ANode:
    aliases = [node(gram, "alias", name=Sym(n, "str") if symbolic else n, asname=Sym(f"{n}_asname", "optstr") if symbolic else None) for n in names]
    extra: dict[str, Any] = {}
    for fname, _typ in gram[cls]:
        if fname == "module":
            extra["module"] = module
        elif fname == "level":
            extra["level"] = level
    return node(gram, cls, names=aliases, **extra)


def filler(gram: dict, i: int) -> ANode:
    if i % 2:
        return node(gram, "Pass")
    return node(gram, "Expr", value=node(gram, "Name", id="x"))


def positions_of(gram: dict) -> tuple[list[tuple[str, str, str]], dict[str, list[tuple[str, str]]]]:
    """Statement-carrying positions reachable from Module, and for every reachable class the shortest chain of positions leading to it."""
    chains: dict[str, list[tuple[str, str]]] = {"Module": []}
    work = ["Module"]
    while work:
        c = work.pop(0)
        for f, typ in gram[c]:
            if typ in STMT_CARRIERS:
                for child in concrete_classes_of(typ, gram):
                    if child not in chains:
                        chains[child] = chains[c] + [(c, f)]
                        work.append(child)
    pos = [(c, f, typ) for c in sorted(gram) for f, typ in gram[c] if typ in STMT_CARRIERS]
    return pos, chains


def wrap(gram: dict, chain: list[tuple[str, str]], inner: ANode) -> ANode:
    """Tree in which `inner` sits at the end of the chain of positions (each level also carries sibling statements)."""
    cur = inner
    for c, f in reversed(chain):
        typ = dict(gram[c])[f]
        sibs = [filler(gram, 1), cur, filler(gram, 0)] if typ == "stmt*" else [cur]
        cur = node(gram, c, **{f: sibs})
    return cur


# --------------------------------------------------------------------------- running the collector


class Collector:
    """The public entry `ImportConverter().convert(list[NamedModule], prefix, internal modules)` under the symbolic executor."""

    def __init__(self, repo: Repo, hierarchy_fq: str | None) -> None:
        self.repo = repo
        self.conv_cls = repo.cls(CONVERTER, "ImportConverter")
        self.named = repo.cls(IMPORT_TYPES, "NamedModule")
        self.entry = repo.lookup_method(self.conv_cls, "convert")
        if self.entry is None:
            raise AnalysisError("anchor ImportConverter.convert not found")
        self.base = repo.cls(TYPES_MOD, "Import")
        self.opaque = {hierarchy_fq} if hierarchy_fq else set()
        self.paths = 0
        self.fallbacks: set[str] = set()
        self.entered: set[str] = set()

    def run(self, tree: ANode, prefix: Any, internal: Any, importer: Any) -> list[Run]:
        repo = self.repo

        def entry(it):
            conv = it.instantiate(self.conv_cls, [], {}, None, None)
            nm = it.instantiate(self.named, [tree, importer], {}, None, None)
            res = it.call(it.getattr_value(conv, "convert"), [[nm], prefix, internal], {})
            kind, items = it.iterate(res, self.entry.node, None) if res is not None else ("concrete", [])
            if kind != "concrete":
                raise Unsupported("convert() returns a collection of unknown length", self.entry.node, self.entry)
            out = []
            for r in items:
                if not isinstance(r, Inst) or not repo.is_subclass(r.ci, self.base.fq):
                    raise Unsupported(f"convert() returned a {show(r)} instead of an Import record", self.entry.node, self.entry)
                out.append((r, it.call(it.getattr_value(r, "importer"), [], {}), it.call(it.getattr_value(r, "importee"), [], {})))
            return out

        ex = Explorer(repo, opaque=self.opaque)
        runs = ex.explore(entry)
        self.paths += len(runs)
        self.fallbacks |= ex.fallbacks
        self.entered |= ex.entered
        return runs


def fmt_path(r: Run, only: Any = None) -> str:
    items = [(a, v) for a, v in r.trace if a.fn not in ("loop", "call") and (only is None or only(a))]
    return ", ".join(f"{show(a)} = {v}" for a, v in items) or "no decision"


# --------------------------------------------------------------------------- R1


def run_r1(repo: Repo, res: Result, gram: dict, col: Collector, leaves: list[str]) -> None:
    fi = col.entry
    key = f"{fi.relpath}::{fi.qualname}"
    wh = where(fi, fi.node)
    pos, chains = positions_of(gram)
    F = Sym("importer", "str")

    def leaf_stmts(tagno: int) -> tuple[list[ANode], list[str]]:
        out, names = [], []
        for i, lc in enumerate(leaves):
            n = f"leaf{tagno}x{i}"  # concrete names: R1 is about the descent, what is done with names is R2 / R3
            out.append(import_leaf(gram, lc, [n], module=f"{n}pkg", level=0, symbolic=False))
            names.append(n)
        return out, names

    def probe(chain: list[tuple[str, str]], c: str, f: str, typ: str) -> str | None:
        """None if an import placed at position c.f (c itself sitting at the end of `chain`) comes out as a record, else the reason."""
        stmts, names = leaf_stmts(0)
        block = [filler(gram, 0), *stmts, filler(gram, 1)]
        if typ == "stmt*":
            content = block
            variants = [content]
        else:
            variants = []
            for carrier in concrete_classes_of(typ, gram):
                body_fields = [bf for bf, bt in gram[carrier] if bt == "stmt*"]
                if not body_fields:
                    continue
                variants.append([node(gram, carrier, **{body_fields[0]: list(block)})])
        for content in variants:
            tree = wrap(gram, chain, node(gram, c, **{f: content})) if c != "Module" else node(gram, "Module", body=content)
            if tree.cls != "Module":
                raise AnalysisError(f"chain for {c} does not start at Module")
            runs = col.run(tree, "", set(), F)
            for r in runs:
                if r.outcome != "return":
                    return f"the collector raises {r.raised}"
                got = r.value
                for n in names:
                    if not any(n in show(imp) for _rec, _a, imp in got):
                        return f"no record for the import of `{n}`" + (f" below {content[0].cls}" if typ != "stmt*" else "")
                if len(got) != len(names):
                    return f"{len(got)} records for {len(names)} import statements"
        return None

    n_oblig = 0
    direct: dict[tuple[str, str], str | None] = {}
    gave_up: dict[tuple[str, str], Unsupported] = {}
    live = []
    for c, f, typ in pos:
        if c not in chains:
            res.observe(f"C02.R1: grammar position {c}.{f} is not reachable from Module through statement lists (separate root), not an obligation")
            continue
        live.append((c, f, typ))
        try:
            direct[(c, f)] = probe(chains[c], c, f, typ)
        except Unsupported as u:
            gave_up[(c, f)] = u
    for c, f, typ in live:
        n_oblig += 1
        if (c, f) in gave_up:
            u = gave_up[(c, f)]
            res.undecide("C02.R1", f"{key}::position {c}.{f}", f"the symbolic executor cannot interpret the collector: {u.msg}", u.where() or wh)
            continue
        why = direct[(c, f)]
        ctx_fail: list[str] = []
        if why is None:
            # the same position nested below every other position that can hold a node of class c; contexts that lose imports
            # themselves are reported at their own position, not again here
            try:
                for d, g, dtyp in live:
                    if direct.get((d, g), "x") is not None or c == "Module" or c not in concrete_classes_of(dtyp, gram):
                        continue
                    w = probe(chains[d] + [(d, g)], c, f, typ)
                    if w is not None:
                        ctx_fail.append(f"{d}.{g} ({w})")
            except Unsupported as u:
                res.undecide("C02.R1", f"{key}::position {c}.{f}", f"the symbolic executor cannot interpret the collector: {u.msg}", u.where() or wh)
                continue
        ok = why is None and not ctx_fail
        if ok:
            detail = f"an import statement at {c}.{f} ({typ}), at top level of its chain and nested below every other statement position, is converted"
        elif why is not None:
            detail = f"an import statement placed at the statement-list position {c}.{f} ({typ}) of the interpreter's grammar produces no import record: {why}"
        else:
            detail = f"an import statement at {c}.{f} is lost when the {c} node is nested below: {', '.join(ctx_fail[:6])}"
        res.add("C02.R1", f"{key}::position {c}.{f}", ok, detail, wh, kind="grammar")
    res.floor("C02.R1", 20, n_oblig)
    # converse at the collector: no statement, no record
    try:
        tree = node(gram, "Module", body=[filler(gram, 0), node(gram, "If", body=[filler(gram, 1)], orelse=[filler(gram, 0)])])
        runs = col.run(tree, Sym("prefix", "anystr"), Sym("internal", "set"), F)
        bad = [r for r in runs if r.outcome == "return" and r.value]
        res.add(
            "C02.R1",
            f"{key}::no import statement, no record",
            not bad,
            "a file without import statements yields no import record" if not bad else f"a file without import statements yields {len(bad[0].value)} import record(s): {', '.join(show(x[2]) for x in bad[0].value[:3])}",
            wh,
            kind="grammar",
        )
    except Unsupported as u:
        res.undecide("C02.R1", f"{key}::no import statement, no record", u.msg, u.where() or wh)
    res.analysed["statement_positions"] = [f"{c}.{f}" for c, f, _ in pos]
    res.analysed["grammar_classes"] = len(gram)


# --------------------------------------------------------------------------- R2 / R3 / R4


class Case:
    """One import statement with two names under fully symbolic options; every path classified against the specification."""

    def __init__(self, gram: dict, cls: str) -> None:
        self.cls = cls
        self.has_module = any(f == "module" for f, _ in gram[cls])
        self.has_level = any(f == "level" for f, _ in gram[cls])
        self.names = [Sym("n1", "str"), Sym("n2", "str")]
        self.P = Sym("P", "optstr")
        self.L = Sym("level", "nat")
        self.F = Sym("importer", "str")
        self.X = Sym("prefix", "anystr")
        self.S = Sym("internal", "set")
        leaf = import_leaf(gram, cls, ["n1", "n2"], module=self.P, level=self.L)
        self.tree = node(gram, "Module", body=[leaf])


def path_val(r: Run, atom: App) -> bool | None:
    if atom in r.path:
        return r.path[atom]
    if atom.fn == "in":
        if r.path.get(App("truthy", (atom.args[1],))) is False:
            return False
    return None


def split_anchor(t: Any) -> tuple[Any, Any]:
    """(head, rest) of a dotted term `head + "." + rest`; rest is None when the term has no such shape."""
    if isinstance(t, Cat) and len(t.parts) >= 3 and isinstance(t.parts[1], str) and t.parts[1].startswith("."):
        rest = cat(t.parts[1][1:], *t.parts[2:])
        return t.parts[0], rest
    return t, None


CONV_INTERNAL = {"root", "root.pkg", "root.pkg.mod", "root.pkg.sub", "root.pkg.sub.leaf", "root.pkg.sub.sib", "root.pkg.sub.sib.deep", "root.other", "root.other.thing"}
CONV_IMPORTER = "root.pkg.sub.leaf"
# (statement class, names, module part, level) -> importees the property demands for the importer above
CONV_SAMPLES = [
    ("Import", ["root.other", "os.path"], None, 0, ["root.other", "os.path"]),
    ("ImportFrom", ["thing", "nothing"], "root.other", 0, ["root.other.thing", "root.other"]),
    ("ImportFrom", ["pkg"], "root", 0, ["root.pkg"]),
    ("ImportFrom", ["sib", "nomod"], None, 1, ["root.pkg.sub.sib", "root.pkg.sub.nomod"]),
    ("ImportFrom", ["deep", "nothing"], "sib", 1, ["root.pkg.sub.sib.deep", "root.pkg.sub.sib"]),
    ("ImportFrom", ["x"], "mod", 2, ["root.pkg.mod"]),
    ("ImportFrom", ["other", "thing"], None, 3, ["root.other", "root.thing"]),
    ("ImportFrom", ["thing"], "other", 3, ["root.other.thing"]),
]


def run_conv_samples(repo: Repo, gram: dict) -> tuple[str, str]:
    """The collector interpreted on constant trees (one import statement per form, nested in a function body and an else branch), its
    records compared with what the property demands.  ("ok" | "bad" | "undecided", detail) - "bad" carries the counterexample."""
    col = Collector(repo, None)
    for cls, names, module, level, want in CONV_SAMPLES:
        if cls not in gram:
            continue
        leaf = import_leaf(gram, cls, names, module=module, level=level, symbolic=False)
        tree = node(gram, "Module", body=[filler(gram, 1), node(gram, "If", test=node(gram, "Name", id="x"), body=[filler(gram, 0)], orelse=[leaf])])
        try:
            runs = col.run(tree, "zz", set(CONV_INTERNAL), CONV_IMPORTER)
        except Unsupported as u:
            return "undecided", u.msg
        if len(runs) != 1 or runs[0].outcome != "return" or col.fallbacks:
            return "undecided", f"{len(runs)} paths / {runs[0].outcome}" if runs else "no run"
        got = [(importer, importee) for _rec, importer, importee in runs[0].value]
        if not all(isinstance(a, str) and isinstance(b, str) for a, b in got):
            return "undecided", "records with symbolic names on constant input"
        form = f"import {', '.join(names)}" if cls == "Import" else f"from {'.' * level}{module or ''} import {', '.join(names)}"
        if sorted(got) != sorted((CONV_IMPORTER, w) for w in want):
            return "bad", f"`{form}` in module `{CONV_IMPORTER}` (internal modules {sorted(CONV_INTERNAL)}) yields the imports {sorted(b for _a, b in got)} from {sorted({a for a, _b in got})} - the property demands {sorted(want)} from ['{CONV_IMPORTER}']"
    return "ok", ""


def run_r2_r3_r4(repo: Repo, res: Result, gram: dict, col: Collector) -> tuple[list[str], str | None]:
    """Returns the import classes that are dispatched at all (usable as leaves for R1) and the fq of the ancestor function seen in R4."""
    fi = col.entry
    key = f"{fi.relpath}::{fi.qualname}"
    wh = where(fi, fi.node)
    conv = run_conv_samples(repo, gram)
    res.analysed["conversion_samples"] = conv[0]
    if conv[0] == "bad":
        res.add("C02.R3", f"{key} [on constants]", False, conv[1], wh, kind="flow")
    real_undecide = res.undecide

    def undecide(rule: str, construct: str, detail: str, at: str = "") -> None:
        """No symbolic verdict: the decision on constants stands in for it when there is one."""
        if conv[0] == "ok":
            res.add(rule, construct + " [on constants]", True, f"the symbolic analysis has no verdict ({detail[:200]}); on {len(CONV_SAMPLES)} constant import statements the records are the demanded ones", at or wh, kind="flow")
        elif conv[0] == "undecided":
            real_undecide(rule, construct, detail, at)
    usable: list[str] = []
    hierarchy_fq: str | None = None
    n2 = n3 = n4 = 0
    for cls in import_classes_of(gram):
        case = Case(gram, cls)
        before = set(col.fallbacks)
        try:
            runs = col.run(case.tree, case.X, case.S, case.F)
        except Unsupported as u:
            undecide("C02.R2", f"{key}::dispatch {cls}", f"the symbolic executor cannot interpret the conversion of ast.{cls}: {u.msg}", u.where() or wh)
            n2, n3, n4 = n2 + 4, n3 + 2, n4 + 1  # attempted: the floors must not mask the reason
            continue
        L0 = App("eq", (case.L, 0))
        noneP = App("isnone", (case.P,))
        feasible = [r for r in runs if not (case.has_level and case.has_module and path_val(r, L0) is True and path_val(r, noneP) is True)]
        # ---- R2: dispatched, one record per name, importer is the file
        none_at_all = all(r.outcome == "return" and not r.value for r in feasible)
        ok = not none_at_all
        res.add("C02.R2", f"{key}::dispatch {cls}", ok, f"import statement class ast.{cls} is converted" if ok else f"import statement class ast.{cls} is never converted: such statements produce no import record (and no edge)", wh, kind="grammar")
        n2 += 1
        if none_at_all:
            continue
        usable.append(cls)
        problems: dict[str, list[str]] = {"count": [], "importer": [], "raise": [], "plain": [], "indep": [], "consult": [], "from": [], "anchor": [], "level": []}
        undecided: list[str] = []
        sites: dict[str, str] = {}
        sampled: tuple[str, str] | None = None
        for r in feasible:
            pc = fmt_path(r)
            if r.outcome == "loop-body":
                continue  # one iteration of a loop of unknown length explored on its own: not a result of the conversion
            if r.outcome != "return":
                problems["raise"].append(f"the conversion raises {r.raised} when {pc}")
                continue
            recs = r.value
            if len(recs) != len(case.names) and any(v and a.fn == "eq" and all(mentions(a, x) for x in case.names) for a, v in r.path.items()):
                continue  # the two names were decided to be the same name: one record may stand for both
            if len(recs) != len(case.names):
                problems["count"].append(f"{len(recs)} record(s) for a statement importing {len(case.names)} names ({', '.join(show(x[2]) for x in recs) or 'none'}) when {pc}")
                continue
            for i, (rec, importer, importee) in enumerate(recs):
                n = case.names[i]
                other = case.names[1 - i]
                if importer != case.F:
                    problems["importer"].append(f"the record for <{n.name}> has importer {show(importer)} instead of the importing file's module")
                    sites.setdefault("importer", rec.site)
                if not case.has_module:
                    allowed = [n, cat(case.X, ".", n)]
                    if importee not in allowed:
                        kind = "indep" if mentions(importee, other) else "plain"
                        problems[kind].append(f"`import {show(n)}` names {show(importee)} when {pc}")
                        sites.setdefault(kind, rec.site)
                    continue
                # from-import
                lv = path_val(r, L0) if case.has_level else True
                if lv is None:
                    problems["level"].append(f"the record for <{n.name}> ({show(importee)}) is produced without consulting the statement's level")
                    sites.setdefault("level", rec.site)
                    continue
                if lv:
                    bases = [case.P, cat(case.X, ".", case.P)]
                else:
                    head, rest = split_anchor(importee)
                    verdict, fq = check_anchor(head, case)
                    if verdict is not None and any(mentions(a, case.L) and a != L0 for a in r.path):
                        verdict = "undecided"  # the path has pinned the level (an unrolled loop, a comparison): the term need not mention it
                    if verdict == "undecided":
                        # a spelling the term comparison does not know: decide it on concrete importers and levels instead
                        if sampled is None:
                            sampled = anchor_by_samples(repo, gram, cls)
                        if sampled[0] == "ok":
                            verdict = None
                        elif sampled[0] == "bad":
                            verdict = sampled[1]
                    if verdict == "undecided":
                        undecided.append(f"the package a relative import is resolved against is computed as {show(head)}, a shape the executor cannot compare with ancestors(importer)[-level]")
                        continue
                    if verdict is not None:
                        problems["anchor"].append(verdict)
                        sites.setdefault("anchor", rec.site)
                        continue
                    hierarchy_fq = hierarchy_fq or fq
                    pn = path_val(r, noneP)
                    if pn is None:
                        problems["consult"].append(f"the importee of `from {'.' * 1}[P] import {show(n)}` is {show(importee)} whether or not the module part P is present")
                        sites.setdefault("consult", rec.site)
                        continue
                    if pn:
                        if rest != n:
                            kind = "indep" if mentions(importee, other) else "from"
                            problems[kind].append(f"`from . import {show(n)}` names {show(importee)} instead of {show(cat(head, '.', n))} when {pc}")
                            sites.setdefault(kind, rec.site)
                        continue
                    bases = [cat(head, ".", case.P)]
                good = False
                consulted = False
                for b in bases:
                    sub = cat(b, ".", n)
                    v = path_val(r, App("in", (sub, case.S)))
                    if v is not None:
                        consulted = True
                    if (v is True and importee == sub) or (v is False and importee == b):
                        good = True
                if good:
                    continue
                form = f"from {'P' if lv else '.P'} import {show(n)}"
                if mentions(importee, other):
                    problems["indep"].append(f"the importee of <{n.name}> in `from P import <n1>, <n2>` is {show(importee)}: it depends on the other imported name (when {pc})")
                    sites.setdefault("indep", rec.site)
                elif not consulted:
                    problems["consult"].append(f"`{form}` names {show(importee)} without any test whether {show(cat(bases[0], '.', n))} is an internal module: the sub-module P.n is never named (when {pc})")
                    sites.setdefault("consult", rec.site)
                else:
                    problems["from"].append(f"`{form}` names {show(importee)} when {pc}")
                    sites.setdefault("from", rec.site)
        for u in undecided[:1]:
            undecide("C02.R4", f"{key}::{cls} relative anchor", u, wh)
        odd = [a for r in feasible for a, _v in r.trace if mentions(a, case.S) and not ((a.fn == "in" and a.args[1] == case.S and not mentions(a.args[0], case.S)) or a == App("truthy", (case.S,)))]
        if odd and any(problems[k] for k in ("consult", "from", "plain")):
            undecide("C02.R3", f"{key}::{cls} conversion", f"the internal-module set is consulted in a way the executor cannot relate to `P.n in internal_modules`: {show(odd[0])}", wh)
            continue
        new_fallbacks = sorted(x for x in col.fallbacks - before if not any(x.startswith(o + " ") for o in col.opaque))
        if new_fallbacks and any(problems.values()):
            # a helper could only be treated as an uninterpreted function: mismatches with the specification may be artefacts of that
            undecide("C02.R3", f"{key}::{cls} conversion", f"part of the conversion cannot be interpreted: {new_fallbacks[0]}", wh)
            continue

        def add(rule: str, what: str, kinds: list[str], good: str) -> None:
            bad = [p for k in kinds for p in problems[k]]
            site = next((sites[k] for k in kinds if k in sites), wh)
            res.add(rule, f"{key}::{cls} {what}", not bad, good if not bad else bad[0] + (f" (+{len(bad) - 1} more paths)" if len(bad) > 1 else ""), site if bad else wh, kind="flow")

        add("C02.R2", "[one record per imported name]", ["count", "raise"], f"every path yields one record per name of an ast.{cls} statement")
        add("C02.R2", "[importer is the file]", ["importer"], "every record's importer is the scanned file's module")
        n2 += 2
        if not case.has_module:
            add("C02.R2", "[importee is the named module]", ["plain", "indep"], "`import a.b.c` names a.b.c (optionally below the absolute-import prefix)")
            n2 += 1
        else:
            add("C02.R3", "[names consulted]", ["consult", "from"], "the importee is P.n exactly when the membership test of P.n in the internal-module set succeeds, else P (absolute and relative form)")
            add("C02.R3", "[per-name independence]", ["indep"], "the importee of one imported name never depends on another name of the same statement")
            add("C02.R4", "[anchor is ancestors(importer)[-level]]", ["anchor", "level"], "relative imports are resolved against the importer's ancestor at index -level")
            n3 += 2
            n4 += 1
    res.floor("C02.R2", 4, n2)
    res.floor("C02.R3", 2, n3)
    return usable, hierarchy_fq


def anchor_by_samples(repo: Repo, gram: dict, cls: str) -> tuple[str, str]:
    """Decides the anchor of relative imports on concrete importers and levels (every helper interpreted, nothing opaque): with
    importer `pa.pb.pc.pd` and level k the importee must start with the importer minus its last k components.  ("ok" | "bad" |
    "undecided", detail) - "bad" carries a concrete counterexample."""
    col = Collector(repo, None)
    for F, k in (("pa.pb.pc.pd", 1), ("pa.pb.pc.pd", 2), ("pa.pb.pc.pd", 3), ("qa.qb", 1)):
        expected = ".".join(F.split(".")[:-k])
        for P in (Sym("P", "str"), None):
            if not any(f == "module" for f, _ in gram[cls]) and P is not None:
                continue
            tree = node(gram, "Module", body=[import_leaf(gram, cls, ["n1"], module=P, level=k)])
            try:
                runs = col.run(tree, Sym("prefix", "anystr"), Sym("internal", "set"), F)
            except Unsupported as u:
                return "undecided", u.msg
            seen = 0
            for r in runs:
                if r.outcome != "return":
                    continue
                for _rec, _importer, importee in r.value:
                    seen += 1
                    lead = importee.parts[0] if isinstance(importee, Cat) else importee
                    if not isinstance(lead, str):
                        return "undecided", f"the importee {show(importee)} of a relative import in module {F} does not start with a constant package"
                    if lead != expected + ".":
                        form = f"from {'.' * k}{'P' if P is not None else ''} import n"
                        return "bad", f"`{form}` in module `{F}` names {show(importee)}: resolved against `{lead.rstrip('.')}` instead of `{expected}` (the importer without its last {k} component(s))"
            if not seen:
                return "undecided", f"no record for a relative import of level {k} in module {F}"
    return "ok", ""


def check_anchor(head: Any, case: Case) -> tuple[str | None, str | None]:
    """None if `head` is ancestors(importer)[-level]; a violation text; or 'undecided'. Second value: fq of the ancestors function.

    Accepted spellings of "the importer with its last `level` components removed":
      H[-level], H[len(H) - level], reversed(H)[level - 1], H[::-1][level - 1]      with H = <ancestors function>(importer)
      importer.rsplit(".", level)[0],  ".".join(importer.split(".")[:-level])
    """
    F, L = case.F, case.L
    if any(isinstance(x, Sym) and "#" in x.name for x in subterms(head)) or any(isinstance(x, App) and x.fn in ("seq", "open", "elem", "after") for x in subterms(head)):
        return "undecided", None  # computed by a loop of unknown length (the executor forgot what the loop did): decided on samples
    if isinstance(head, Term) and not mentions(head, L):
        return f"the package a relative import is resolved against ({show(head)}) does not depend on the statement's level", None
    if isinstance(head, Term) and not mentions(head, F):
        return f"the package a relative import is resolved against ({show(head)}) does not depend on the importing module", None
    if head == App("index", (App("meth:rsplit", (F, ".", L)), 0)):
        return None, None
    if head == App("meth:join", (".", App("index", (App("meth:split", (F, ".")), App("slice", (None, App("neg", (L,)), None)))))):
        return None, None
    if not (isinstance(head, App) and head.fn == "index"):
        return "undecided", None
    seq, idx = head.args
    rev = False
    if isinstance(seq, App) and (seq.fn == "reversed" or (seq.fn == "index" and seq.args[1] == App("slice", (None, None, -1)))):
        seq, rev = seq.args[0], True
    if not (isinstance(seq, App) and seq.fn.startswith("call:") and seq.args == (F,)):
        return "undecided", None
    if rev:
        good_idx = idx == App("add", (L, -1))
        want = "level - 1 of the reversed ancestors"
    else:
        good_idx = idx == App("neg", (L,)) or idx == App("sub", (App("len", (seq,)), L))
        want = "-level"
    if not good_idx:
        return f"the ancestor package of a relative import is taken at index `{show(idx)}` instead of `{want}`: `from ..x import y` resolves against the wrong package", seq.fn[5:]
    return None, seq.fn[5:]


def run_r4_ancestors(repo: Repo, res: Result, fq: str | None) -> None:
    """The function whose result is indexed with -level must return the proper dotted prefixes of a name, shortest first."""
    f = repo.funcs.get(fq) if fq else None
    if f is None:
        f = repo.find_func(TYPES_MOD, "get_parent_modules")
    if f is None:
        res.undecide("C02.R4", "ancestors function", "neither seen in the relative-import term nor found as get_parent_modules")
        return
    samples = {"a.b.c": ["a", "a.b"], "top": [], "pkg.sub.mod.leaf": ["pkg", "pkg.sub", "pkg.sub.mod"], "x.y": ["x"], "my_pkg.sub-mod.x_1": ["my_pkg", "my_pkg.sub-mod"]}
    folded = True
    why_not = ""
    bad: list[str] = []
    for arg, want in samples.items():
        try:
            ex = Explorer(repo, max_runs=50)
            runs = ex.explore(lambda it, f=f, arg=arg: it._run_function(f, [arg], {}, None))
            if len(runs) != 1 or runs[0].outcome != "return":
                folded = False
                why_not = f"{len(runs)} paths / outcome {runs[0].outcome} {runs[0].raised} on {arg!r}"
                break
            got = runs[0].value
            got = list(got) if isinstance(got, (list, tuple)) else got
            if got != want:
                bad.append(f"{f.name}({arg!r}) folds to {show(got)} instead of {want!r}")
        except Unsupported as u:
            folded = False
            why_not = f"{u.msg} at {u.where()}"
            break
    key = f"{f.relpath}::{f.qualname}::ancestors of a dotted name"
    if folded:
        res.add("C02.R4", key, not bad, "constant folding on sample names yields exactly the proper dotted prefixes, shortest first" if not bad else bad[0] + ": relative imports resolve against the wrong package", where(f, f.node), kind="structural")
        return
    # the body cannot be folded on constants: no verdict on it (never guess from its literals)
    res.undecide("C02.R4", key, f"{f.name} cannot be constant-folded on sample names by the symbolic executor ({why_not})", where(f, f.node))


MEMO_DECORATORS = {"lru_cache", "cache", "cached", "memoize", "memoized"}
LIST_MUTATORS = {"append", "extend", "insert", "pop", "remove", "clear", "sort", "reverse", "__setitem__", "__delitem__", "__iadd__"}


def run_r4_shared_ancestors(repo: Repo, res: Result, fq: str | None) -> None:
    """A memoised ancestors function hands the *same* list object to every caller: nothing may mutate a value that aliases its result,
    else the importer hierarchy that later relative imports are resolved against is no longer the list of proper prefixes."""
    from core.flow import Flow, Spec

    f = repo.funcs.get(fq) if fq else None
    if f is None:
        f = repo.find_func(TYPES_MOD, "get_parent_modules")
    if f is None:
        return
    memo = sorted(set(f.decorators) & MEMO_DECORATORS)
    if not memo:
        res.observe(f"C02.R4: {f.name} is not memoised: every caller gets a fresh list, aliasing of the ancestor lists is not an obligation")
        return
    T = types_of(repo)

    def sources(fi, e):
        if isinstance(e, ast.Call):
            try:
                cs, _how = T.callees(fi, e, byname_fallback=False)
            except Exception:  # noqa: BLE001
                return None
            if any(c.fq == f.fq for c in cs):
                return {"ANCESTORS"}
        return None

    def post(fi, e, tags):
        # only aliases keep the tag: copies and derived values (a + b, x[:], list(x), sorted(x), comprehensions, strings) are new objects
        if "ANCESTORS" not in tags:
            return tags
        if isinstance(e, (ast.Name, ast.Attribute, ast.IfExp, ast.BoolOp, ast.NamedExpr, ast.Starred)):
            return tags
        if isinstance(e, ast.Call):
            if sources(fi, e):
                return tags
            try:
                cs, how = T.callees(fi, e, byname_fallback=False)
            except Exception:  # noqa: BLE001
                cs, how = [], ""
            if cs and how == "repo":
                return tags
        return tags - {"ANCESTORS"}

    flow = Flow(repo, T, Spec(sources=sources, post=post, objects_carry=False))
    bad: list[tuple[Any, ast.AST, str]] = []
    for g in repo.all_functions():
        if isinstance(g.node, ast.Lambda):
            continue
        for n_ in own_nodes(g.node):
            tgt = None
            if isinstance(n_, ast.Call) and isinstance(n_.func, ast.Attribute) and n_.func.attr in LIST_MUTATORS:
                tgt = n_.func.value
            elif isinstance(n_, ast.Subscript) and isinstance(n_.ctx, (ast.Store, ast.Del)):
                tgt = n_.value
            elif isinstance(n_, ast.AugAssign):
                tgt = n_.target
            if tgt is None:
                continue
            try:
                if "ANCESTORS" in flow.tags(tgt if not isinstance(n_, ast.AugAssign) else _as_load_expr(tgt)):
                    bad.append((g, n_, norm(stmt_of(n_))))
            except Exception:  # noqa: BLE001
                continue
    key = f"{f.relpath}::{f.qualname}::memoised result is never mutated"
    if bad:
        g, n_, text = bad[0]
        res.add("C02.R4", key, False, f"{f.name} is memoised (@{memo[0]}) and returns a list, and `{text}` in {g.qualname} mutates a value that aliases its result: the cached ancestor list is changed for every later import record, relative imports then resolve against the wrong package", where(g, n_), kind="flow")
    else:
        res.add("C02.R4", key, True, f"{f.name} is memoised (@{memo[0]}); no value aliasing its result is mutated anywhere", where(f, f.node), kind="flow")


def _as_load_expr(t: ast.expr) -> ast.expr:
    return t


# --------------------------------------------------------------------------- R5


def import_record_classes(repo: Repo) -> list:
    base = repo.cls(TYPES_MOD, "Import")
    return [c for c in repo.classes.values() if c is not base and repo.is_subclass(c, base.fq)]


def run_r5_creators(repo: Repo, res: Result, col: Collector) -> None:
    T = types_of(repo)
    rec_fqs = {c.fq for c in import_record_classes(repo)}
    # the collector's call tree: statically resolved calls plus every function the symbolic runs of `convert` actually entered
    # (covers library-dispatched callbacks such as ast.NodeVisitor.visit_*)
    allowed = {f.fq for f in reachable_funcs(repo, [col.entry], byname=False)} | col.entered
    n = 0
    for f in repo.all_functions():
        for call in calls_in(f.node):
            ci = T.ctor_class(f, call)
            if ci is not None and ci.fq in rec_fqs:
                n += 1
                ok = f.fq in allowed
                res.add(
                    "C02.R5",
                    repo.key(f, stmt_of(call)),
                    ok,
                    "import record created by the collector" if ok else f"import record `{norm(call)}` is created outside the import collector: an edge that no import statement accounts for",
                    where(f, call),
                    kind="effect",
                )
    res.analysed["record_constructor_sites"] = n  # no floor: that records are created at all is established by R2 on the symbolic runs


def run_r5_graph(repo: Repo, res: Result) -> None:
    g = repo.cls(NXGRAPH, "NetworkxGraph")
    init = repo.lookup_method(g, "__init__")
    key = f"{g.module.relpath}::NetworkxGraph(all_modules, imports, level_limit)"
    wh = where(init, init.node) if init is not None else ""
    R = Sym("imp")
    a = App("meth:importer", (R,))
    b = App("meth:importee", (R,))

    def entry(it):
        return it.instantiate(g, [[Sym("module", "str")], [R], Sym("level_limit", "optint")], {}, None, None)

    sampled = run_r5_samples(repo)
    res.analysed["graph_samples"] = sampled[0]
    if sampled[0] == "bad":
        res.add("C02.R5", key + " [on constants]", False, sampled[1], sampled[2] or wh, kind="flow")

    stood_in: list = []

    def give_up(detail: str, at: str) -> None:
        """No symbolic verdict: the decision on constants stands in for it when there is one."""
        if sampled[0] == "ok" and not stood_in:
            stood_in.append(detail)
            res.add("C02.R5", key + " [on constants]", True, f"the symbolic analysis has no verdict ({detail[:200]}); on {len(SAMPLE_IMPORTS)} sample imports and four level limits the graph has exactly the demanded import edges and nodes", wh, kind="flow")
        elif sampled[0] == "undecided":
            res.undecide("C02.R5", key, detail, at)

    try:
        ex = Explorer(repo, opaque={f"{TYPES_MOD}::get_parent_modules"}, split_calls=True, max_runs=6000)
        runs = ex.explore(entry)
    except Unsupported as u:
        give_up(f"the symbolic executor cannot interpret the graph construction: {u.msg}", u.where() or wh)
        return
    res.analysed["graph_paths"] = len(runs)

    def about(t: Any) -> str:
        ma, mb = mentions(t, a), mentions(t, b)
        return "AB" if ma and mb else "A" if ma else "B" if mb else ""

    def endpoints(e) -> tuple[str, str] | None:
        if e.kind != "ext" or e.name != "add_edge" or len(e.args) < 2:
            return None
        return about(e.args[0]), about(e.args[1])

    def attrs(e) -> dict:
        d = dict(e.args[2]) if len(e.args) > 2 and isinstance(e.args[2], dict) else {}
        d.update(e.kwargs)
        return d

    # edges inside one module hierarchy (both ends derived from the same side of the record) carry the marker of hierarchy edges
    hier = [attrs(e) for r in runs for e in r.effects if endpoints(e) is not None and not ("A" in "".join(endpoints(e)) and "B" in "".join(endpoints(e)))]
    hier_marker = {k: v for k, v in hier[0].items() if isinstance(v, bool) and all(h.get(k) is v for h in hier)} if hier else {}

    murky: set[str] = set()  # names of collections asked for an endpoint whose relation to the nodes of the graph is not understood
    ledgers: set[str] = set()  # names of native collections whose members the construction turns into nodes (recorded construction)

    def known_node(r: Run, e, t: Any) -> bool:
        """has_node(t) was established before the edge is added and no node has been removed since - or, where the construction is
        recorded first and materialised later: t was found in a collection, and as a member of it was added as a node before the edge."""
        removers = ("remove_node", "remove_nodes_from", "clear")
        for at, v in e.path.items():
            if v and at.fn.startswith("hasnode@") and at.args == (e.obj.name, t):
                since = int(at.fn.split("@")[1])
                if since <= e.version and not any(x.kind == "ext" and x.obj is e.obj and x.name in removers and since <= x.version < e.version for x in r.effects):
                    return True
        for at, v in e.path.items():
            if v and at.fn.startswith("member@") and at.args[1] == t:
                for x in r.effects:
                    if x is e:
                        break
                    if x.kind == "ext" and x.obj is e.obj and x.name == "add_node" and x.args and x.args[0] == t and (at.args[0], t) in x.origins:
                        if not any(y.kind == "ext" and y.obj is e.obj and y.name in removers and x.version <= y.version < e.version for y in r.effects):
                            ledgers.add(at.args[0])
                            return True
        return False

    def same_by_equalities(r: Run) -> bool:
        """The equalities decided on the path identify a term of the importer's side with one of the importee's side (self-edge)."""
        cls: dict[Any, Any] = {}

        def find(t: Any) -> Any:
            while cls.get(t, t) != t:
                t = cls[t]
            return t

        for at, v in r.path.items():
            if at.fn == "eq" and v:
                cls[find(at.args[0])] = find(at.args[1])
        groups: dict[Any, set[str]] = {}
        for t in list(cls) + list(cls.values()):
            try:
                groups.setdefault(find(t), set()).add(about(t))
            except TypeError:
                continue
        return any({"A", "B"} <= g for g in groups.values())

    orient_bad: list[str] = []
    known_bad: list[str] = []
    drop_bad: list[str] = []
    unknown: list[str] = []
    n_edges = 0
    edge_where = wh
    with_edge: list[tuple[Run, int]] = []  # runs that add the import edge, and how many decisions they had taken by then
    for r in runs:
        first: int | None = None
        for e in r.effects:
            ep = endpoints(e)
            if ep is None or not ("A" in ep[0] + ep[1] and "B" in ep[0] + ep[1]):
                continue  # not an edge between the two sides of the import record
            n_edges += 1
            edge_where = e.where or edge_where
            x, y = e.args[0], e.args[1]
            if "AB" in ep:
                # an endpoint computed from both sides of the record (or read back from an opaque collection that holds both): the
                # executor cannot tell which way the edge runs - no evidence of a wrong orientation
                unknown.append(f"an edge is added from {show(x)[:200]} to {show(y)[:200]}: the executor cannot separate importer and importee in these endpoints")
                continue
            if ep != ("A", "B"):
                orient_bad.append(f"an edge is added from {show(x)} to {show(y)}: its endpoints are not (importer, importee) of the import record")
                continue
            at = attrs(e)
            unknown_attr = [k for k in hier_marker if not isinstance(at.get(k), bool) and k in at]
            if unknown_attr:
                unknown.append(f"the edge importer -> importee is added with `{unknown_attr[0]}` = {show(at[unknown_attr[0]])}, not a constant")
                continue
            if hier_marker and all(at.get(k) is v for k, v in hier_marker.items()):
                orient_bad.append(f"the edge {show(x)} -> {show(y)} is marked like a parent-child edge ({', '.join(f'{k}={v}' for k, v in hier_marker.items())}): it does not count as an import")
                continue
            if first is None:
                first = e.n_decisions
            for t in (x, y):
                if not known_node(r, e, t):
                    asked = [at for at, v in e.path.items() if v and at.fn.startswith("member@") and at.args[1] == t]
                    about_graph = [at for at, v in e.path.items() if not at.fn.startswith(("hasnode@", "hasedge@", "member@")) and mentions(at, t) and any(isinstance(x, str) and x == e.obj.name for x in subterms(at))]
                    if about_graph and not asked:
                        # something about this endpoint and the graph was asked - in a form the executor does not understand
                        unknown.append(f"the edge {show(x)} -> {show(y)} is added after the condition {show(about_graph[0])[:200]} was decided: the executor cannot tell whether it establishes that {show(t)} is a node")
                        continue
                    if asked:
                        # a membership test did precede the edge - in a collection the executor cannot relate to the nodes of the graph
                        unknown.append(f"the edge {show(x)} -> {show(y)} is added after {show(t)} was found in the collection {asked[0].args[0]}: the executor cannot tell whether that collection holds the known modules")
                        murky.add(asked[0].args[0])
                        continue
                    known_bad.append(f"the edge {show(x)} -> {show(y)} is added without a check that {show(t)} is a known module: imported names that are not modules become edges / nodes")
        if first is not None:
            with_edge.append((r, first))
        elif r.outcome == "raise":
            # module names are strings (`all_modules: list[str]`, `Import.importer() -> str`, ...): a path on which one of them is None
            # (`if node is None: raise ValueError`, which networkx' add_node does as well) is outside the domain of the property
            if any(v and at.fn == "isnone" and not (isinstance(at.args[0], Sym) and at.args[0].kind in ("optint", "optstr")) for at, v in r.path.items()):
                continue
            unknown.append(f"graph construction raises {r.raised} when {fmt_path(r)}")

    def excuse(r: Run, at: App, v: bool) -> bool:
        if at.fn == "eq" and v and ({about(at.args[0]), about(at.args[1])} == {"A", "B"} or same_by_equalities(r)):
            return True
        if at.fn.startswith("hasnode@") and not v and about(at.args[1]) in ("A", "B"):
            return True
        if at.fn.startswith("member@") and not v and at.args[0] in ledgers and about(at.args[1]) in ("A", "B"):
            return True  # not recorded as a node: an unknown endpoint
        if at.fn.startswith("member@") and v and isinstance(at.args[1], tuple) and len(at.args[1]) >= 2 and about(at.args[1][0]) == "A" and about(at.args[1][1]) == "B":
            return True  # the pair (importer, importee) is recorded already: like has_edge
        if at.fn.startswith("hasedge@") and v and about(at.args[1]) == "A" and about(at.args[2]) == "B":
            return True
        return False

    # every path that does not add the import edge: the decision at which it leaves the nearest path that does add it must be a
    # legitimate reason (self-edge, unknown endpoint, edge already there) - or a merely structural one (separately explored loop / call)
    edge_runs = {id(r) for r, _ in with_edge}
    for r in runs:
        if id(r) in edge_runs or r.outcome == "raise" or not with_edge:
            continue
        best_j, best = -1, None
        for e_run, k in with_edge:
            j = 0
            while j < len(r.trace) and j < len(e_run.trace) and r.trace[j] == e_run.trace[j]:
                j += 1
            if j > best_j:
                best_j, best = j, (e_run, k)
        if best_j >= len(r.trace) or best_j >= best[1]:
            continue  # ended (or was cut off) before anything distinguishes it from a path that adds the edge
        at, v = r.trace[best_j]
        if at.fn in ("loop", "call") or any(excuse(r, a2, v2) for a2, v2 in r.trace[: best_j + 1]):
            continue
        if at.fn.startswith("member@") and at.args[0] in murky:
            continue  # already reported as undecided  # (an edge that exists already may be kept or replaced depending on its kind: everything decided after has_edge is about that)
        drop_bad.append(f"the import edge importer -> importee is not added when {show(at)} = {v} (on a path where both are known, distinct modules and no such edge exists yet, it is added only when {show(at)} = {not v})")
    if ex.fallbacks and (orient_bad or known_bad or drop_bad or not n_edges):
        # a helper could only be treated as an uninterpreted function: what looks like a violation may be an artefact of that
        give_up(f"part of the graph construction cannot be interpreted: {sorted(ex.fallbacks)[0]}", wh)
        return
    for u in unknown[:1]:
        give_up(u, wh)
    if unknown and not n_edges:
        return
    if not any(e.kind == "ext" for r in runs for e in r.effects):
        give_up("the construction never calls a mutator of a networkx graph object the executor recognises (nx.DiGraph())", wh)
        return
    ok = n_edges > 0
    if not ok:
        opaque = [e for r in runs for e in r.effects if e.kind == "ext" and e.name in ("add_edge", "add_edges_from") and any(mentions(x, R) for x in e.args)]
        if opaque:
            # edges are built from the record - through values the executor could not reduce to importer() / importee()
            give_up(f"an edge is added between {show(opaque[0].args[0])[:160]} and {show(opaque[0].args[1])[:160] if len(opaque[0].args) > 1 else '...'}: derived from the import record in a way the executor cannot interpret", opaque[0].where or wh)
            return
    res.add("C02.R5", key + " [import edge exists]", ok, f"import edges are added on {n_edges} path(s)" if ok else "no path of the graph construction adds an edge for an import record", wh, nontrivial=False)
    if not ok:
        return
    res.add("C02.R5", key + " [orientation]", not orient_bad, "every import edge runs from imp.importer() to imp.importee() of one record" if not orient_bad else orient_bad[0], edge_where, kind="flow")
    res.add("C02.R5", key + " [both endpoints are known modules]", not known_bad, "an import edge is only added when has_node holds for both endpoints in the same graph state" if not known_bad else known_bad[0], edge_where, kind="dominance")
    res.add("C02.R5", key + " [no other reason to drop an edge]", not drop_bad, "an edge between two known modules is only suppressed as a self-edge or because it is already present" if not drop_bad else drop_bad[0] + ": imports between two known modules silently disappear from the architecture", edge_where, kind="dominance")


# --------------------------------------------------------------------------- R5 on samples

SAMPLE_MODULES = ["top", "top.pkg", "top.pkg.mod", "top.pkg.mo", "top.pkg.sub", "top.pkg.sub.deep", "top.pkgx", "top.other", "top.other.leaf", "solo"]
SAMPLE_IMPORTS = [
    ("top.pkg.mod", "top.other.leaf"),  # across packages
    ("top.pkg.mod", "top.pkg.mo"),  # sibling whose name is a string prefix of the importer's
    ("top.pkg.mod", "top.pkg.sub.deep"),  # into a sibling sub package
    ("top.pkg", "top.pkg.sub.deep"),  # a package imports a module below itself (not its direct child)
    ("top.other.leaf", "top.pkg"),  # a package as importee
    ("top.pkg.mod", "external.lib"),  # not a module of the project
    ("top.pkg.mod", "top.pkg.mod"),  # itself
    ("top.pkg.mod", "top.other.leaf"),  # a second time
    ("solo", "top"),
    ("top.pkg.sub.deep", "top.pkg"),  # own ancestor: outside the claim
    ("top.pkg.mod", "top.other"),  # second and third import of one importer
    ("top.pkg.mod", "top.pkgx"),  # package whose name is a string extension of the importer's package
    ("top.other", "solo"),
    ("top.pkg.mo", "top.pkg.mod"),  # importer's name is a string prefix of the importee's
]


def run_r5_samples(repo: Repo) -> tuple[str, str, str]:
    """The graph construction interpreted on constants (nothing symbolic, the networkx graph modelled concretely), read back through
    the public API (`nodes`, `edges`, `parent_child_relationship`) and compared with what the property demands for these inputs:
    an import edge flat(importer) -> flat(importee) exactly for the imports whose ends are known, distinct nodes (imports of an own
    ancestor, and of a direct child whose parent-child edge takes precedence in today's code, are not judged); no node that is not a
    module.  ("ok" | "bad" | "undecided", detail, where)"""
    g = repo.cls(NXGRAPH, "NetworkxGraph")
    rec_cls = None
    for c in sorted(import_record_classes(repo), key=lambda c: c.fq):
        # the record class that can be made from (importer, importee) alone and reports them back (AbsoluteImport today)

        def probe(it, c=c):
            r = it.instantiate(c, ["sample.importer", "sample.importee"], {}, None, None)
            return it.call(it.getattr_value(r, "importer"), [], {}) == "sample.importer" and it.call(it.getattr_value(r, "importee"), [], {}) == "sample.importee"

        try:
            probes = Explorer(repo, max_runs=5).explore(probe)
        except Unsupported:
            continue
        if len(probes) == 1 and probes[0].outcome == "return" and probes[0].value is True:
            rec_cls = c
            break
    if rec_cls is None:
        return "undecided", "no import record class that can be constructed from (importer, importee)", ""

    def parents(n: str) -> list[str]:
        parts = n.split(".")
        return [".".join(parts[:i]) for i in range(1, len(parts))]

    for limit in (None, 1, 2, 0):

        def flat(n: str) -> str:
            return n if limit is None else ".".join(n.split(".")[: limit + 1])

        def entry(it):
            recs = [it.instantiate(rec_cls, [a, b], {}, None, None) for a, b in SAMPLE_IMPORTS]
            for r, (a, b) in zip(recs, SAMPLE_IMPORTS):
                if it.call(it.getattr_value(r, "importer"), [], {}) != a or it.call(it.getattr_value(r, "importee"), [], {}) != b:
                    raise Unsupported(f"{rec_cls.name}({a!r}, {b!r}) does not report these as importer() / importee()")
            gobj = it.instantiate(g, [list(SAMPLE_MODULES), recs, limit], {}, None, None)
            kind, nodes = it.iterate(it.getattr_value(gobj, "nodes"), g.node, None)
            kind2, edges = it.iterate(it.getattr_value(gobj, "edges"), g.node, None)
            if kind != "concrete" or kind2 != "concrete":
                raise Unsupported("nodes / edges of the constructed graph are not concrete")
            out = []
            for e in edges:
                u, v = e
                out.append((u, v, it.truth(it.call(it.getattr_value(gobj, "parent_child_relationship"), [u, v], {}))))
            return list(nodes), out

        ex = Explorer(repo, split_calls=False, max_runs=50)
        ex.concrete_graph = True
        try:
            runs = ex.explore(entry)
        except Unsupported as u:
            return "undecided", f"the graph construction cannot be interpreted on constants: {u.msg}", u.where()
        if len(runs) != 1 or runs[0].outcome != "return" or ex.fallbacks:
            why = f"raises {runs[0].raised}" if len(runs) == 1 and runs[0].outcome == "raise" else f"{len(runs)} paths" if len(runs) != 1 else f"uninterpreted helper {sorted(ex.fallbacks)[0]}" if ex.fallbacks else runs[0].outcome
            return "undecided", f"the graph construction on constants (level_limit={limit}) does not come out as one concrete run: {why}", ""
        nodes, edges = runs[0].value
        if not all(isinstance(n, str) for n in nodes) or not all(isinstance(u, str) and isinstance(v, str) for u, v, _h in edges):
            return "undecided", "nodes of the constructed graph are not plain names", ""
        known = {flat(m) for mod in SAMPLE_MODULES for m in [*parents(mod), mod]}
        expected: set[tuple[str, str]] = set()
        lenient: set[tuple[str, str]] = set()
        for a, b in SAMPLE_IMPORTS:
            u, v = flat(a), flat(b)
            if u == v or u not in known or v not in known:
                continue
            if v in parents(u) or (parents(v) and parents(v)[-1] == u):
                lenient.add((u, v))
            else:
                expected.add((u, v))
        got = {(u, v) for u, v, hier in edges if not hier}
        inputs = f"all_modules={SAMPLE_MODULES}, level_limit={limit}"
        stray = [n for n in nodes if n not in known]
        if stray:
            culprit = next((f"{a} -> {b}" for a, b in SAMPLE_IMPORTS for x in (a, b) if stray[0] == flat(x) or stray[0] in [flat(p) for p in parents(x)]), "?")
            return "bad", f"with {inputs} and the import `{culprit}` the graph has the node `{stray[0]}`, which is not a module: imported names that are not modules become nodes (and later imports of them edges)", ""
        missing = sorted(expected - got)
        if missing:
            a, b = next((a, b) for a, b in SAMPLE_IMPORTS if (flat(a), flat(b)) == missing[0])
            marked = any((u, v) == missing[0] for u, v, hier in edges if hier)
            return "bad", f"with {inputs} the import `{a}` -> `{b}` yields no import edge `{missing[0][0]}` -> `{missing[0][1]}`" + (" (the edge is there, marked as a parent-child edge)" if marked else "") + ": an import between two known, distinct modules disappears from the architecture", ""
        extra = sorted(got - expected - lenient)
        if extra:
            return "bad", f"with {inputs} the graph has the import edge `{extra[0][0]}` -> `{extra[0][1]}` although no import record (after flattening) runs from the first to the second: an edge that no import statement accounts for", ""
    return "ok", "", ""


# --------------------------------------------------------------------------- R6


def _substitute(t: Any, pairs: list[tuple[Any, Any]]) -> Any:
    """Rewrites a term with the equalities decided on a path (right-hand sides replaced by left-hand sides) to a fixpoint."""

    def rw(x: Any) -> Any:
        for a, b in pairs:
            if x == b:
                return a
        if isinstance(x, Cat):
            return cat(*[rw(p) for p in x.parts])
        if isinstance(x, App):
            return App(x.fn, tuple(rw(p) for p in x.args))
        if isinstance(x, tuple):
            return tuple(rw(p) for p in x)
        return x

    for _ in range(6):
        n = rw(t)
        if n == t:
            return n
        t = n
    return t


def record_equality_sites(repo: Repo) -> list[tuple[FuncInfoT, ast.AST, str]]:
    """Expressions anywhere in src that compare / hash import records: de-duplication or filtering by record equality."""
    T = types_of(repo)
    base = repo.cls(TYPES_MOD, "Import")

    def is_record(t: tuple) -> bool:
        ms = t[1] if t[0] == "union" else [t]
        return any(m[0] == "cls" and m[1] in repo.classes and repo.is_subclass(repo.classes[m[1]], base.fq) for m in ms)

    def holds_records(t: tuple) -> bool:
        ms = t[1] if t[0] == "union" else [t]
        return any(m[0] == "b" and m[1] in ("list", "seq", "iter", "set", "frozenset", "tuple", "dict") and m[2] and any(is_record(a) for a in m[2][:1]) for m in ms)

    out = []
    for f in repo.all_functions():
        if isinstance(f.node, ast.Lambda):
            continue
        for n in own_nodes(f.node):
            try:
                if isinstance(n, ast.Call):
                    fn = n.func
                    name = fn.id if isinstance(fn, ast.Name) else fn.attr if isinstance(fn, ast.Attribute) else ""
                    args = [a.value if isinstance(a, ast.Starred) else a for a in n.args]
                    if name in ("set", "frozenset", "Counter", "fromkeys", "update", "union", "difference", "intersection", "symmetric_difference", "issubset", "issuperset") and args and holds_records(T.expr(f, args[0])):
                        out.append((f, n, f"`{norm(n)}` keys a collection by record equality"))
                    elif name in ("add", "remove", "discard", "index", "count", "__contains__") and isinstance(fn, ast.Attribute) and args and is_record(T.expr(f, args[0])):
                        out.append((f, n, f"`{norm(n)}` compares records"))
                elif isinstance(n, ast.SetComp) and is_record(T.expr(f, n.elt)):
                    out.append((f, n, f"`{norm(n)}` collects records in a set"))
                elif isinstance(n, ast.DictComp) and is_record(T.expr(f, n.key)):
                    out.append((f, n, f"`{norm(n)}` keys a dict by records"))
                elif isinstance(n, ast.Set) and any(isinstance(e, ast.Starred) and holds_records(T.expr(f, e.value)) or (not isinstance(e, ast.Starred) and is_record(T.expr(f, e))) for e in n.elts):
                    out.append((f, n, f"`{norm(n)}` collects records in a set"))
                elif isinstance(n, ast.Compare) and any(isinstance(o, (ast.In, ast.NotIn)) for o in n.ops) and is_record(T.expr(f, n.left)):
                    out.append((f, n, f"`{norm(n)}` tests membership of a record by equality"))
            except Exception:  # noqa: BLE001  (the resolver gives up on an expression: not a site we can type)
                continue
    return out


def run_r6(repo: Repo, res: Result, gram: dict, col: Collector) -> None:
    base = repo.cls(TYPES_MOD, "Import")
    by_value = [c for c in import_record_classes(repo) if repo.lookup_method(c, "__eq__") is not None or repo.lookup_method(c, "__hash__") is not None or dataclass_eq(c)]
    res.analysed["record_classes_with_value_equality"] = [c.name for c in by_value]
    if not by_value:
        res.observe("C02.R6: import records compare by identity: no de-duplication of a record list can merge two statements")
        return
    sites = record_equality_sites(repo)
    # pairs of statements that differ in one component; equal records must mean equal edges
    P, n, F, X, S = Sym("P", "optstr"), "n", Sym("importer", "str"), Sym("prefix", "anystr"), Sym("internal", "set")
    lossy: list[str] = []
    gave_up: Unsupported | None = None
    named = col.named

    def pair_runs(stmts_a: list[ANode], stmts_b: list[ANode], Fa: Any, Fb: Any) -> list[Run]:
        def entry(it):
            conv = it.instantiate(col.conv_cls, [], {}, None, None)
            nms = [it.instantiate(named, [node(gram, "Module", body=st), fx], {}, None, None) for st, fx in ((stmts_b, Fb), (stmts_a, Fa))]
            recs = it.call(it.getattr_value(conv, "convert"), [nms, X, S], {})
            kind, items = it.iterate(recs, col.entry.node, None)
            if kind != "concrete" or len(items) != 2 or not all(isinstance(r, Inst) for r in items):
                return None
            r1, r2 = items
            same = it.equal(r1, r2)
            return same, [(it.call(it.getattr_value(r, "importer"), [], {}), it.call(it.getattr_value(r, "importee"), [], {})) for r in (r1, r2)], r1.ci.name

        ex = Explorer(repo, opaque=col.opaque, max_runs=3000)
        return ex.explore(entry)

    cases = []
    for cls in import_classes_of(gram):
        has_module = any(f == "module" for f, _ in gram[cls])
        if has_module:
            L1, L2 = Sym("level1", "nat"), Sym("level2", "nat")
            cases.append((f"`from <level1 dots>P import n` / `from <level2 dots>P import n` in one file", [import_leaf(gram, cls, [n], P, L1)], [import_leaf(gram, cls, [n], P, L2)], F, F))
            cases.append((f"`from P1 import n` / `from P2 import n` in one file", [import_leaf(gram, cls, [n], Sym("P1", "optstr"), L1)], [import_leaf(gram, cls, [n], Sym("P2", "optstr"), L1)], F, F))
        cases.append((f"ast.{cls} of two different names in one file", [import_leaf(gram, cls, ["n1"], P, Sym("level1", "nat"))], [import_leaf(gram, cls, ["n2"], P, Sym("level1", "nat"))], F, F))
        cases.append((f"the same ast.{cls} statement in two files", [import_leaf(gram, cls, [n], P, Sym("level1", "nat"))], [import_leaf(gram, cls, [n], P, Sym("level1", "nat"))], Sym("importer1", "str"), Sym("importer2", "str")))
    for what, sa, sb, Fa, Fb in cases:
        try:
            runs = pair_runs(sa, sb, Fa, Fb)
        except Unsupported as u:
            gave_up = gave_up or u
            continue
        for r in runs:
            if r.outcome != "return" or r.value is None:
                continue
            same, pairs, clsname = r.value
            if not same:
                continue
            eqs = [(a.args[0], a.args[1]) for a, v in r.path.items() if a.fn == "eq" and v and isinstance(a.args[1], Term)]
            e1, e2 = (_substitute(p, eqs) for p in pairs)
            if e1 != e2:
                lossy.append(f"two {clsname} records from {what} compare equal although they stand for different imports: {show(pairs[0][0])} -> {show(pairs[0][1])} and {show(pairs[1][0])} -> {show(pairs[1][1])} (equality decided by: {fmt_path(r, lambda a: a.fn == 'eq') })")
                break
    key = f"{base.module.relpath}::Import records::equality determines the edge"
    if gave_up is not None and not lossy:
        if sites:
            res.undecide("C02.R6", key, f"record equality cannot be interpreted ({gave_up.msg}) and records are compared at {len(sites)} site(s)", gave_up.where())
        else:
            res.observe(f"C02.R6: record equality not interpreted ({gave_up.msg}); no site compares records")
        return
    if not sites:
        res.add("C02.R6", key, True, ("record equality is lossy but no code compares or hashes records: " + lossy[0]) if lossy else "equal records always have the same importer() and importee()", nontrivial=bool(lossy), kind="flow")
        return
    for f, n_, text in sites:
        res.add(
            "C02.R6",
            repo.key(f, stmt_of(n_)) + " [records merged only when they are the same edge]",
            not lossy,
            f"{text}; equal records always have the same importer() and importee()" if not lossy else f"{text}, but {lossy[0]}: one of the two import statements yields no edge",
            where(f, n_),
            kind="flow",
        )


# --------------------------------------------------------------------------- R7


LISTING_CALLS = {"iterdir", "rglob", "glob", "walk", "listdir", "scandir"}
SYNTAX_ERRORS = {"SyntaxError", "IndentationError", "TabError", "Exception", "BaseException"}
BODY_MUTATORS = {"pop", "remove", "clear", "insert", "append", "extend", "reverse", "sort"}


def _is_parse_call(repo: Repo, f, call: ast.Call) -> str | None:
    fq = repo.resolve_name(f.module, call.func) if isinstance(call.func, (ast.Name, ast.Attribute)) else None
    if fq == "ast.parse":
        return "ast.parse"
    if (fq in ("builtins.compile",) or (fq is None and isinstance(call.func, ast.Name) and call.func.id == "compile")) and any("PyCF_ONLY_AST" in norm(a) for a in [*call.args, *[k.value for k in call.keywords]]):
        return "compile"
    return None


def _const_value(repo: Repo, f, e: ast.expr, depth: int = 0) -> Any:
    """Constant value of an expression (through module constants), `...` if it is not a constant."""
    try:
        return ast.literal_eval(e)
    except (ValueError, TypeError, SyntaxError):
        pass
    if depth < 4 and isinstance(e, (ast.Name, ast.Attribute)):
        fq = repo.resolve_name(f.module, e)
        if fq:
            mod, _, name = fq.rpartition(".")
            m = repo.modules.get(mod)
            if m is not None and name in m.constants:
                class _F:  # the constant is evaluated in its own module
                    module = m
                return _const_value(repo, _F, m.constants[name], depth + 1)
    if isinstance(e, ast.Tuple):
        vals = [_const_value(repo, f, x, depth + 1) for x in e.elts]
        if all(v is not ... for v in vals):
            return tuple(vals)
    return ...


def _always_raises(block: list[ast.stmt]) -> bool:
    """Every path through the block ends in a `raise` (the exception is passed on or converted, never swallowed)."""
    for st in block:
        if isinstance(st, ast.Raise):
            return True
        if isinstance(st, ast.If) and st.orelse and _always_raises(st.body) and _always_raises(st.orelse):
            return True
        if isinstance(st, (ast.With, ast.AsyncWith)) and _always_raises(st.body):
            return True
        if isinstance(st, ast.Try) and (_always_raises(st.finalbody) or (_always_raises(st.body) and all(_always_raises(h.body) for h in st.handlers))):
            return True
        if isinstance(st, (ast.Return, ast.Continue, ast.Break)):
            return False
    return False


def _catches_syntax_error(repo: Repo, f, t: ast.expr | None) -> str | None:
    if t is None:
        return "bare except"
    for x in t.elts if isinstance(t, ast.Tuple) else [t]:
        name = (repo.resolve_name(f.module, x) or norm(x)).split(".")[-1]
        if name in SYNTAX_ERRORS:
            return f"except {name}"
    return None


def _swallowers(repo: Repo, f, node: ast.AST) -> list[tuple[ast.AST, str]]:
    """Handlers / suppress blocks of `f` around `node` under which a SyntaxError raised at `node` does not leave the function as an exception."""
    from core.loader import ancestors

    out: list[tuple[ast.AST, str]] = []
    prev: ast.AST = node
    for a in ancestors(node):
        if a is f.node:
            break
        if isinstance(a, ast.Try) and any(prev is s for s in a.body):
            for h in a.handlers:
                what = _catches_syntax_error(repo, f, h.type)
                if what and not _always_raises(h.body):
                    out.append((h, f"`{what}:` handler that does not re-raise"))
                if what:
                    break  # a handler that passes the error on: outer handlers see its exception, judged there if it is still a SyntaxError family
            if any(isinstance(n, ast.Return) for st in a.finalbody for n in ast.walk(st)):
                out.append((a, "`finally:` block that returns (discards the exception)"))
        if isinstance(a, (ast.With, ast.AsyncWith)) and any(prev is s for s in a.body):
            for it in a.items:
                c = it.context_expr
                if isinstance(c, ast.Call) and (repo.resolve_name(f.module, c.func) or "").endswith("suppress"):
                    for x in c.args:
                        what = _catches_syntax_error(repo, f, x)
                        if what:
                            out.append((a, f"`with suppress({norm(x)})`"))
        prev = a
    return out


def run_r7(repo: Repo, res: Result) -> None:
    import sys

    from core.loader import ancestors

    T = types_of(repo)
    funcs = [f for f in repo.all_functions() if not isinstance(f.node, ast.Lambda)]
    callees = {f.fq: callees_of(repo, f, True) for f in funcs}
    by_fq = {f.fq: f for f in funcs}

    def reach(f) -> set[str]:
        seen, todo = set(), [f]
        while todo:
            x = todo.pop()
            if x.fq in seen:
                continue
            seen.add(x.fq)
            todo += [c for c in callees.get(x.fq, []) if c.fq not in seen]
        return seen

    parses = [(f, c, k) for f in funcs for c in calls_in(f.node) for k in [_is_parse_call(repo, f, c)] if k]
    listing = {f.fq for f in funcs for c in calls_in(f.node) if isinstance(c.func, ast.Attribute) and c.func.attr in LISTING_CALLS}
    parse_funcs = {f.fq for f, _c, _k in parses}
    entries = []
    scope: set[str] = set()
    for f in funcs:
        if f.name.startswith("_"):
            continue
        r = reach(f)
        if r & listing and r & parse_funcs:
            entries.append(f)
            scope |= r
    key0 = "src::scan entry -> ast.parse"
    if not parses:
        res.undecide("C02.R7", key0, "no `ast.parse` / `compile(.., PyCF_ONLY_AST)` call found: how the syntax trees of scanned files are produced is not recognised")
        return
    if not entries:
        res.undecide("C02.R7", key0, "no public function reaches both a directory listing and a parse call: the scan entry is not recognised")
        return
    res.analysed["scan_entries"] = sorted(getattr(e, "qualname", e.name) for e in entries)[:6]
    named = repo.cls(IMPORT_TYPES, "NamedModule")
    tree_field = next(iter(named.ann_attrs), "module")
    callers: dict[str, list] = {}
    for f in funcs:
        if f.fq in scope:
            for c in callees.get(f.fq, []):
                callers.setdefault(c.fq, []).append(f)
    n = 0
    for f, call, kind in parses:
        if f.fq not in scope:
            res.observe(f"C02.R7: parse call `{norm(call)}` in {f.qualname} is not on the way from a scan entry, not an obligation")
            continue
        n += 1
        key = repo.key(f, stmt_of(call))
        wh = where(f, call)
        # ---- (a) full grammar of the running interpreter
        kw = {k.arg: k.value for k in call.keywords if k.arg}
        bad: list[str] = []
        unknown: list[str] = []
        mode = kw.get("mode", call.args[2] if len(call.args) > 2 else None)
        if mode is not None:
            v = _const_value(repo, f, mode)
            if v is ...:
                unknown.append(f"mode `{norm(mode)}` is not a constant")
            elif v != "exec":
                bad.append(f"mode {v!r} instead of 'exec': only a restricted form of source is accepted")
        fv = kw.get("feature_version", kw.get("_feature_version"))
        if fv is not None and not (isinstance(fv, ast.Constant) and fv.value is None):
            v = _const_value(repo, f, fv)
            cur = sys.version_info[:2]
            if v is ...:
                if "version_info" not in norm(fv):
                    unknown.append(f"feature_version `{norm(fv)}` is not a constant")
            else:
                ver = v if isinstance(v, tuple) else (3, v) if isinstance(v, int) and v >= 0 else cur
                if isinstance(ver, tuple) and len(ver) >= 2 and all(isinstance(x, int) for x in ver[:2]) and tuple(ver[:2]) < cur:
                    bad.append(f"feature_version={ver[0]}.{ver[1]} is below the running interpreter's grammar ({cur[0]}.{cur[1]}): files using newer syntax (match/case, except*, type statements, ...) do not parse")
        opt = kw.get("optimize")
        if opt is not None and _const_value(repo, f, opt) not in (-1, 0, ...):
            bad.append(f"optimize={norm(opt)} removes `assert` / `if __debug__` blocks (and imports inside them) from the tree")
        for u in unknown[:1]:
            res.undecide("C02.R7", key + " [full grammar]", u, wh)
        if not unknown:
            res.add("C02.R7", key + " [full grammar]", not bad, f"`{norm(call)}` parses with the running interpreter's full grammar" if not bad else f"`{norm(call)}`: {bad[0]}; such a file keeps its node but loses all its imports", wh, kind="grammar")
        # ---- (b) a SyntaxError must leave the scan as an exception
        swallow: list[tuple[Any, ast.AST, str]] = []
        seen: set[tuple[str, int]] = set()
        todo: list[tuple[Any, ast.AST, int]] = [(f, call, 0)]
        while todo:
            g, node_, depth = todo.pop()
            if (g.fq, id(node_)) in seen or depth > 5:
                continue
            seen.add((g.fq, id(node_)))
            found = _swallowers(repo, g, node_)
            swallow += [(g, h, text) for h, text in found]
            if found:
                continue
            for c_ in callers.get(g.fq, []):
                for site in calls_in(c_.node):
                    try:
                        cs, _how = T.callees(c_, site, byname_fallback=True)
                    except Exception:  # noqa: BLE001
                        cs = []
                    if any(x.fq == g.fq for x in cs):
                        todo.append((c_, site, depth + 1))
        ok = not swallow
        if swallow:
            g, h, text = swallow[0]
            res.add("C02.R7", key + " [syntax errors surface]", False, f"a SyntaxError of `{norm(call)}` is swallowed by a {text} in {g.qualname} and the scan goes on without the file's tree: the file silently loses all its imports", where(g, h), kind="dominance")
        else:
            res.add("C02.R7", key + " [syntax errors surface]", True, "no handler between the parse call and the scan entry swallows a SyntaxError", wh, kind="dominance")
        # ---- (c) the tree handed to the collector is the parse result itself
        verdict = _tree_passed_on(repo, T, f, call, named, tree_field, callers, 0)
        if verdict is None:
            res.undecide("C02.R7", key + " [tree handed on]", "the way the parse result reaches NamedModule(...) is not recognised (accepted: direct argument, a local bound to it, returned by a helper)", wh)
        else:
            okc, text, where_ = verdict
            res.add("C02.R7", key + " [tree handed on]", okc, text, where_ or wh, kind="flow")
    if not n:
        res.undecide("C02.R7", key0, "no parse call lies on the way from a scan entry")


def _tree_passed_on(repo: Repo, T, f, call: ast.Call, named, tree_field: str, callers: dict, depth: int):
    """(ok, text, where) or None when the flow of the parse result is not recognised."""
    from core.loader import parent

    # names bound to the parse result in f
    p = parent(call)
    names: set[str] = set()
    if isinstance(p, ast.Assign) and p.value is call and all(isinstance(t, ast.Name) for t in p.targets):
        names = {t.id for t in p.targets}
    elif isinstance(p, ast.AnnAssign) and p.value is call and isinstance(p.target, ast.Name):
        names = {p.target.id}
    elif isinstance(p, ast.NamedExpr) and p.value is call and isinstance(p.target, ast.Name):
        names = {p.target.id}

    def is_result(e: ast.AST) -> bool:
        return e is call or (isinstance(e, ast.Name) and e.id in names) or (isinstance(e, ast.NamedExpr) and e.value is call)

    def derived(e: ast.AST) -> bool:
        return any(is_result(x) for x in ast.walk(e))

    # tampering with the tree before it is handed on
    for n_ in own_nodes(f.node):
        tgt = None
        if isinstance(n_, (ast.Attribute, ast.Subscript)) and isinstance(n_.ctx, (ast.Store, ast.Del)):
            tgt = n_
        elif isinstance(n_, ast.Call) and isinstance(n_.func, ast.Attribute) and n_.func.attr in BODY_MUTATORS:
            tgt = n_.func.value
        if tgt is not None:
            base = tgt
            while isinstance(base, (ast.Attribute, ast.Subscript)):
                base = base.value
            if names and isinstance(base, ast.Name) and base.id in names and base is not tgt:
                return False, f"the parsed tree is modified before it is handed to the collector: `{norm(stmt_of(n_))}`", where(f, n_)
    for c in calls_in(f.node):
        ci = T.ctor_class(f, c)
        if ci is not None and ci.fq == named.fq:
            arg = c.args[0] if c.args else next((k.value for k in c.keywords if k.arg == tree_field), None)
            if arg is None:
                continue
            if is_result(arg):
                return True, f"`{norm(c)[:80]}` wraps the parse result itself", where(f, c)
            if derived(arg):
                return False, f"the tree handed to the collector is `{norm(arg)}`, derived from the parse result instead of the parse result itself: statements (and their imports) can be missing", where(f, c)
    # returned to the caller?
    if depth < 3:
        for n_ in own_nodes(f.node):
            if isinstance(n_, ast.Return) and n_.value is not None and derived(n_.value):
                if not is_result(n_.value):
                    if isinstance(n_.value, ast.Tuple) and any(is_result(x) for x in n_.value.elts):
                        return None
                    return False, f"`{norm(n_)}` returns a value derived from the parse result instead of the tree itself", where(f, n_)
                for c_ in callers.get(f.fq, []):
                    for site in calls_in(c_.node):
                        try:
                            cs, _how = T.callees(c_, site, byname_fallback=True)
                        except Exception:  # noqa: BLE001
                            cs = []
                        if any(x.fq == f.fq for x in cs):
                            v = _tree_passed_on(repo, T, c_, site, named, tree_field, callers, depth + 1)
                            if v is not None:
                                return v
    return None


def run(repo: Repo) -> Result:
    res = Result("C02")
    res.explanation = (
        "Decides the mechanism of C02 by symbolic execution of the public entry points on abstract inputs: (R1) an import statement at every "
        "statement-list position of the running interpreter's ast grammar, in every nesting context, comes out of ImportConverter.convert as a "
        "record, and nothing else does; (R2) every import statement class yields one record per imported name with the file as importer; "
        "(R3) for `from P import n` the importee is P.n iff that is an internal module, per name; (R4) relative imports resolve against "
        "ancestors(importer)[-level]; (R5) records are created only by the collector and the graph adds the edge importer->importee exactly "
        "when both are known, distinct and not yet connected."
    )
    res.not_decided = "that ast.parse builds the tree the grammar describes (trusted); module naming of files (C04); flattening by level_limit (C09)."
    res.trusted_base = ["CPython ast module docstrings describe the grammar", "ast.iter_child_nodes / ast.walk yield every child node", "networkx DiGraph semantics of has_node / has_edge / add_edge", "symbolic executor rules/c02_*.py"]
    gram = grammar()
    run_r7(repo, res)
    gpm = repo.find_func(TYPES_MOD, "get_parent_modules")
    col = Collector(repo, gpm.fq if gpm is not None else None)
    usable, hierarchy_fq = run_r2_r3_r4(repo, res, gram, col)
    run_r4_ancestors(repo, res, hierarchy_fq)
    run_r4_shared_ancestors(repo, res, hierarchy_fq)
    if usable:
        run_r1(repo, res, gram, col, usable)
    run_r5_creators(repo, res, col)
    run_r5_graph(repo, res)
    run_r6(repo, res, gram, col)
    res.analysed["symbolic_paths"] = col.paths
    if col.fallbacks:
        res.analysed["uninterpreted_functions"] = sorted(col.fallbacks)
    return res
