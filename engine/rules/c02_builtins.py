"""Builtins, library models (`ast`, networkx graph, functools, itertools) of the C02 symbolic executor."""

from __future__ import annotations

import ast
import builtins as _pybuiltins
from typing import Any

from .c02_exec import _MISSING, LIBRARY_OBJECT_TYPES, PURE_LIBS, PY_EXC, Interp as _Interp, _hashable
from .c02_sym import (
    MUTATORS,
    STR_METHODS,
    ANode,
    App,
    BoundBuiltin,
    ClassVal,
    Closure,
    DDict,
    Effect,
    Explorer,
    ExtObj,
    ExtRef,
    ExtView,
    FuncVal,
    Inst,
    Partial,
    Raised,
    Seq,
    Sym,
    Term,
    Unsupported,
    _h,
    cat,
    is_native,
    show,
)


def child_nodes(n: ANode) -> list:
    out = []
    for f in n.pycls._fields:
        v = n.fields.get(f)
        if isinstance(v, ANode):
            out.append(v)
        elif isinstance(v, list):
            out.extend(x for x in v if isinstance(x, ANode))
    return out


class Interp(_Interp):
    # ------------------------------------------------------------------ python types used as callables
    def call_pytype(self, t: type, args: list, kwargs: dict, node, frame) -> Any:
        fi = frame.fi if frame else None
        if t in (list, tuple, set, frozenset):
            if not args:
                return t()
            if t in (set, frozenset) and isinstance(args[0], ExtView) and args[0].kind in ("nodes", "edges") and not args[0].obj.concrete:
                return args[0]  # a set of the nodes / edges answers membership and subset tests like the view itself
            if t in (set, frozenset) and isinstance(args[0], ExtObj) and not args[0].concrete:
                return ExtView(args[0], "nodes")
            if isinstance(args[0], Sym) and args[0].kind == "set":
                return args[0]  # a copy of the symbolic set answers membership tests like the set itself
            if t in (list, tuple) and isinstance(args[0], Seq) and not args[0].concrete:
                return Seq(list(args[0].parts))
            kind, items = self.iterate(args[0], node, frame)
            if kind != "concrete":
                return App(t.__name__, (items,))
            if t in (set, frozenset):
                out = set()
                for x in items:
                    if not self.contains(out, x):
                        out.add(_hashable(x))
                return out
            return t(items)
        if t is dict:
            d: dict = {}
            if args:
                a = args[0]
                if isinstance(a, dict):
                    d.update(a)
                else:
                    kind, items = self.iterate(a, node, frame)
                    if kind != "concrete":
                        return App("dict", (items,))
                    for k, v in items:
                        d[_hashable(k)] = v
            d.update(kwargs)
            return d
        if t is str:
            return self.to_str(args[0], node, frame) if args else ""
        if t is bool:
            return self.truth(args[0]) if args else False
        if t is int:
            if args and isinstance(args[0], (int, str, float, bool)):
                try:
                    return int(*args)
                except ValueError:
                    raise Raised(None, "ValueError")
            if args and isinstance(args[0], Sym) and args[0].kind == "nat":
                return args[0]
            return App("int", tuple(_h(a) for a in args))
        if t is type:
            v = args[0]
            if isinstance(v, ANode):
                return v.pycls
            if isinstance(v, Inst):
                return ClassVal(v.ci)
            if is_native(v):
                return type(v)
            raise Unsupported("type() of a symbolic value", node, fi)
        if t is object:
            return Inst.__new__(Inst)
        if isinstance(t, type) and issubclass(t, ast.AST):
            raise Unsupported("construction of ast nodes", node, fi)
        raise Unsupported(f"call of {t.__name__}", node, fi)

    # ------------------------------------------------------------------ builtin / library functions
    def call_ext(self, dotted: str, args: list, kwargs: dict, node, frame) -> Any:
        fi = frame.fi if frame else None
        name = dotted.split(".")[-1]
        if dotted.startswith("builtins."):
            if name in PY_EXC:
                return App(f"ext:{name}", tuple(_h(a) for a in args))
            return self.call_builtin(name, args, kwargs, node, frame)
        if dotted in ("ast.iter_child_nodes", "ast.walk", "ast.iter_fields"):
            n = args[0]
            if not isinstance(n, ANode):
                raise Unsupported(f"{dotted} on a value that is not an abstract syntax node", node, fi)
            if name == "iter_child_nodes":
                return child_nodes(n)
            if name == "iter_fields":
                return [(f, n.fields.get(f)) for f in n.pycls._fields if f in n.fields]
            out, todo = [], [n]
            while todo:
                x = todo.pop(0)
                out.append(x)
                todo.extend(child_nodes(x))
            return out
        root = dotted.split(".")[0]
        if root in PURE_LIBS and dotted not in ("functools.partial", "functools.reduce", "itertools.chain", "itertools.chain.from_iterable", "itertools.accumulate", "itertools.pairwise", "operator.itemgetter", "operator.attrgetter", "operator.methodcaller") or (root in PURE_LIBS and all(is_native(a) for a in args) and not kwargs and dotted.startswith("itertools.")):
            if all(is_native(a) or type(a).__module__ in PURE_LIBS for a in [*args, *kwargs.values()]) and not any(isinstance(a, (list, dict, set)) for a in args):
                import importlib

                try:
                    f: Any = importlib.import_module(root)
                    for part in dotted.split(".")[1:]:
                        f = getattr(f, part)
                except (ImportError, AttributeError):
                    f = None
                if callable(f):
                    try:
                        r = f(*args, **kwargs)
                    except Exception as ex:  # noqa: BLE001
                        raise Raised(None, type(ex).__name__)
                    return list(r) if type(r).__name__ in ("callable_iterator", "accumulate", "chain", "islice", "pairwise", "product", "permutations", "combinations") else r
        if dotted == "functools.partial":
            return Partial(args[0], tuple(args[1:]), dict(kwargs))
        if dotted in ("functools.reduce",):
            kind, items = self.iterate(args[1], node, frame)
            if kind != "concrete":
                raise Unsupported("reduce over an iterable of unknown length", node, fi)
            items = list(items)
            if len(args) > 2:
                acc = args[2]
            elif items:
                acc = items.pop(0)
            else:
                raise Raised(None, "TypeError")
            for x in items:
                acc = self.call(args[0], [acc, x], {}, node, frame)
            return acc
        if dotted == "itertools.chain" or dotted == "itertools.chain.from_iterable":
            srcs = args
            if dotted.endswith("from_iterable"):
                kind, srcs = self.iterate(args[0], node, frame)
                if kind != "concrete":
                    return App("chain", (srcs,))
            # concatenation of partially known sequences: the known items (records yielded by generators, ...) stay known
            cparts: list = []
            for s in srcs:
                cparts.extend(self.parts_of(s, node, frame))
            return self.seq_value(cparts)
        if dotted == "itertools.accumulate":
            kind, items = self.iterate(args[0], node, frame)
            if kind != "concrete":
                return App("accumulate", (items,))
            f = args[1] if len(args) > 1 else kwargs.get("func")
            out = []
            for x in items:
                if not out:
                    out.append(x if "initial" not in kwargs else self.call(f, [kwargs["initial"], x], {}, node, frame))
                else:
                    out.append(self.call(f, [out[-1], x], {}, node, frame) if f is not None else self.binop(ast.Add(), out[-1], x, node, frame))
            return out
        if dotted in ("itertools.pairwise",):
            kind, items = self.iterate(args[0], node, frame)
            if kind != "concrete":
                return App("zip", (App("index", (items, App("slice", (None, -1, None)))), App("index", (items, App("slice", (1, None, None))))))
            return list(zip(items[:-1], items[1:]))
        if dotted == "collections.deque":
            if not args:
                return []
            kind, items = self.iterate(args[0], node, frame)
            if kind != "concrete":
                raise Unsupported("deque of an unknown iterable", node, fi)
            return list(items)
        if dotted in LIBRARY_OBJECT_TYPES or (dotted.startswith("networkx.") and name in ("DiGraph", "Graph")):
            o = ExtObj(dotted, f"graph{len(self.ext_objs) + 1}")
            o.concrete = bool(getattr(self.ex, "concrete_graph", False))
            self.ext_objs.append(o)
            data = args[0] if args else kwargs.get("incoming_graph_data")
            if data is not None:
                if isinstance(data, (dict, ExtObj)):
                    raise Unsupported("graph constructed from a mapping / another graph", node, fi)
                self.ext_method(o, "add_edges_from", [data], {}, node, frame)  # DiGraph(edge list)
            return o
        if dotted.startswith("networkx."):
            if name == "freeze" and args and isinstance(args[0], ExtObj) and args[0].concrete:
                args[0].frozen = True
                return args[0]
            if args and isinstance(args[0], ExtObj) and args[0].concrete:
                raise Unsupported(f"{dotted} on a concrete graph", node, fi)
            if name == "freeze" and args and isinstance(args[0], ExtObj):
                self.effects.append(Effect("ext", args[0], "freeze", tuple(args[1:]), dict(kwargs), self.in_loop > 0, dict(self.path), args[0].version))
                return args[0]
            if args and isinstance(args[0], ExtObj):
                return App(f"ext:{dotted}@{args[0].version}", tuple(_h(a) for a in args))
        if dotted.startswith("typing.") or dotted.startswith("collections.abc."):
            if name == "cast" and len(args) == 2:
                return args[1]
        if dotted == "dataclasses.field":
            raise Unsupported("dataclasses.field outside a class body", node, fi)
        if dotted in ("operator.itemgetter", "operator.attrgetter", "operator.methodcaller"):
            return Partial(ExtRef(f"operator.__{name}__"), ((tuple(args), tuple(sorted(kwargs.items()))),), {})
        if dotted in ("operator.__itemgetter__", "operator.__attrgetter__", "operator.__methodcaller__"):
            (keys, kw), obj = args[0], args[1]
            if name == "__methodcaller__":
                return self.call(self.getattr_value(obj, keys[0], None, frame), list(keys[1:]), dict(kw), node, frame)
            if name == "__itemgetter__":
                vals = [self.subscript(obj, k, node, frame) for k in keys]
            else:
                vals = []
                for k in keys:
                    v = obj
                    for part in k.split("."):
                        v = self.getattr_value(v, part, None, frame)
                    vals.append(v)
            return vals[0] if len(vals) == 1 else tuple(vals)
        if dotted in ("operator.getitem", "operator.contains", "operator.eq", "operator.ne", "operator.not_", "operator.truth", "operator.is_", "operator.is_not", "operator.add", "operator.concat") and not all(is_native(a) for a in args):
            if name == "getitem":
                return self.subscript(args[0], args[1], node, frame)
            if name == "contains":
                return self.contains(args[0], args[1])
            if name in ("eq", "ne"):
                return self.equal(args[0], args[1]) == (name == "eq")
            if name in ("not_", "truth"):
                return self.truth(args[0]) == (name == "truth")
            if name in ("is_", "is_not"):
                return self.compare(ast.Is() if name == "is_" else ast.IsNot(), args[0], args[1])
            return self.binop(ast.Add(), args[0], args[1], node, frame)
        if dotted in ("contextlib.suppress",):
            return ("__suppress__", tuple(args))
        if dotted in ("contextlib.nullcontext",):
            return ("__nullcontext__", args[0] if args else None)
        if dotted in ("collections.defaultdict",):
            d = DDict()
            d.factory = args[0] if args else None
            if len(args) > 1:
                d.update(self.call_pytype(dict, [args[1]], {}, node, frame))
            d.update(kwargs)
            return d
        if dotted in ("collections.OrderedDict",):
            return self.call_pytype(dict, args, kwargs, node, frame)
        if dotted in ("collections.namedtuple", "typing.NamedTuple") and args and isinstance(args[0], str):
            return self.functional_namedtuple(dotted, args, kwargs, node, frame)
        if dotted in ("dataclasses.replace", "dataclasses.astuple", "dataclasses.asdict", "copy.replace") and args and isinstance(args[0], Inst):
            rec = args[0]
            names = self.record_fields(rec.ci)
            if names is None:
                raise Raised(None, "TypeError")
            if name == "replace":
                if any(k not in names for k in kwargs):
                    raise Raised(None, "TypeError")
                return Inst(rec.ci, {**rec.fields, **kwargs}, rec.args, rec.site)
            if name == "astuple":
                return tuple(rec.fields[n] for n in names)
            return {n: rec.fields[n] for n in names}
        if dotted.startswith("itertools.") and name in ("starmap", "islice", "zip_longest", "filterfalse", "repeat", "product", "permutations", "combinations", "combinations_with_replacement", "batched", "tee", "takewhile", "dropwhile"):
            r = self.itertools_model(name, args, kwargs, node, frame)
            if r is not NotImplemented:
                return r
        if dotted in ("copy.copy", "copy.deepcopy") and args:
            if is_native(args[0]):
                import copy

                return copy.deepcopy(args[0])
            if dotted == "copy.copy" and isinstance(args[0], (list, dict, set)):
                return type(args[0])(args[0])
            if isinstance(args[0], (Term, tuple)):
                return args[0]
            raise Unsupported(f"{dotted} of a {type(args[0]).__name__} value", node, fi)
        if dotted.startswith("warnings.") or dotted.startswith("logging."):
            return None
        if any(isinstance(a, (ExtObj, ExtView, list, dict, set, Inst, ANode, Seq, FuncVal, Closure, Partial)) for a in [*args, *kwargs.values()]):
            raise Unsupported(f"library call {dotted} on values the executor tracks (no model of its effect)", node, fi)
        return App(f"ext:{dotted}", tuple(_h(a) for a in args) + tuple((k, _h(v)) for k, v in sorted(kwargs.items())))

    def itertools_model(self, name: str, args: list, kwargs: dict, node, frame) -> Any:
        """itertools functions that only re-arrange the elements of their (known) arguments are run on lists of abstract values; the ones
        that call a function call it through the executor."""
        import itertools

        fi = frame.fi if frame else None
        if name in ("starmap", "filterfalse", "takewhile", "dropwhile"):
            kind, items = self.iterate(args[1], node, frame)
            if kind != "concrete":
                return App(name, (_h(args[0]), items))
            if name == "starmap":
                out = []
                for x in items:
                    k2, xs = self.iterate(x, node, frame)
                    if k2 != "concrete":
                        raise Unsupported("starmap over argument tuples of unknown length", node, fi)
                    out.append(self.call(args[0], list(xs), {}, node, frame))
                return out
            pred = (lambda x: self.truth(x)) if args[0] is None else (lambda x: self.truth(self.call(args[0], [x], {}, node, frame)))
            if name == "filterfalse":
                return [x for x in items if not pred(x)]
            out = []
            if name == "takewhile":
                for x in items:
                    if not pred(x):
                        break
                    out.append(x)
                return out
            dropping = True
            for x in items:
                if dropping and pred(x):
                    continue
                dropping = False
                out.append(x)
            return out
        if name == "islice":
            kind, items = self.iterate3(args[0], node, frame)
            bounds = args[1:]
            if not all(b is None or isinstance(b, int) for b in bounds):
                return NotImplemented
            sl = slice(*bounds) if len(bounds) > 1 else slice(bounds[0])
            if kind == "concrete":
                return list(items)[sl]
            return self.subscript(items if kind == "seq" else items, sl, node, frame)
        if name == "repeat":
            if len(args) > 1 and isinstance(args[1], int):
                return [args[0]] * args[1]
            return NotImplemented
        if name == "tee":
            kind, items = self.iterate(args[0], node, frame)
            if kind != "concrete":
                return NotImplemented
            return tuple(list(items) for _ in range(args[1] if len(args) > 1 else 2))
        its = []
        for a in args:
            if isinstance(a, int) and name in ("permutations", "combinations", "combinations_with_replacement", "batched"):
                its.append(a)
                continue
            kind, items = self.iterate(a, node, frame)
            if kind != "concrete":
                return NotImplemented
            its.append(list(items))
        if not all(isinstance(v, int) or v is None or is_native(v) for v in kwargs.values()) and name != "zip_longest":
            return NotImplemented
        try:
            return [tuple(x) if isinstance(x, tuple) else x for x in getattr(itertools, name)(*its, **kwargs)]
        except Exception as ex:  # noqa: BLE001
            raise Raised(None, type(ex).__name__)

    def functional_namedtuple(self, dotted: str, args: list, kwargs: dict, node, frame) -> Any:
        """collections.namedtuple("N", "a b") / typing.NamedTuple("N", [("a", T), ...]): a synthetic NamedTuple class."""
        from core.loader import ClassInfo

        tname, spec = args[0], (args[1] if len(args) > 1 else kwargs.get("field_names", kwargs.get("fields", [])))
        if isinstance(spec, str):
            fields = spec.replace(",", " ").split()
        else:
            kind, items = self.iterate(spec, node, frame)
            if kind != "concrete":
                raise Unsupported("NamedTuple with unknown fields", node, frame.fi if frame else None)
            fields = [x if isinstance(x, str) else x[0] for x in items]
        if not fields and dotted == "typing.NamedTuple":
            fields = list(kwargs)
        if not all(isinstance(f, str) and f.isidentifier() for f in fields):
            raise Unsupported("NamedTuple with computed field names", node, frame.fi if frame else None)
        defaults = kwargs.get("defaults") or ()
        if not is_native(list(defaults)):
            raise Unsupported("NamedTuple with symbolic defaults", node, frame.fi if frame else None)
        body = "\n".join(f"    {f}: object" + (f" = {defaults[i - (len(fields) - len(defaults))]!r}" if i >= len(fields) - len(defaults) else "") for i, f in enumerate(fields)) or "    pass"
        cdef = ast.parse(f"class {tname}(NamedTuple):\n{body}\n").body[0]
        mod = frame.module if frame is not None else next(iter(self.repo.modules.values()))
        ci = ClassInfo(tname, cdef, mod, list(cdef.bases), ["typing.NamedTuple"])
        ci.name = tname
        for st in cdef.body:
            if isinstance(st, ast.AnnAssign) and isinstance(st.target, ast.Name):
                ci.ann_attrs[st.target.id] = st.annotation
                if st.value is not None:
                    ci.class_attrs[st.target.id] = st.value
        # distinct synthetic classes must not share cache entries of the repository's class tables
        object.__setattr__(ci, "name", f"{tname}")
        ci.module = mod
        self.repo._mro_cache[f"{mod.name}.{tname}"] = [ci]
        return ClassVal(ci)

    def call_builtin(self, name: str, args: list, kwargs: dict, node, frame) -> Any:
        fi = frame.fi if frame else None
        if name == "noop":
            return None
        if name == "len":
            v = args[0]
            if isinstance(v, Seq):
                return len(v.items()) if v.concrete else App("len", (_h(v),))
            if isinstance(v, (list, dict, set)) and self.opened(v) is not None:
                return App("len", (self.opened(v).src,))
            if isinstance(v, (list, tuple, dict, set, frozenset, str)):
                return len(v)
            if isinstance(v, Term):
                return App("len", (v,))
            if isinstance(v, Inst):
                m = self.repo.lookup_method(v.ci, "__len__")
                if m is not None:
                    return self.call_function(m, [v], {})
            if isinstance(v, ExtObj) and v.concrete:
                return len(v.cnodes)
            if isinstance(v, ExtView) and v.obj.concrete:
                return len(self.view_native(v))
            if isinstance(v, ExtObj):
                return App(f"extlen@{v.version}", (v.name,))
            if isinstance(v, ExtView):
                return App(f"extlen@{v.obj.version}", (v.obj.name, v.kind, _h(v.key)))
            if isinstance(v, (int, float, bool, type(None))):
                raise Raised(None, "TypeError")
            raise Unsupported(f"len() of a {type(v).__name__} value", node, fi)
        if name == "isinstance":
            return self.isinstance_(args[0], args[1], node, frame)
        if name == "issubclass":
            a, b = args
            bs = b if isinstance(b, tuple) else (b,)
            for x in bs:
                x = self.ext_class(x.dotted) if isinstance(x, ExtRef) else x
                a2 = self.ext_class(a.dotted) if isinstance(a, ExtRef) else a
                if isinstance(a2, type) and isinstance(x, type) and issubclass(a2, x):
                    return True
                if isinstance(a2, ClassVal) and isinstance(x, ClassVal) and self.repo.is_subclass(a2.ci, x.ci.fq):
                    return True
            return False
        if name == "hasattr":
            o, n = args
            if not isinstance(n, str):
                raise Unsupported("hasattr with a symbolic name", node, fi)
            if isinstance(o, ANode):
                return n in o.fields or n in o.pycls._fields or n in getattr(o.pycls, "_attributes", ()) or n == "_fields"
            if isinstance(o, Inst):
                if n in o.fields:
                    return True
                return any(n in c.methods or n in c.class_attrs for c in self.repo.mro(o.ci))
            if isinstance(o, Term):
                return self.decide(App("hasattr", (o, n)))
            if is_native(o):
                return hasattr(o, n)
            raise Unsupported(f"hasattr on a {type(o).__name__} value", node, fi)
        if name == "getattr":
            o, n = args[0], args[1]
            if not isinstance(n, str):
                raise Unsupported("getattr with a symbolic name", node, fi)
            try:
                return self.getattr_value(o, n, None, frame)
            except Raised as r:
                if r.name == "AttributeError" and len(args) > 2:
                    return args[2]
                raise
        if name == "setattr":
            o, n, v = args
            if isinstance(o, (Inst, ANode)) and isinstance(n, str):
                o.fields[n] = v
                return None
            raise Unsupported("setattr", node, fi)
        if name == "range":
            if all(isinstance(a, int) for a in args):
                return range(*args)
            return App("range", tuple(_h(a) for a in args))
        if name == "enumerate":
            kind, items = self.iterate(args[0], node, frame)
            start = args[1] if len(args) > 1 else kwargs.get("start", 0)
            if kind != "concrete":
                return App("enumerate", (items,))
            if not isinstance(start, int):
                raise Unsupported("enumerate with a symbolic start", node, fi)
            return list(enumerate(items, start))
        if name == "zip":
            its = [self.iterate(a, node, frame) for a in args]
            if all(k == "concrete" for k, _ in its):
                return list(zip(*[i for _, i in its]))
            return App("zip", tuple(i if k != "concrete" else _h(i) for k, i in its))
        if name == "reversed":
            if isinstance(args[0], Seq) and not args[0].concrete:
                return Seq([p if p[0] == "item" else ("rep", list(reversed(p[1])), App("reversed", (p[2],)), p[3]) for p in reversed(args[0].parts)])
            kind, items = self.iterate(args[0], node, frame)
            if kind != "concrete":
                return App("reversed", (items,))
            return list(reversed(items))
        if name == "sorted":
            kind, items = self.iterate(args[0], node, frame)
            if kind != "concrete":
                return App("sorted", (items,))
            key = kwargs.get("key")
            rev = kwargs.get("reverse", False)
            if len(items) <= 1:
                return list(items)
            keys = [self.call(key, [x], {}, node, frame) for x in items] if key is not None else list(items)
            if all(is_native(k) for k in keys):
                try:
                    order = sorted(range(len(items)), key=lambda i: keys[i], reverse=bool(rev))
                except TypeError:
                    raise Raised(None, "TypeError")
                return [items[i] for i in order]
            return App("sorted", (_h(items),))
        if name in ("any", "all"):
            kind, items = self.iterate(args[0], node, frame)
            if kind != "concrete":
                return self.decide(App(name, (items,)))
            for x in items:
                t = self.truth(x)
                if name == "any" and t:
                    return True
                if name == "all" and not t:
                    return False
            return name == "all"
        if name == "map":
            its = [self.iterate(a, node, frame) for a in args[1:]]
            if all(k == "concrete" for k, _ in its):
                return [self.call(args[0], list(xs), {}, node, frame) for xs in zip(*[i for _, i in its])]
            return App("map", (_h(args[0]), *[i if k != "concrete" else _h(i) for k, i in its]))
        if name == "filter":
            kind, items = self.iterate(args[1], node, frame)
            if kind != "concrete":
                return App("filter", (_h(args[0]), items))
            return [x for x in items if (self.truth(x) if args[0] is None else self.truth(self.call(args[0], [x], {}, node, frame)))]
        if name == "iter":
            kind, items = self.iterate(args[0], node, frame)
            if kind != "concrete":
                return App("iter", (items,))
            return list(items)
        if name == "next":
            it = args[0]
            if isinstance(it, list):
                if it:
                    return it.pop(0)
                if len(args) > 1:
                    return args[1]
                raise Raised(None, "StopIteration")
            if isinstance(it, Term):
                return App("next", (it,))
            raise Unsupported("next() on a non-iterator", node, fi)
        if name == "print":
            return None
        if name in ("repr", "format"):
            return self.to_str(args[0], node, frame)
        if name in ("min", "max", "sum", "abs"):
            vals = args
            if len(args) == 1 and not isinstance(args[0], (int, float)):
                kind, vals = self.iterate(args[0], node, frame)
                if kind != "concrete":
                    return App(name, (vals,))
            if all(is_native(v) for v in vals) and not kwargs:
                try:
                    return getattr(_pybuiltins, name)(*([vals] if name != "abs" and len(args) == 1 else vals))
                except (ValueError, TypeError) as e:
                    raise Raised(None, type(e).__name__)
            return App(name, tuple(_h(v) for v in vals))
        if name == "callable":
            return isinstance(args[0], (FuncVal, Closure, Partial, ClassVal, BoundBuiltin, ExtRef))
        if name == "id":
            return App("id", (_h(args[0]),))
        if name == "hash":
            if isinstance(args[0], Inst):
                m = self.repo.lookup_method(args[0].ci, "__hash__")
                if m is not None:
                    return self.call_function(m, [args[0]], {})
            return App("hash", (_h(args[0]),))
        raise Unsupported(f"builtin {name}", node, fi)

    # ------------------------------------------------------------------ methods of builtin / abstract values
    def call_method_builtin(self, recv: Any, name: str, args: list, kwargs: dict, node, frame) -> Any:
        fi = frame.fi if frame else None
        if isinstance(recv, ExtObj):
            return self.ext_method(recv, name, args, kwargs, node, frame)
        if type(recv).__module__ in PURE_LIBS and not isinstance(recv, (Term, Inst, ANode)):
            if all(is_native(a) for a in [*args, *kwargs.values()]):
                try:
                    r = getattr(recv, name)(*args, **kwargs)
                except Exception as ex:  # noqa: BLE001
                    raise Raised(None, type(ex).__name__)
                return list(r) if type(r).__name__ == "callable_iterator" else r
            return App(f"meth:{name}", (show(recv), *[_h(a) for a in args]))
        if isinstance(recv, ExtView):
            return self.view_method(recv, name, args, kwargs, node, frame)
        if name.startswith("namedtuple."):
            which = name.split(".")[1]
            if which == "_make":
                kind, items = self.iterate(args[0], node, frame)
                if kind != "concrete":
                    raise Unsupported("NamedTuple._make of an unknown iterable", node, fi)
                return self.instantiate(recv.ci, list(items), {}, node, frame)
            names = list(recv.args[1:])
            if which == "_replace":
                if args or any(k not in names for k in kwargs):
                    raise Raised(None, "ValueError" if not args else "TypeError")
                new = Inst(recv.ci, {n: kwargs.get(n, recv.fields[n]) for n in names}, recv.args, recv.site)
                return new
            if which == "_asdict":
                return {n: recv.fields[n] for n in names}
            return self.call_method_builtin(tuple(recv.fields[n] for n in names), which, args, kwargs, node, frame)
        if isinstance(recv, Inst) and name.startswith("NodeVisitor."):
            return self.node_visitor(recv, name.split(".")[1], args[0], node, frame)
        if isinstance(recv, Term):
            return App(f"meth:{name}", (recv, *[_h(a) for a in args], *[(k, _h(v)) for k, v in sorted(kwargs.items())]))
        if isinstance(recv, str):
            if name == "join":
                kind, items = self.iterate3(args[0], node, frame)
                if kind == "seq" and not items.concrete:
                    # known items at either end of a partially known sequence stay visible: join(unknown part) + sep + item + ...
                    parts_ = list(items.parts)
                    lead, trail = [], []
                    while parts_ and parts_[0][0] == "item" and isinstance(parts_[0][1], (str, Term)):
                        lead.append(parts_.pop(0)[1])
                    while parts_ and parts_[-1][0] == "item" and isinstance(parts_[-1][1], (str, Term)):
                        trail.insert(0, parts_.pop()[1])
                    if (lead or trail) and not items.unordered:
                        mid = App("meth:join", (recv, _h(Seq(parts_))))
                        out_: list = []
                        for x in [*lead, mid, *trail]:
                            if out_:
                                out_.append(recv)
                            out_.append(x)
                        return cat(*out_)
                    kind, items = "havoc", App("seq", (_h(items),))
                elif kind == "seq":
                    kind, items = "concrete", items.items()
                if kind != "concrete":
                    return App("meth:join", (recv, items))
                parts: list = []
                for i, x in enumerate(items):
                    if i:
                        parts.append(recv)
                    if not isinstance(x, (str, Term)):
                        raise Raised(None, "TypeError")
                    parts.append(x)
                return cat(*parts) if parts else ""
            if name == "format" and not (all(is_native(a) for a in args) and all(is_native(v) for v in kwargs.values())):
                import string

                out: list = []
                auto = 0
                for lit, fld, spec, conv in string.Formatter().parse(recv):
                    out.append(lit)
                    if fld is None:
                        continue
                    if spec or conv not in (None, "s"):
                        raise Unsupported("format specification on a symbolic value", node, fi)
                    if fld == "":
                        v = args[auto]
                        auto += 1
                    elif fld.isdigit():
                        v = args[int(fld)]
                    elif fld in kwargs:
                        v = kwargs[fld]
                    else:
                        raise Unsupported(f"format field {{{fld}}}", node, fi)
                    out.append(self.to_str(v, node, frame))
                return cat(*out)
            if name in STR_METHODS:
                if all(is_native(a) for a in args) and all(is_native(v) for v in kwargs.values()):
                    try:
                        r = getattr(recv, name)(*args, **kwargs)
                    except (ValueError, TypeError, IndexError, KeyError) as e:
                        raise Raised(None, type(e).__name__)
                    return list(r) if name in ("split", "rsplit", "splitlines") else r
                return App(f"meth:{name}", (recv, *[_h(a) for a in args]))
            raise Unsupported(f"str.{name}", node, fi)
        if isinstance(recv, list):
            return self.list_method(recv, name, args, kwargs, node, frame)
        if isinstance(recv, tuple):
            if name == "index":
                for i, x in enumerate(recv):
                    if self.equal(x, args[0]):
                        return i
                raise Raised(None, "ValueError")
            if name == "count":
                return sum(1 for x in recv if self.equal(x, args[0]))
            raise Unsupported(f"tuple.{name}", node, fi)
        if isinstance(recv, dict):
            return self.dict_method(recv, name, args, kwargs, node, frame)
        if isinstance(recv, (set, frozenset)):
            return self.set_method(recv, name, args, kwargs, node, frame)
        if isinstance(recv, type):
            if recv is dict and name == "fromkeys":
                kind, items = self.iterate(args[0], node, frame)
                if kind != "concrete":
                    raise Unsupported("dict.fromkeys of an unknown iterable", node, fi)
                out_d: dict = {}
                for k in items:
                    if self.dict_key(out_d, _hashable(k)) is _MISSING:
                        out_d[_hashable(k)] = args[1] if len(args) > 1 else None
                return out_d
            if recv is str and name == "join":
                return self.call_method_builtin(args[0], "join", args[1:], kwargs, node, frame)
        raise Unsupported(f"method {name} of a {type(recv).__name__} value", node, fi)

    def list_method(self, recv: list, name: str, args: list, kwargs: dict, node, frame) -> Any:
        fi = frame.fi if frame else None
        if name in ("append", "appendleft"):
            recv.append(args[0]) if name == "append" else recv.insert(0, args[0])
            return None
        if name in ("extend", "extendleft"):
            kind, items = self.iterate3(args[0], node, frame)
            if kind != "concrete":
                items = items.items() if kind == "seq" else []
                self.open_container(recv, "list", False)  # known items are kept, the rest is an unknown number of unknown elements
            if name == "extend":
                recv.extend(items)
            else:
                for x in items:
                    recv.insert(0, x)
            return None
        o = self.opened(recv)
        if o is not None and name in ("pop", "popleft", "index", "count", "remove", "sort", "copy", "clear", "insert"):
            if name == "clear":
                recv.clear()
                self.open.pop(id(recv), None)
                return None
            if name == "copy":
                c = list(recv)
                self.open[id(c)] = type(o)(c, o.name, o.epoch, o.ver)
                return c
            if name in ("pop", "popleft"):
                o.epoch += 1
                return App("elem", (o.src,))
            if name == "insert":
                recv.append(args[1])
                return None
            if name == "sort":
                return None  # the known items are kept in some order; the container is iterated as unordered anyway
            if name == "remove":
                o.epoch += 1
                for i, x in enumerate(recv):
                    if x is args[0] or (isinstance(x, Term) and x == args[0]):
                        del recv[i]
                        break
                return None
            return App(f"meth:{name}", (o.src, *[_h(a) for a in args]))
        if name in ("pop", "popleft"):
            if not recv:
                raise Raised(None, "IndexError")
            if name == "popleft":
                return recv.pop(0)
            if args and not isinstance(args[0], int):
                raise Unsupported("list.pop with a symbolic index", node, fi)
            try:
                return recv.pop(*args)
            except IndexError:
                raise Raised(None, "IndexError")
        if name == "insert":
            if not isinstance(args[0], int):
                raise Unsupported("list.insert with a symbolic index", node, fi)
            recv.insert(args[0], args[1])
            return None
        if name == "copy":
            return list(recv)
        if name == "clear":
            recv.clear()
            return None
        if name == "reverse":
            recv.reverse()
            return None
        if name == "index":
            for i, x in enumerate(recv):
                if self.equal(x, args[0]):
                    return i
            raise Raised(None, "ValueError")
        if name == "count":
            return sum(1 for x in recv if self.equal(x, args[0]))
        if name == "remove":
            for i, x in enumerate(recv):
                if self.equal(x, args[0]):
                    del recv[i]
                    return None
            raise Raised(None, "ValueError")
        if name == "sort":
            r = self.call_builtin("sorted", [recv], kwargs, node, frame)
            if isinstance(r, list):
                recv[:] = r
                return None
            raise Unsupported("sort of symbolic elements", node, fi)
        raise Unsupported(f"list.{name}", node, fi)

    def dict_method(self, recv: dict, name: str, args: list, kwargs: dict, node, frame) -> Any:
        fi = frame.fi if frame else None
        o = self.opened(recv)
        if name == "get":
            key = self.dict_key(recv, _hashable(args[0]))
            if key is not _MISSING:
                return recv[key]
            if o is not None and self.decide(self.member_atom(o, args[0])):
                return App("value", (o.src, _h(args[0])))
            return args[1] if len(args) > 1 else kwargs.get("default")
        if name == "setdefault":
            key = self.dict_key(recv, _hashable(args[0]))
            if key is _MISSING:
                if o is not None and self.decide(self.member_atom(o, args[0])):
                    return App("value", (o.src, _h(args[0])))
                key = _hashable(args[0])
                recv[key] = args[1] if len(args) > 1 else None
            return recv[key]
        if o is not None and name in ("items", "keys", "values"):
            return Seq(self.open_parts(recv, name), unordered=True)
        if name == "items":
            return list(recv.items())
        if name == "keys":
            return list(recv.keys())
        if name == "values":
            return list(recv.values())
        if name == "update":
            for a in args:
                if isinstance(a, dict):
                    recv.update(a)
                else:
                    kind, items = self.iterate3(a, node, frame)
                    if kind != "concrete":
                        items = items.items() if kind == "seq" else []
                        self.open_container(recv, "dict", False)
                    for k, v in items:
                        recv[_hashable(k)] = v
            recv.update(kwargs)
            return None
        if name == "pop":
            k = self.dict_key(recv, _hashable(args[0]))
            if k is not _MISSING:
                return recv.pop(k)
            if o is not None and self.decide(self.member_atom(o, args[0])):
                o.epoch += 1
                return App("value", (o.src, _h(args[0])))
            if len(args) > 1:
                return args[1]
            raise Raised(None, "KeyError")
        if name == "copy":
            c = dict(recv)
            if o is not None:
                self.open[id(c)] = type(o)(c, o.name, o.epoch, o.ver)
            return c
        if name == "clear":
            recv.clear()
            self.open.pop(id(recv), None)
            return None
        raise Unsupported(f"dict.{name}", node, fi)

    def set_method(self, recv: set, name: str, args: list, kwargs: dict, node, frame) -> Any:
        fi = frame.fi if frame else None
        if name == "add":
            if not self.contains(recv, args[0]):
                recv.add(_hashable(args[0]))
            return None
        if name in ("update", "union", "difference", "intersection", "difference_update", "issubset", "issuperset", "isdisjoint"):
            if name in ("issubset", "issuperset", "isdisjoint") and len(args) == 1 and isinstance(args[0], (ExtObj, ExtView)) and not (args[0].obj if isinstance(args[0], ExtView) else args[0]).concrete:
                if name == "issuperset":
                    raise Unsupported("set.issuperset of the nodes of an abstract graph", node, fi)
                hits = [self.contains(args[0], x) for x in sorted(recv, key=show)]
                return all(hits) if name == "issubset" else not any(hits)
            others = []
            for a in args:
                kind, items = self.iterate3(a, node, frame)
                if kind != "concrete":
                    if name != "update":
                        raise Unsupported(f"set.{name} with an iterable of unknown length", node, fi)
                    items = items.items() if kind == "seq" else []
                    self.open_container(recv, "set", False)
                others.extend(items)
            if name in ("update", "union"):
                tgt = recv if name == "update" else set(recv)
                for x in others:
                    if not self.contains(tgt, x):
                        tgt.add(_hashable(x))
                return None if name == "update" else tgt
            if name in ("difference", "difference_update"):
                keep = {x for x in recv if not self.contains(others, x)}
                if name == "difference":
                    return keep
                recv.intersection_update(keep)
                return None
            if name == "intersection":
                return {x for x in recv if self.contains(others, x)}
            if name == "issubset":
                return all(self.contains(others, x) for x in recv)
            if name == "issuperset":
                return all(self.contains(recv, x) for x in others)
            return not any(self.contains(others, x) for x in recv)
        if name in ("discard", "remove") and o is not None:
            o.epoch += 1
        if name in ("discard", "remove"):
            for x in list(recv):
                if self.equal(x, args[0]):
                    recv.discard(x)
                    return None
            if name == "remove" and o is None:
                raise Raised(None, "KeyError")
            return None
        o = self.opened(recv)
        if name == "copy":
            c = set(recv)
            if o is not None:
                self.open[id(c)] = type(o)(c, o.name, o.epoch, o.ver)
            return c
        if name == "clear":
            recv.clear()
            self.open.pop(id(recv), None)
            return None
        if o is not None and name == "pop":
            o.epoch += 1
            return App("elem", (o.src,))
        if name == "pop":
            if not recv:
                raise Raised(None, "KeyError")
            x = sorted(recv, key=show)[0]
            recv.discard(x)
            return x
        raise Unsupported(f"set.{name}", node, fi)

    def view_method(self, w: ExtView, name: str, args: list, kwargs: dict, node, frame) -> Any:
        o, v = w.obj, w.obj.version
        if o.concrete:
            if name == "data":
                return self.view_call(w, [], {"data": args[0] if args else kwargs.get("data", True), "default": args[1] if len(args) > 1 else kwargs.get("default")}, node, frame)
            return self.dict_method(self.view_native(w), name, args, kwargs, node, frame)
        if name == "get" and w.kind in ("adj1", "pred1"):
            a, b = (w.key, args[0]) if w.kind == "adj1" else (args[0], w.key)
            if self.decide(App(f"hasedge@{v}", (o.name, _h(a), _h(b)))):
                return App(f"edgedata@{v}", (o.name, _h(a), _h(b)))
            return args[1] if len(args) > 1 else None
        if name == "get" and w.kind in ("adj", "pred"):
            if self.decide(App(f"hasnode@{v}", (o.name, _h(args[0])))):
                return ExtView(o, w.kind + "1", args[0])
            return args[1] if len(args) > 1 else None
        return App(f"ext:{w.kind}.{name}@{v}", (o.name, _h(w.key), *[_h(a) for a in args]))

    def node_visitor(self, inst: Inst, which: str, n: Any, node, frame) -> Any:
        """Model of ast.NodeVisitor.visit / generic_visit."""
        if not isinstance(n, ANode):
            raise Unsupported("NodeVisitor.visit on a value that is not an abstract syntax node", node, frame.fi if frame else None)
        if which == "visit":
            try:
                m = self.getattr_value(inst, f"visit_{n.cls}", node, frame)
            except Raised as r:
                if r.name != "AttributeError":
                    raise
                m = self.getattr_value(inst, "generic_visit", node, frame)
            return self.call(m, [n], {}, node, frame)
        for f in n.pycls._fields:
            v = n.fields.get(f)
            for x in v if isinstance(v, list) else [v]:
                if isinstance(x, ANode):
                    self.call(self.getattr_value(inst, "visit", node, frame), [x], {}, node, frame)
        return None

    # ------------------------------------------------------------------ concrete library objects (networkx DiGraph semantics)
    def concrete_graph_method(self, o: ExtObj, name: str, args: list, kwargs: dict, node, frame) -> Any:
        fi = frame.fi if frame else None
        if not all(is_native(a) for a in args if not isinstance(a, (list, tuple, dict, set, Seq))) :
            raise Unsupported(f"symbolic argument of {name} on a concrete graph", node, fi)

        def hashable(n: Any) -> Any:
            if n is None:
                raise Raised(None, "ValueError")
            try:
                hash(n)
            except TypeError:
                raise Raised(None, "TypeError")
            if not is_native(n):
                raise Unsupported("symbolic node in a concrete graph", node, fi)
            return n

        def add_node(n: Any, attrs: dict) -> None:
            n = hashable(n)
            o.cnodes.setdefault(n, {}).update(attrs)
            o.cadj.setdefault(n, {})

        def add_edge(u: Any, v: Any, attrs: dict) -> None:
            for n in (u, v):
                if hashable(n) not in o.cnodes:
                    add_node(n, {})
            o.cadj[u].setdefault(v, {}).update(attrs)

        def remove_node(n: Any, strict: bool) -> None:
            if n not in o.cnodes:
                if strict:
                    raise Raised(None, "NetworkXError")
                return
            del o.cnodes[n]
            del o.cadj[n]
            for u in o.cadj:
                o.cadj[u].pop(n, None)

        mutators = {"add_node", "add_nodes_from", "add_edge", "add_edges_from", "remove_node", "remove_nodes_from", "remove_edge", "remove_edges_from", "clear", "clear_edges", "update", "add_weighted_edges_from"}
        if name in mutators and o.frozen:
            raise Raised(None, "NetworkXError")
        if name == "add_node":
            add_node(args[0], kwargs)
            return None
        if name == "add_edge":
            add_edge(args[0], args[1], kwargs)
            return None
        if name in ("add_nodes_from", "add_edges_from", "remove_nodes_from", "remove_edges_from"):
            kind, items = self.iterate(args[0], node, frame)
            if kind != "concrete":
                raise Unsupported(f"{name} of an unknown collection on a concrete graph", node, fi)
            for x in items:
                if isinstance(x, Inst) and x.args[:1] == ("namedtuple",):
                    x = tuple(x.fields[n] for n in x.args[1:])
                if name == "add_nodes_from":
                    if isinstance(x, tuple) and len(x) == 2 and isinstance(x[1], dict):
                        add_node(x[0], {**kwargs, **x[1]})
                    else:
                        add_node(x, kwargs)
                elif name == "add_edges_from":
                    if not isinstance(x, (tuple, list)) or len(x) not in (2, 3):
                        raise Raised(None, "NetworkXError")
                    add_edge(x[0], x[1], {**kwargs, **(x[2] if len(x) == 3 else {})})
                elif name == "remove_nodes_from":
                    remove_node(x, False)
                else:
                    o.cadj.get(x[0], {}).pop(x[1], None)
            return None
        if name == "remove_node":
            remove_node(args[0], True)
            return None
        if name == "remove_edge":
            if args[1] not in o.cadj.get(args[0], {}):
                raise Raised(None, "NetworkXError")
            del o.cadj[args[0]][args[1]]
            return None
        if name == "clear":
            o.cnodes.clear()
            o.cadj.clear()
            return None
        if name == "clear_edges":
            for u in o.cadj:
                o.cadj[u].clear()
            return None
        if name in ("has_node", "__contains__"):
            try:
                return args[0] in o.cnodes
            except TypeError:
                return False
        if name == "has_edge":
            try:
                return args[1] in o.cadj.get(args[0], {})
            except TypeError:
                return False
        if name in ("has_successor", "has_predecessor"):
            u, v = (args[0], args[1]) if name == "has_successor" else (args[1], args[0])
            return v in o.cadj.get(u, {})
        if name == "get_edge_data":
            default = args[2] if len(args) > 2 else kwargs.get("default")
            try:
                return o.cadj.get(args[0], {}).get(args[1], default)
            except TypeError:
                return default
        if name in ("successors", "neighbors", "predecessors"):
            if args[0] not in o.cnodes:
                raise Raised(None, "NetworkXError")
            if name == "predecessors":
                return [u for u in o.cnodes if args[0] in o.cadj.get(u, {})]
            return list(o.cadj[args[0]])
        if name in ("number_of_nodes", "order", "__len__"):
            return len(o.cnodes)
        if name in ("number_of_edges", "size"):
            if args:
                return 1 if args[1] in o.cadj.get(args[0], {}) else 0
            return sum(len(a) for a in o.cadj.values())
        if name in ("out_edges", "in_edges") and args:
            if name == "out_edges":
                return [(args[0], v) for v in o.cadj.get(args[0], {})]
            return [(u, args[0]) for u in o.cnodes if args[0] in o.cadj.get(u, {})]
        if name in ("out_degree", "in_degree", "degree") and args:
            out_d = len(o.cadj.get(args[0], {}))
            in_d = sum(1 for u in o.cnodes if args[0] in o.cadj.get(u, {}))
            return {"out_degree": out_d, "in_degree": in_d, "degree": out_d + in_d}[name]
        if name in ("copy", "to_directed"):
            import copy as _copy

            c = ExtObj(o.type, f"graph{len(self.ext_objs) + 1}", concrete=True, cnodes=_copy.deepcopy(o.cnodes), cadj=_copy.deepcopy(o.cadj))
            self.ext_objs.append(c)
            return c
        raise Unsupported(f"method {name} of a concrete graph", node, fi)

    # ------------------------------------------------------------------ abstract library objects (networkx graph)
    def ext_method(self, o: ExtObj, name: str, args: list, kwargs: dict, node, frame) -> Any:
        fi = frame.fi if frame else None
        if o.concrete:
            return self.concrete_graph_method(o, name, args, kwargs, node, frame)
        v = o.version
        where = f"{fi.relpath}:{getattr(node, 'lineno', 0)}" if fi is not None and node is not None else ""
        if name in ("add_edges_from", "add_nodes_from") and args:
            # the known items of a partially known collection are added one by one; the unknown rest stays one opaque bulk effect
            for part in self.parts_of(args[0], node, frame):
                if part[0] != "item":
                    self.effects.append(Effect("ext", o, name, (part[2],), dict(kwargs), True, dict(self.path), v, where, len(self.decisions)))
                    continue
                x = part[1]
                if name == "add_nodes_from":
                    nd, extra = (x[0], x[1]) if isinstance(x, tuple) and len(x) == 2 and isinstance(x[1], dict) else (x, {})
                    self.effects.append(Effect("ext", o, "add_node", (nd,), {**kwargs, **extra}, self.in_loop > 0, dict(self.path), v, where, len(self.decisions), (*self.iter_origins, *([(part[2], part[3])] if len(part) > 2 else []))))
                else:
                    if isinstance(x, Inst) and x.args[:1] == ("namedtuple",):
                        x = tuple(x.fields[n] for n in x.args[1:])
                    if not isinstance(x, (tuple, list)) or len(x) < 2:
                        raise Unsupported("add_edges_from with an element that is not a pair", node, fi)
                    extra = x[2] if len(x) > 2 and isinstance(x[2], dict) else {}
                    self.effects.append(Effect("ext", o, "add_edge", (x[0], x[1]), {**kwargs, **extra}, self.in_loop > 0, dict(self.path), v, where, len(self.decisions), tuple(self.iter_origins)))
            o.version += 1
            return None
        if name in MUTATORS:
            self.effects.append(Effect("ext", o, name, tuple(args), dict(kwargs), self.in_loop > 0, dict(self.path), v, where, len(self.decisions), tuple(self.iter_origins)))
            o.version += 1
            return None
        if name in ("has_node", "__contains__"):
            return self.decide(App(f"hasnode@{v}", (o.name, _h(args[0]))))
        if name == "has_edge":
            return self.decide(App(f"hasedge@{v}", (o.name, _h(args[0]), _h(args[1]))))
        if name == "get_edge_data":
            if self.decide(App(f"hasedge@{v}", (o.name, _h(args[0]), _h(args[1])))):
                return App(f"edgedata@{v}", (o.name, _h(args[0]), _h(args[1])))
            return args[2] if len(args) > 2 else kwargs.get("default")
        if name in ("successors", "neighbors"):
            return ExtView(o, "adj1", args[0])
        if name == "predecessors":
            return ExtView(o, "pred1", args[0])
        if name in ("has_successor", "has_predecessor"):
            a, b = (args[0], args[1]) if name == "has_successor" else (args[1], args[0])
            return self.decide(App(f"hasedge@{v}", (o.name, _h(a), _h(b))))
        return App(f"ext:{name}@{v}", (o.name, *[_h(a) for a in args], *[(k, _h(x)) for k, x in sorted(kwargs.items())]))


Explorer.interp_cls = Interp
