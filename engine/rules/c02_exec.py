"""Statement / expression interpreter of the C02 symbolic executor (see c02_sym.py for the value domain)."""

from __future__ import annotations

import ast
import builtins as _pybuiltins
from typing import Any

from core.loader import ClassInfo, FuncInfo, ModuleInfo, own_nodes

from .c02_sym import (
    _MISSING_KEY,
    dataclass_eq,
    ANode,
    App,
    BoundBuiltin,
    Budget,
    Cat,
    ClassVal,
    Closure,
    CtxGen,
    DDict,
    Effect,
    EndRun,
    Explorer,
    ExtObj,
    ExtRef,
    ExtView,
    Frame,
    FuncVal,
    Inst,
    InterpBase,
    Partial,
    Raised,
    Seq,
    SuperVal,
    Sym,
    Term,
    Unsupported,
    _Break,
    _Continue,
    _h,
    _Return,
    cat,
    is_immutable,
    is_native,
    show,
)

PY_TYPES = {"str": str, "int": int, "bool": bool, "list": list, "tuple": tuple, "dict": dict, "set": set, "frozenset": frozenset, "float": float, "object": object, "type": type, "bytes": bytes}
PY_EXC = {n for n in dir(_pybuiltins) if isinstance(getattr(_pybuiltins, n), type) and issubclass(getattr(_pybuiltins, n), BaseException)}
BUILTIN_FUNCS = {
    "len", "isinstance", "issubclass", "hasattr", "getattr", "setattr", "range", "enumerate", "zip", "reversed", "sorted", "any", "all", "map", "filter", "iter", "next",
    "print", "repr", "min", "max", "sum", "abs", "id", "callable", "super", "vars", "format", "hash",
}
PY_MUTATORS = {"append", "extend", "insert", "pop", "popleft", "appendleft", "remove", "clear", "sort", "reverse", "update", "add", "discard", "setdefault", "popitem", "difference_update", "intersection_update", "symmetric_difference_update", "__setitem__", "__delitem__", "__setattr__"}
PURE_LIBS = ("re", "itertools", "operator", "string", "math", "posixpath", "functools", "_operator")  # stdlib calls folded on constant arguments
LIBRARY_OBJECT_TYPES = ("networkx.DiGraph", "networkx.Graph", "networkx.MultiDiGraph", "networkx.classes.digraph.DiGraph")


def _same_loop_nodes(n: ast.AST, nested: bool = False):
    """The node and its descendants whose break / return leave the loop (function) the node belongs to: definitions are not entered,
    and of nested loops only the returns count."""
    if not nested or isinstance(n, ast.Return):
        yield n
    for c in ast.iter_child_nodes(n):
        if isinstance(c, (ast.FunctionDef, ast.AsyncFunctionDef, ast.Lambda, ast.ClassDef)):
            continue
        yield from _same_loop_nodes(c, nested or isinstance(n, (ast.For, ast.AsyncFor, ast.While)))


def _guards_exit(s: ast.If) -> bool:
    r = getattr(s, "_c02_guards_exit", None)
    if r is None:
        r = any(isinstance(x, (ast.Break, ast.Return)) for b in [*s.body, *s.orelse] for x in _same_loop_nodes(b))
        s._c02_guards_exit = r  # type: ignore[attr-defined]
    return r


def _has_yield(fn: ast.AST) -> bool:
    r = getattr(fn, "_c02_has_yield", None)
    if r is None:
        r = any(isinstance(n, (ast.Yield, ast.YieldFrom)) for n in own_nodes(fn))
        fn._c02_has_yield = r  # type: ignore[attr-defined]
    return r


class Interp(InterpBase):
    # ------------------------------------------------------------------ bookkeeping
    def tick(self, node: ast.AST | None = None, frame: Frame | None = None) -> None:
        self.steps += 1
        if self.steps > self.ex.max_steps:
            raise Budget(f"more than {self.ex.max_steps} interpretation steps on one path", node, frame.fi if frame else None)

    in_loop = 0

    # ------------------------------------------------------------------ names
    def lookup(self, name: str, frame: Frame, node: ast.AST) -> Any:
        ok, v = frame.lookup(name)
        if ok:
            return v
        return self.module_global(frame.module, name, node, frame)

    def module_global(self, mod: ModuleInfo, name: str, node: ast.AST | None = None, frame: Frame | None = None) -> Any:
        if name in mod.functions:
            return FuncVal(mod.functions[name])
        if name in mod.classes:
            return ClassVal(mod.classes[name])
        if name in mod.constants:
            key = (mod.name, name)
            if key not in self.modconst:
                self.modconst[key] = None
                self.modconst[key] = self.eval(mod.constants[name], Frame(None, mod))
            return self.modconst[key]
        if name in mod.imports:
            return self.resolve_dotted(mod.imports[name])
        if name in PY_TYPES:
            return PY_TYPES[name]
        if name in PY_EXC:
            return ExtRef(f"builtins.{name}")
        if name in BUILTIN_FUNCS:
            return ExtRef(f"builtins.{name}")
        if name in ("True", "False", "None"):
            return {"True": True, "False": False, "None": None}[name]
        if name == "NotImplemented":
            return NotImplemented
        if name == "Ellipsis":
            return Ellipsis
        if name == "__name__":
            return mod.name
        raise Unsupported(f"unknown name `{name}`", node, frame.fi if frame else None)

    def resolve_dotted(self, dotted: str) -> Any:
        dotted = self.repo._canonical(dotted)
        if dotted in self.repo.modules:
            return ("module", self.repo.modules[dotted])
        modname, _, attr = dotted.rpartition(".")
        m = self.repo.modules.get(modname)
        if m is not None:
            return self.module_global(m, attr)
        return self.ext_value(dotted)

    @staticmethod
    def ext_value(dotted: str) -> Any:
        """Library name as a value: classes of the `ast` grammar are the analyser's own classes (the grammar oracle)."""
        if dotted.startswith("ast."):
            c = getattr(ast, dotted[4:], None)
            if isinstance(c, type) and issubclass(c, ast.AST):
                return c
        return ExtRef(dotted)

    # ------------------------------------------------------------------ calls
    def call(self, f: Any, args: list, kwargs: dict, node: ast.AST | None = None, frame: Frame | None = None) -> Any:
        self.tick(node, frame)
        if isinstance(f, FuncVal):
            a = ([f.self_val] if f.self_val is not None else []) + list(args)
            return self.call_function(f.fi, a, kwargs, f.closure, node)
        if isinstance(f, ClassVal):
            return self.instantiate(f.ci, args, kwargs, node, frame)
        if isinstance(f, Closure):
            return self.call_closure(f, args, kwargs)
        if isinstance(f, Partial):
            kw = dict(f.kwargs)
            kw.update(kwargs)
            return self.call(f.func, list(f.args) + list(args), kw, node, frame)
        if isinstance(f, BoundBuiltin):
            return self.call_method_builtin(f.recv, f.name, args, kwargs, node, frame)
        if isinstance(f, ExtRef):
            return self.call_ext(f.dotted, args, kwargs, node, frame)
        if isinstance(f, ExtView) and f.obj.concrete:
            return self.view_call(f, args, kwargs, node, frame)
        if isinstance(f, ExtView):
            return f  # G.nodes() / G.edges(): the view itself (data= options are not modelled)
        if isinstance(f, type):
            return self.call_pytype(f, args, kwargs, node, frame)
        if isinstance(f, App) and f.fn.startswith("attr:") and len(f.args) == 1:
            return self.call_method_builtin(f.args[0], f.fn[5:], args, kwargs, node, frame)  # m = obj.method; m(...) is obj.method(...)
        if isinstance(f, Term):
            return App("callval", (f, *[_h(a) for a in args], *[(k, _h(v)) for k, v in sorted(kwargs.items())]))
        if isinstance(f, Inst):
            m = self.repo.lookup_method(f.ci, "__call__")  # callable object
            if m is not None:
                return self.call_function(m, [f, *args], kwargs, None, node)
            raise Raised(None, "TypeError")
        raise Unsupported(f"call of a {type(f).__name__} value", node, frame.fi if frame else None)

    def bind_params(self, fn: ast.AST, args: list, kwargs: dict, frame: Frame, fi: FuncInfo | None) -> None:
        a = fn.args
        pos = [*a.posonlyargs, *a.args]
        args = list(args)
        kwargs = dict(kwargs)
        defaults = dict(zip([p.arg for p in pos[len(pos) - len(a.defaults):]], a.defaults))
        for p in pos:
            if args:
                frame.vars[p.arg] = args.pop(0)
            elif p.arg in kwargs:
                frame.vars[p.arg] = kwargs.pop(p.arg)
            elif p.arg in defaults:
                frame.vars[p.arg] = self.eval(defaults[p.arg], Frame(None, frame.module, frame.parent))
            else:
                raise Raised(None, "TypeError")
        if a.vararg:
            frame.vars[a.vararg.arg] = tuple(args)
            args = []
        elif args:
            raise Raised(None, "TypeError")
        for p, d in zip(a.kwonlyargs, a.kw_defaults):
            if p.arg in kwargs:
                frame.vars[p.arg] = kwargs.pop(p.arg)
            elif d is not None:
                frame.vars[p.arg] = self.eval(d, Frame(None, frame.module, frame.parent))
            else:
                raise Raised(None, "TypeError")
        if a.kwarg:
            frame.vars[a.kwarg.arg] = kwargs
        elif kwargs:
            raise Raised(None, "TypeError")

    def call_function(self, fi: FuncInfo, args: list, kwargs: dict, closure: Frame | None = None, node: ast.AST | None = None) -> Any:
        if fi.decorators:
            if ("contextmanager" in fi.decorators or "asynccontextmanager" in fi.decorators) and self.entering_ctx is not fi:
                return CtxGen(fi, list(args), dict(kwargs), closure)
            if "singledispatch" in fi.decorators or "singledispatchmethod" in fi.decorators:
                fi = self.dispatch_target(fi, args, node)
        if fi.fq in self.ex.stop:
            self.effects.append(Effect("call", None, fi.fq, tuple(args), dict(kwargs), self.in_loop > 0, dict(self.path)))
            return self.new_sym(f"result of {fi.name}")
        if (fi.fq in self.ex.opaque or fi.fq in self.ex.force_opaque) and all(is_immutable(a) for a in [*args, *kwargs.values()]):
            return App(f"call:{fi.fq}", tuple(_h(a) for a in args) + tuple((k, _h(v)) for k, v in sorted(kwargs.items())))
        if self.active.count(fi.fq) >= 3 and self.symbolic_args(args, kwargs):
            # the function has re-entered itself three times on arguments only the oracle knows: a recursion of unknown depth is treated
            # like a loop of unknown length - its result is an uninterpreted term and what its body may change is forgotten
            self.forget_effects_of(list(fi.node.body) if not isinstance(fi.node, ast.Lambda) else [fi.node.body], Frame(fi, fi.module, closure))
            return App(f"call:{fi.fq}", tuple(_h(a) for a in args) + tuple((k, _h(v)) for k, v in sorted(kwargs.items())))
        can_fall_back = all(is_immutable(a) for a in [*args, *kwargs.values()]) and not (fi.is_method and not fi.is_staticmethod)
        snap = (len(self.decisions), dict(self.path), len(self.trace), len(self.effects), self.fresh, len(self.body_sites), self.in_loop) if can_fall_back else None
        self.depth += 1
        try:
            if self.depth > 60:
                raise Unsupported(f"call depth exceeded at {fi.fq}", node, fi)
            return self._run_function(fi, args, kwargs, closure)
        except Budget:
            raise
        except Unsupported as u:
            if snap is None:
                raise
            n, path, nt, ne, fr, nb, il = snap
            del self.decisions[n:]
            self.path = path
            del self.trace[nt:]
            del self.effects[ne:]
            del self.body_sites[nb:]
            self.fresh = fr
            self.in_loop = il
            self.fallbacks.add(f"{fi.fq} ({u.msg})")
            self.ex.force_opaque.add(fi.fq)  # later paths must not interpret it either: the enumeration of decisions stays consistent
            return App(f"call:{fi.fq}", tuple(_h(a) for a in args) + tuple((k, _h(v)) for k, v in sorted(kwargs.items())))
        finally:
            self.depth -= 1

    def _run_function(self, fi: FuncInfo, args: list, kwargs: dict, closure: Frame | None) -> Any:
        self.active.append(fi.fq)
        try:
            return self._run_function1(fi, args, kwargs, closure)
        finally:
            self.active.pop()

    entering_ctx: FuncInfo | None = None

    def dispatch_target(self, fi: FuncInfo, args: list, node: ast.AST | None) -> FuncInfo:
        """functools.singledispatch[method]: the registered implementation whose type the dispatch argument is an instance of."""
        method = fi.cls is not None and fi.outer is None
        k = 1 if method and not fi.is_staticmethod else 0
        if len(args) <= k:
            return fi
        regs = [g for g in [*fi.module.all_funcs, *(fi.cls.extra_methods if fi.cls is not None else [])] if f"{fi.name}.register" in g.decorators and g.cls is fi.cls]
        best: FuncInfo | None = None
        for g in regs:
            types: list = []
            for d in g.node.decorator_list:
                if isinstance(d, ast.Call) and isinstance(d.func, ast.Attribute) and d.func.attr == "register" and d.args:
                    types.append(d.args[0])
            if not types:
                params = [*g.node.args.posonlyargs, *g.node.args.args]
                if len(params) > k and params[k].annotation is not None:
                    ann = params[k].annotation
                    if isinstance(ann, ast.Constant) and isinstance(ann.value, str):
                        ann = ast.parse(ann.value, mode="eval").body
                    types.append(ann)
            for texpr in types:
                tv = self.eval(texpr, Frame(None, g.module))
                if self.isinstance_(args[k], tv, node, None):
                    best = g
        return best or fi

    def symbolic_args(self, args: list, kwargs: dict) -> bool:
        vals = [*args, *kwargs.values()]
        return all(is_immutable(a) or isinstance(a, Inst) for a in vals) and any(isinstance(a, Term) or (isinstance(a, tuple) and any(isinstance(x, Term) for x in a)) for a in vals)

    def forget_effects_of(self, body: list, frame: Frame) -> None:
        for o in self.ext_objs:
            o.version += 1
        self.open_after(body, frame)

    def _run_function1(self, fi: FuncInfo, args: list, kwargs: dict, closure: Frame | None) -> Any:
        fn = fi.node
        self.ex.entered.add(fi.fq)
        frame = Frame(fi, fi.module, closure, fi.cls if fi.is_method or fi.cls is not None else None)
        if isinstance(fn, ast.Lambda):
            self.bind_params(fn, args, kwargs, frame, fi)
            return self.eval(fn.body, frame)
        if fi.is_method and fi.is_classmethod and args and isinstance(args[0], Inst):
            args = [ClassVal(args[0].ci), *args[1:]]
        self.bind_params(fn, args, kwargs, frame, fi)
        if fi.is_method and not fi.is_staticmethod:
            pos = [*fn.args.posonlyargs, *fn.args.args]
            frame.self_name = pos[0].arg if pos else None
        gen = _has_yield(fn)
        if gen:
            frame.vars["__yields__"] = []
            if self.entering_ctx is fi and self.ctx_bodies:
                frame.vars["__ctx_body__"] = self.ctx_bodies.pop()
                self.entering_ctx = None
        try:
            self.exec_block(fn.body, frame)
        except _Return as r:
            if gen:
                return self.seq_value(frame.vars["__yields__"])
            return r.value
        if gen:
            return self.seq_value(frame.vars["__yields__"])
        return None

    def call_closure(self, c: Closure, args: list, kwargs: dict) -> Any:
        key = ("closure", id(c.node))
        if self.active.count(key) >= 3 and self.symbolic_args(args, kwargs):
            self.forget_effects_of([c.node.body] if isinstance(c.node, ast.Lambda) else list(c.node.body), c.frame)
            return App(f"call:{getattr(c.node, 'name', 'lambda')}@{getattr(c.node, 'lineno', 0)}", tuple(_h(a) for a in args) + tuple((k, _h(v)) for k, v in sorted(kwargs.items())))
        self.active.append(key)
        try:
            return self.call_closure1(c, args, kwargs)
        finally:
            self.active.pop()

    def call_closure1(self, c: Closure, args: list, kwargs: dict) -> Any:
        fn = c.node
        frame = Frame(c.frame.fi, c.frame.module, c.frame, c.frame.cls_ctx)
        frame.self_name = None
        self.bind_params(fn, args, kwargs, frame, None)
        if isinstance(fn, ast.Lambda):
            return self.eval(fn.body, frame)
        gen = _has_yield(fn)
        if gen:
            frame.vars["__yields__"] = []
        try:
            self.exec_block(fn.body, frame)
        except _Return as r:
            return self.seq_value(frame.vars["__yields__"]) if gen else r.value
        return self.seq_value(frame.vars["__yields__"]) if gen else None

    def instantiate(self, ci: ClassInfo, args: list, kwargs: dict, node: ast.AST | None, frame: Frame | None) -> Any:
        inst = Inst(ci)
        if node is not None and frame is not None and frame.fi is not None:
            inst.site = f"{frame.fi.relpath}:{getattr(node, 'lineno', 0)}"
        init = self.repo.lookup_method(ci, "__init__")
        if init is not None:
            self.call_function(init, [inst, *args], kwargs, None, node)
            return inst
        dc = [c for c in reversed(self.repo.mro(ci)) if c.is_dataclass]
        if not dc and "NamedTuple" in {b.split(".")[-1] for b in self.repo.external_bases(ci)}:
            dc = [c for c in reversed(self.repo.mro(ci))]
            inst.args = ("namedtuple",)
        if dc:
            names: list[tuple[str, ast.expr | None, ClassInfo]] = []
            for c in dc:
                for n in c.ann_attrs:
                    if "ClassVar" in ast.unparse(c.ann_attrs[n]):
                        continue
                    names = [x for x in names if x[0] != n]
                    names.append((n, c.class_attrs.get(n), c))
            args = list(args)
            kwargs = dict(kwargs)
            for n, default, c in names:
                if args:
                    inst.fields[n] = args.pop(0)
                elif n in kwargs:
                    inst.fields[n] = kwargs.pop(n)
                elif default is not None:
                    inst.fields[n] = self.eval_field_default(default, c)
                else:
                    raise Raised(None, "TypeError")
            if args or kwargs:
                raise Raised(None, "TypeError")
            if inst.args == ("namedtuple",):
                inst.args = ("namedtuple", *[n for n, _d, _c in names])
                return inst
            post = self.repo.lookup_method(ci, "__post_init__")
            if post is not None:
                self.call_function(post, [inst], {})
            return inst
        inst.args = tuple(args)
        return inst

    def record_fields(self, ci: ClassInfo) -> list[str] | None:
        """Field names, in order, of a dataclass / NamedTuple class of the repository (None for other classes)."""
        dc = [c for c in reversed(self.repo.mro(ci)) if c.is_dataclass]
        if not dc and "NamedTuple" in {b.split(".")[-1] for b in self.repo.external_bases(ci)}:
            dc = list(reversed(self.repo.mro(ci)))
        if not dc:
            return None
        names: list[str] = []
        for c in dc:
            for n in c.ann_attrs:
                if "ClassVar" in ast.unparse(c.ann_attrs[n]):
                    continue
                if n in names:
                    names.remove(n)
                names.append(n)
        return names

    def eval_field_default(self, e: ast.expr, c: ClassInfo) -> Any:
        if isinstance(e, ast.Call) and isinstance(e.func, ast.Name) and e.func.id == "field":
            for k in e.keywords:
                if k.arg == "default":
                    return self.eval(k.value, Frame(None, c.module))
                if k.arg == "default_factory":
                    return self.call(self.eval(k.value, Frame(None, c.module)), [], {})
            raise Raised(None, "TypeError")
        return self.eval(e, Frame(None, c.module))

    # ------------------------------------------------------------------ attribute access
    def getattr_value(self, obj: Any, name: str, node: ast.AST | None = None, frame: Frame | None = None) -> Any:
        fi = frame.fi if frame else None
        if isinstance(obj, Inst):
            if name in obj.fields:
                return obj.fields[name]
            if name == "__class__":
                return ClassVal(obj.ci)
            return self.class_attr(obj.ci, name, obj, node, frame)
        if isinstance(obj, SuperVal):
            mro = self.repo.mro(obj.inst.ci if isinstance(obj.inst, Inst) else obj.inst.ci)
            idx = [i for i, c in enumerate(mro) if c is obj.after or c.fq == obj.after.fq]
            for c in mro[(idx[0] + 1) if idx else 0:]:
                if name in c.methods:
                    return FuncVal(c.methods[name], obj.inst)
            if name == "__init__":
                return ExtRef("builtins.noop")
            raise Unsupported(f"super().{name} not found in the repository classes", node, fi)
        if isinstance(obj, ClassVal):
            if name == "__name__":
                return obj.ci.name
            return self.class_attr(obj.ci, name, None, node, frame)
        if isinstance(obj, ANode):
            if name in obj.fields:
                return obj.fields[name]
            if name == "_fields":
                return tuple(obj.pycls._fields)
            if name == "__class__":
                return obj.pycls
            if name in getattr(obj.pycls, "_attributes", ()):
                return Sym(f"{obj.cls}.{name}", "nat")
            raise Raised(None, "AttributeError")
        if isinstance(obj, tuple) and len(obj) == 2 and obj[0] == "module" and isinstance(obj[1], ModuleInfo):
            return self.module_global(obj[1], name, node, frame)
        if isinstance(obj, ExtRef):
            return self.ext_value(f"{obj.dotted}.{name}")
        if isinstance(obj, ExtObj):
            if name in ("nodes", "edges"):
                return ExtView(obj, name)
            if name in ("adj", "succ", "_adj", "_succ"):
                return ExtView(obj, "adj")
            if name in ("pred", "_pred"):
                return ExtView(obj, "pred")
            return BoundBuiltin(obj, name)
        if isinstance(obj, ExtView):
            return BoundBuiltin(obj, name)
        if isinstance(obj, Term):
            return BoundBuiltin(obj, name) if self._looks_like_method(node) else App(f"attr:{name}", (obj,))
        if isinstance(obj, type):
            if name == "__name__":
                return obj.__name__
            if issubclass(obj, ast.AST) and name == "_fields":
                return tuple(obj._fields)
            return BoundBuiltin(obj, name)
        if isinstance(obj, (str, list, tuple, dict, set, frozenset, int, bytes)):
            return BoundBuiltin(obj, name)
        if type(obj).__module__ in PURE_LIBS:
            return BoundBuiltin(obj, name)  # e.g. a compiled regular expression / match object obtained by constant folding
        if isinstance(obj, (FuncVal, Closure)) and name == "__name__":
            return obj.fi.name if isinstance(obj, FuncVal) else getattr(obj.node, "name", "<lambda>")
        if isinstance(obj, Partial):
            if name == "func":
                return obj.func
            if name == "keywords":
                return obj.kwargs
            if name == "args":
                return obj.args
        raise Unsupported(f"attribute `{name}` of a {type(obj).__name__} value", node, fi)

    @staticmethod
    def _looks_like_method(node: ast.AST | None) -> bool:
        from core.loader import parent

        p = parent(node) if node is not None else None
        return isinstance(p, ast.Call) and p.func is node

    def class_attr(self, ci: ClassInfo, name: str, inst: Inst | None, node: ast.AST | None, frame: Frame | None) -> Any:
        for c in self.repo.mro(ci):
            if name in c.methods:
                m = c.methods[name]
                if m.is_property or "cached_property" in m.decorators:
                    if inst is None:
                        raise Unsupported(f"property {name} read on the class", node, frame.fi if frame else None)
                    return self.call_function(m, [inst], {}, None, node)
                if m.is_staticmethod:
                    return FuncVal(m)
                if m.is_classmethod:
                    return FuncVal(m, ClassVal(inst.ci if inst is not None else ci))
                return FuncVal(m, inst) if inst is not None else FuncVal(m)
            if name in c.class_attrs:
                key = (c.fq, name)
                if key not in self.modconst:
                    self.modconst[key] = self.eval(c.class_attrs[name], Frame(None, c.module))
                return self.modconst[key]
        ext = {b.split(".")[-1] for b in self.repo.external_bases(ci)}
        if "NamedTuple" in ext and name in ("_replace", "_asdict", "_fields", "_make", "__match_args__", "count", "index"):
            fields = self.record_fields(ci) or []
            if name in ("_fields", "__match_args__"):
                return tuple(fields)
            if name == "_make":
                return BoundBuiltin(ClassVal(ci), "namedtuple._make")
            if inst is not None:
                return BoundBuiltin(inst, f"namedtuple.{name}")
        if name == "__match_args__" and self.record_fields(ci) is not None:
            return tuple(self.record_fields(ci))
        if inst is not None and any(b in PY_EXC for b in ext) and name == "args":
            return inst.args
        if inst is not None and "NodeVisitor" in ext and name in ("visit", "generic_visit"):
            return BoundBuiltin(inst, f"NodeVisitor.{name}")
        unknown = ext - {"object", "ABC", "Protocol", "Generic"} - PY_EXC
        if unknown and not (name.startswith("visit_") and "NodeVisitor" in ext):
            raise Unsupported(f"attribute `{name}` may be inherited from the library base class {sorted(unknown)[0]} of {ci.name}", node, frame.fi if frame else None)
        raise Raised(None, "AttributeError")

    # ------------------------------------------------------------------ statements
    def exec_block(self, stmts: list[ast.stmt], frame: Frame) -> None:
        for s in stmts:
            self.exec_stmt(s, frame)

    def exec_stmt(self, s: ast.stmt, frame: Frame) -> None:
        self.tick(s, frame)
        fi = frame.fi
        if isinstance(s, ast.Expr):
            if isinstance(s.value, ast.Constant):
                return
            if isinstance(s.value, ast.Yield):
                yv = self.eval(s.value.value, frame) if s.value.value is not None else None
                if frame.lookup("__ctx_body__")[0]:
                    frame.lookup("__ctx_body__")[1](yv)
                    return
                self.yields_of(frame, s).append(("item", yv))
                return
            if isinstance(s.value, ast.YieldFrom):
                self.yields_of(frame, s).extend(self.parts_of(self.eval(s.value.value, frame), s, frame))
                return
            if self.ex.split_calls and isinstance(s.value, ast.Call):
                self.eval_call(s.value, frame, statement=True)
                return
            self.eval(s.value, frame)
        elif isinstance(s, ast.Assign):
            v = self.eval(s.value, frame)
            for t in s.targets:
                self.assign(t, v, frame)
        elif isinstance(s, ast.AnnAssign):
            if s.value is not None:
                self.assign(s.target, self.eval(s.value, frame), frame)
        elif isinstance(s, ast.AugAssign):
            cur = self.eval(_as_load(s.target), frame)
            v = self.eval(s.value, frame)
            if isinstance(cur, list) and isinstance(s.op, ast.Add):
                self.call_method_builtin(cur, "extend", [v], {}, s, frame)
                return
            if isinstance(cur, set) and isinstance(s.op, ast.BitOr):
                self.call_method_builtin(cur, "update", [v], {}, s, frame)
                return
            if isinstance(cur, dict) and isinstance(s.op, ast.BitOr):
                self.call_method_builtin(cur, "update", [v], {}, s, frame)
                return
            self.assign(s.target, self.binop(s.op, cur, v, s, frame), frame)
        elif isinstance(s, ast.If):
            d0 = self.n_asked
            t = self.truth(self.eval(s.test, frame))
            if self.n_asked > d0 and self.while_frames and self.while_frames[-1][0] is frame and _guards_exit(s):
                self.while_frames[-1][1] += 1  # the oracle decided whether the loop goes on
            if t:
                self.exec_block(s.body, frame)
            else:
                self.exec_block(s.orelse, frame)
        elif isinstance(s, ast.While):
            self.exec_while(s, frame)
        elif isinstance(s, (ast.For, ast.AsyncFor)):
            self.exec_for(s, frame)
        elif isinstance(s, ast.Return):
            raise _Return(self.eval(s.value, frame) if s.value is not None else None)
        elif isinstance(s, ast.Pass):
            return
        elif isinstance(s, ast.Break):
            raise _Break()
        elif isinstance(s, ast.Continue):
            raise _Continue()
        elif isinstance(s, ast.Raise):
            if s.exc is None:
                raise Raised(None, "re-raise")
            v = self.eval(s.exc, frame)
            raise Raised(v, self.exc_name(v))
        elif isinstance(s, ast.Assert):
            if not self.truth(self.eval(s.test, frame)):
                raise Raised(None, "AssertionError")
        elif isinstance(s, ast.Try):
            self.exec_try(s, frame)
        elif isinstance(s, (ast.FunctionDef, ast.AsyncFunctionDef)):
            frame.vars[s.name] = Closure(s, frame)
        elif isinstance(s, ast.Match):
            self.exec_match(s, frame)
        elif isinstance(s, (ast.Import, ast.ImportFrom)):
            for a in s.names:
                if isinstance(s, ast.Import):
                    frame.vars[a.asname or a.name.split(".")[0]] = self.resolve_dotted(a.name if a.asname else a.name.split(".")[0])
                else:
                    frame.vars[a.asname or a.name] = self.resolve_dotted(f"{s.module}.{a.name}") if not s.level else self._unsupported("relative import inside a function", s, fi)
        elif isinstance(s, ast.Delete):
            for t in s.targets:
                if isinstance(t, ast.Name):
                    frame.vars.pop(t.id, None)
                elif isinstance(t, ast.Subscript):
                    c = self.eval(t.value, frame)
                    k = self.eval(t.slice, frame)
                    if isinstance(c, (list, dict)) and (is_native(k) or isinstance(c, dict)):
                        try:
                            del c[k]
                        except (KeyError, IndexError) as e:
                            raise Raised(None, type(e).__name__)
                    else:
                        raise Unsupported("del of a symbolic subscript", s, fi)
                elif isinstance(t, ast.Attribute):
                    o = self.eval(t.value, frame)
                    if not isinstance(o, (Inst, ANode)):
                        raise Unsupported(f"del of an attribute of a {type(o).__name__} value", s, fi)
                    if t.attr not in o.fields:
                        raise Raised(None, "AttributeError")
                    del o.fields[t.attr]
                elif isinstance(t, (ast.Tuple, ast.List)):
                    self.exec_stmt(ast.copy_location(ast.Delete(targets=list(t.elts)), s), frame)
                else:
                    raise Unsupported("del statement", s, fi)
        elif isinstance(s, ast.Nonlocal):
            frame.vars.setdefault("__nonlocal__", set()).update(s.names)
        elif isinstance(s, ast.Global):
            if not all(n in frame.module.constants for n in s.names):
                raise Unsupported("global statement for a name that is not a module-level variable", s, fi)
            frame.vars.setdefault("__global__", set()).update(s.names)
        elif isinstance(s, (ast.With, ast.AsyncWith)):
            self.exec_with(s, frame, 0)
        else:
            raise Unsupported(f"statement {type(s).__name__}", s, fi)

    def exec_with(self, s: ast.With, frame: Frame, i: int) -> None:
        """Context managers: repo classes with __enter__ / __exit__, generator functions under contextlib.contextmanager (the body of the
        `with` runs where the generator yields), contextlib.suppress / nullcontext, and opaque library objects."""
        if i == len(s.items):
            self.exec_block(s.body, frame)
            return
        item = s.items[i]
        cm = self.eval(item.context_expr, frame)

        def body(v: Any) -> None:
            if item.optional_vars is not None:
                self.assign(item.optional_vars, v, frame)
            self.exec_with(s, frame, i + 1)

        if isinstance(cm, CtxGen):
            pending: list = []
            entered = [False]

            def at_yield(v: Any) -> None:
                if entered[0]:
                    raise Raised(None, "RuntimeError")  # generator didn't stop
                entered[0] = True
                try:
                    body(v)
                except (_Return, _Break, _Continue) as ctl:
                    pending.append(ctl)  # leaving the with block this way resumes the generator normally (its clean-up runs)

            prev, self.entering_ctx = self.entering_ctx, cm.fi
            self.ctx_bodies.append(at_yield)
            try:
                self.call_function(cm.fi, cm.args, cm.kwargs, cm.closure, s)
            finally:
                self.entering_ctx = prev
                if self.ctx_bodies and self.ctx_bodies[-1] is at_yield:
                    self.ctx_bodies.pop()
            if not entered[0]:
                raise Raised(None, "RuntimeError")  # generator didn't yield
            if pending:
                raise pending[0]
            return
        if isinstance(cm, Inst):
            enter, exit_ = self.repo.lookup_method(cm.ci, "__enter__"), self.repo.lookup_method(cm.ci, "__exit__")
            if enter is None or exit_ is None:
                enter, exit_ = self.repo.lookup_method(cm.ci, "__aenter__"), self.repo.lookup_method(cm.ci, "__aexit__")
            if enter is None or exit_ is None:
                raise Unsupported(f"with statement on a {cm.ci.name} object without __enter__ / __exit__ in the repository", s, frame.fi)
            v = self.call_function(enter, [cm], {}, None, s)
            try:
                body(v)
            except Raised as r:
                if not self.truth(self.call_function(exit_, [cm, ExtRef(f"builtins.{r.name}"), r.exc, None], {}, None, s)):
                    raise
                return
            except (_Return, _Break, _Continue, EndRun):
                self.call_function(exit_, [cm, None, None, None], {}, None, s)
                raise
            self.call_function(exit_, [cm, None, None, None], {}, None, s)
            return
        if isinstance(cm, tuple) and len(cm) == 2 and cm[0] == "__suppress__":
            try:
                body(None)
            except Raised as r:
                if not self.handler_matches(cm[1], r):
                    raise
            return
        if isinstance(cm, tuple) and len(cm) == 2 and cm[0] == "__nullcontext__":
            body(cm[1])
            return
        if isinstance(cm, Term):
            body(App("meth:__enter__", (cm,)))
            return
        raise Unsupported(f"with statement on a {type(cm).__name__} value", s, frame.fi)

    def yields_of(self, frame: Frame, node: ast.AST) -> list:
        f: Frame | None = frame
        while f is not None:
            if "__yields__" in f.vars:
                return f.vars["__yields__"]
            f = f.parent if f.fi is frame.fi else None
        raise Unsupported("yield outside a generator function", node, frame.fi)

    def parts_of(self, v: Any, node: ast.AST, frame: Frame | None) -> list:
        """Parts of a partially known sequence for any iterable value."""
        kind, items = self.iterate3(v, node, frame)
        if kind == "concrete":
            return [("item", x) for x in items]
        if kind == "seq":
            return list(items.parts)
        return [("rep", [self.element_of(items)], items, show(items))]

    @staticmethod
    def seq_value(parts: list) -> Any:
        return [p[1] for p in parts] if all(p[0] == "item" for p in parts) else Seq(list(parts))

    def _unsupported(self, msg: str, node: ast.AST, fi: FuncInfo | None):
        raise Unsupported(msg, node, fi)

    def exc_name(self, v: Any) -> str:
        if isinstance(v, Inst):
            return v.ci.name
        if isinstance(v, ClassVal):
            return v.ci.name
        if isinstance(v, ExtRef):
            return v.dotted.split(".")[-1]
        if isinstance(v, App) and v.fn.startswith("ext:"):
            return v.fn[4:].split(".")[-1]
        return "Exception"

    def exec_try(self, s: ast.Try, frame: Frame) -> None:
        try:
            try:
                self.exec_block(s.body, frame)
            except Raised as r:
                for h in s.handlers:
                    if h.type is None or self.handler_matches(self.eval(h.type, frame), r):
                        if h.name:
                            frame.vars[h.name] = r.exc
                        self.exec_block(h.body, frame)
                        break
                else:
                    raise
            else:
                self.exec_block(s.orelse, frame)
        finally:
            if s.finalbody:
                self.exec_block(s.finalbody, frame)

    def handler_matches(self, t: Any, r: Raised) -> bool:
        ts = list(t) if isinstance(t, tuple) else [t]
        for x in ts:
            if isinstance(x, ExtRef):
                n = x.dotted.split(".")[-1]
                if n in ("Exception", "BaseException") or n == r.name:
                    return True
                a, b = getattr(_pybuiltins, n, None), getattr(_pybuiltins, r.name, None)
                if isinstance(a, type) and isinstance(b, type) and issubclass(b, a):
                    return True
            elif isinstance(x, ClassVal):
                if isinstance(r.exc, Inst) and self.repo.is_subclass(r.exc.ci, x.ci.fq):
                    return True
                if isinstance(r.exc, ClassVal) and self.repo.is_subclass(r.exc.ci, x.ci.fq):
                    return True
        return False

    def exec_match(self, s: ast.Match, frame: Frame) -> None:
        subj = self.eval(s.subject, frame)
        for case in s.cases:
            if self.match_pattern(case.pattern, subj, frame, s) and (case.guard is None or self.truth(self.eval(case.guard, frame))):
                self.exec_block(case.body, frame)
                return

    def match_pattern(self, p: ast.pattern, v: Any, frame: Frame, s: ast.AST) -> bool:
        if isinstance(p, ast.MatchAs):
            if p.pattern is not None and not self.match_pattern(p.pattern, v, frame, s):
                return False
            if p.name:
                frame.vars[p.name] = v
            return True
        if isinstance(p, ast.MatchOr):
            return any(self.match_pattern(q, v, frame, s) for q in p.patterns)
        if isinstance(p, ast.MatchClass):
            cls = self.eval(p.cls, frame)
            if not self.isinstance_(v, cls, s, frame):
                return False
            if p.patterns:
                if isinstance(cls, type) and cls in (str, int, float, bool, bytes, list, tuple, dict, set, frozenset) and len(p.patterns) == 1:
                    if not self.match_pattern(p.patterns[0], v, frame, s):
                        return False
                else:
                    if not isinstance(cls, ClassVal):
                        raise Unsupported("positional sub-patterns in a pattern of a library class", s, frame.fi)
                    try:
                        margs = self.class_attr(cls.ci, "__match_args__", None, s, frame)
                    except Raised:
                        raise Raised(None, "TypeError")
                    if not isinstance(margs, (tuple, list)) or len(p.patterns) > len(margs):
                        raise Raised(None, "TypeError")
                    for name, q in zip(margs, p.patterns):
                        if not self.match_pattern(q, self.getattr_value(v, name, s, frame), frame, s):
                            return False
            for name, q in zip(p.kwd_attrs, p.kwd_patterns):
                if not self.match_pattern(q, self.getattr_value(v, name, s, frame), frame, s):
                    return False
            return True
        if isinstance(p, ast.MatchSequence):
            if isinstance(v, Inst) and v.args[:1] == ("namedtuple",):
                v = tuple(v.fields[n] for n in v.args[1:])
            if isinstance(v, Term):
                raise Unsupported("sequence pattern against a symbolic value", s, frame.fi)
            if not isinstance(v, (list, tuple)):
                return False
            stars = [i for i, q in enumerate(p.patterns) if isinstance(q, ast.MatchStar)]
            if not stars:
                return len(v) == len(p.patterns) and all(self.match_pattern(q, x, frame, s) for q, x in zip(p.patterns, v))
            k = stars[0]
            after = len(p.patterns) - k - 1
            if len(v) < len(p.patterns) - 1:
                return False
            if not all(self.match_pattern(q, x, frame, s) for q, x in zip(p.patterns[:k], v[:k])):
                return False
            if p.patterns[k].name:
                frame.vars[p.patterns[k].name] = list(v[k: len(v) - after])
            return all(self.match_pattern(q, x, frame, s) for q, x in zip(p.patterns[k + 1:], v[len(v) - after:]))
        if isinstance(p, ast.MatchValue):
            return self.equal(v, self.eval(p.value, frame))
        if isinstance(p, ast.MatchSingleton):
            return self.compare(ast.Is(), v, p.value)
        raise Unsupported(f"match pattern {type(p).__name__}", s, frame.fi)

    # ------------------------------------------------------------------ loops
    def iterate(self, v: Any, node: ast.AST, frame: Frame | None) -> tuple[str, Any]:
        """("concrete", items) or ("havoc", term); partially known sequences are collapsed to a term."""
        kind, items = self.iterate3(v, node, frame)
        if kind == "seq":
            if items.concrete:
                return "concrete", items.items()
            return "havoc", App("seq", (_h(items),))
        return kind, items

    def open_parts(self, v: Any, what: str = "keys") -> list | None:
        """Parts of an open container: the items the executor knows, every value known (on this path) to be a member, and an unknown rest."""
        o = self.opened(v)
        if o is None:
            return None
        src = o.src
        if isinstance(v, dict):
            known = list(v.keys())
            extra = [x for x in self.known_members(o) if self.dict_key(v, x) is _MISSING]
            if what == "keys":
                items = [*known, *extra]
                elem: Any = App("elem", (src,))
            elif what == "items":
                items = [(k, v[k]) for k in known] + [(x, App("value", (src, x))) for x in extra]
                elem = (App("key", (src,)), App("value", (src,)))
            else:
                items = [v[k] for k in known] + [App("value", (src, x)) for x in extra]
                elem = App("value", (src,))
        else:
            known = list(v) if isinstance(v, list) else sorted(v, key=show)
            via: dict = {}
            for o2 in self.open.values():
                if o2 is not o and o.attr and o2.attr and o.attr in self.co_inserted(o2.attr):
                    for x in self.known_members(o2):
                        via.setdefault(x, o2.name)  # a member of the collection that is filled side by side with this one
            extra = []
            for x in [*self.known_members(o), *via]:
                if not any(y is x or (isinstance(y, (Term, str, int, tuple)) and type(y) is type(x) and y == x) for y in [*known, *extra]):
                    extra.append(x)
            items = [*known, *extra]
            elem = App("elem", (src,))
        # the items found through a membership decision carry their origin (collection, member): effects of the iteration are attributed to it
        via = via if not isinstance(v, dict) else {}
        return [("rep", [elem], src, o.name), *[("item", x) for x in items[: len(known)]], *[("item", x, via.get(m, o.name), m) for x, m in zip(items[len(known):], extra)]]

    def iterate3(self, v: Any, node: ast.AST, frame: Frame | None) -> tuple[str, Any]:
        if isinstance(v, Seq):
            return "seq", v
        if isinstance(v, (list, dict, set)) and self.opened(v) is not None:
            return "seq", Seq(self.open_parts(v), unordered=True)
        if isinstance(v, (list, tuple)):
            return "concrete", list(v)
        if isinstance(v, dict):
            return "concrete", list(v.keys())
        if isinstance(v, (set, frozenset)):
            return "concrete", sorted(v, key=show)
        if isinstance(v, str):
            return "concrete", list(v)
        if isinstance(v, range):
            if len(v) > 5000:
                raise Budget("range too long", node, frame.fi if frame else None)
            return "concrete", list(v)
        if isinstance(v, Term):
            return "havoc", v
        if isinstance(v, ExtObj) and v.concrete:
            return "concrete", list(v.cnodes)
        if isinstance(v, ExtView) and v.obj.concrete:
            return "concrete", list(self.view_native(v))
        if isinstance(v, ExtObj):
            return "havoc", App(f"extiter@{v.version}", (v.name,))
        if isinstance(v, ExtView):
            return "havoc", App(f"extiter@{v.obj.version}", (v.obj.name, v.kind, _h(v.key)))
        if isinstance(v, Inst):
            if v.args[:1] == ("namedtuple",):
                return "concrete", [v.fields[n] for n in v.args[1:]]
            m = self.repo.lookup_method(v.ci, "__iter__")
            if m is not None:
                return self.iterate3(self.call_function(m, [v], {}), node, frame)
        if type(v).__module__ in PURE_LIBS or type(v).__name__ in ("callable_iterator", "map", "filter", "zip", "accumulate", "chain", "islice", "generator"):
            try:
                return "concrete", list(v)
            except Exception as ex:  # noqa: BLE001
                raise Raised(None, type(ex).__name__)
        raise Unsupported(f"iteration over a {type(v).__name__} value", node, frame.fi if frame else None)

    @staticmethod
    def element_of(it: Term) -> Any:
        if isinstance(it, App) and it.fn == "zip":
            return tuple(App("elem", (a,)) for a in it.args)
        if isinstance(it, App) and it.fn == "enumerate":
            return (App("position", (it.args[0],)), App("elem", (it.args[0],)))
        if isinstance(it, App) and it.fn == "meth:items":
            return (App("key", (it.args[0],)), App("value", (it.args[0],)))
        return App("elem", (it,))

    def havoc_site(self, node: ast.AST, frame: Frame) -> str:
        return f"{frame.fi.fq if frame.fi else frame.module.name}:{getattr(node, 'lineno', 0)}:{getattr(node, 'col_offset', 0)}"

    def havoc_after(self, body: list[ast.AST], targets: list[ast.expr], frame: Frame, keep_yields: bool = False, site: str = "", extra: Any = None) -> None:
        """Forgets what a skipped loop of unknown length did.  The value a variable has afterwards is an uninterpreted function of the
        loop (its site) and of everything the loop can read at this point: two executions of the same loop from the same state yield
        the same term (a helper that is called twice must not produce two unrelated unknowns)."""
        names: set[str] = set()
        reads: set[str] = set()
        for b in [*body, *targets]:
            for n in ast.walk(b):
                if isinstance(n, ast.Name):
                    (names if isinstance(n.ctx, ast.Store) else reads).add(n.id)
        state = []
        for n in sorted(reads | names):
            ok, v = frame.lookup(n)
            if ok and not isinstance(v, (FuncVal, ClassVal, Closure, ExtRef, Partial)):
                state.append((n, _h(v) if not isinstance(v, ExtObj) else (v.name, v.version)))
        key = (site, _h(extra), tuple(state))
        for n in sorted(names):
            ok, _ = frame.lookup(n)
            if ok:
                frame.vars[n] = App("after", (n, *key))
        for o in self.ext_objs:
            o.version += 1
        self.open_after(body, frame)

    def exec_while(self, s: ast.While, frame: Frame) -> None:
        """Concrete unrolling - until the oracle (not the data) has decided twice in a row whether the loop goes on: then the loop is one of
        unknown length and is treated like a loop over an unknown iterable (skipped with its effects forgotten, or one arbitrary iteration)."""
        fi = frame.fi
        n = streak = 0
        while True:
            if streak >= 2:
                site = self.havoc_site(s, frame)
                if self.structural_decision("loop", site):
                    self.body_sites.append(site)
                    self.in_loop += 1
                    self.havoc_after(s.body, [], frame, site=site)  # an arbitrary iteration, not the third one
                    if self.truth(self.eval(s.test, frame)):
                        try:
                            self.exec_block(s.body, frame)
                        except (_Break, _Continue):
                            pass
                    raise EndRun()
                self.havoc_after(s.body, [], frame, site=site)
                if s.orelse:
                    if any(isinstance(x, ast.Break) for b in s.body for x in _same_loop_nodes(b)):
                        raise Unsupported("else clause of a while loop of unknown length that can also be left by break", s, fi)
                    self.exec_block(s.orelse, frame)
                return
            d0 = self.n_asked
            t = self.truth(self.eval(s.test, frame))
            ctl = self.n_asked > d0
            if not t:
                self.exec_block(s.orelse, frame)
                return
            n += 1
            if n > 5000:
                raise Budget("while loop does not terminate on the abstract input", s, fi)
            mark = [frame, 0]
            self.while_frames.append(mark)
            try:
                self.exec_block(s.body, frame)
            except _Break:
                return
            except _Continue:
                pass
            finally:
                self.while_frames.pop()
            streak = streak + 1 if (ctl or mark[1]) else 0

    # ------------------------------------------------------------------ what a skipped loop body may have changed
    def mutation_summary(self, body: list[ast.AST], frame: Frame) -> dict:
        """Syntactic may-mutate summary of a loop body and everything it may call (callees resolved by name, as in `effect_only`):
        names: local names whose container is mutated in place; attrs: attribute names whose container is mutated / that are re-bound;
        anyarg: a callee mutates one of its parameters; removing: some mutation may remove elements."""
        key = (id(body[0]) if body else 0, len(body))
        memo = self.ex.__dict__.setdefault("mutation_memo", {})
        if key in memo:
            return memo[key]
        REMOVERS = {"pop", "popleft", "remove", "clear", "discard", "popitem", "difference_update", "intersection_update", "symmetric_difference_update", "__delitem__"}
        out = {"names": set(), "attrs": set(), "rebound": set(), "anyarg": False, "removing": False}
        by_name: dict[str, list[FuncInfo]] = memo.get("by_name") or {}
        if not by_name:
            for f in self.repo.funcs.values():
                by_name.setdefault(f.name, []).append(f)
            memo["by_name"] = by_name

        def receiver(e: ast.expr, params: set[str] | None) -> None:
            while isinstance(e, ast.Subscript):
                e = e.value
            if isinstance(e, ast.Name):
                if params is None:
                    out["names"].add(e.id)
                elif e.id in params:
                    out["anyarg"] = True
                elif ("<free>", e.id) in params:
                    out["names"].add(e.id)  # free variable of a nested function: a name of an enclosing frame
            elif isinstance(e, ast.Attribute):
                out["attrs"].add(e.attr)
            else:
                out["anyarg"] = True

        def enter(g: FuncInfo) -> None:
            if g.fq in seen or isinstance(g.node, ast.Lambda):
                return
            seen.add(g.fq)
            fresh = g.param_names[0] if g.name in ("__init__", "__post_init__", "__new__") and g.param_names else None
            params: set = set(g.param_names)
            if g.outer is not None:
                own = {n.id for n in own_nodes(g.node) if isinstance(n, ast.Name) and isinstance(n.ctx, ast.Store)} | params
                params |= {("<free>", n.id) for n in own_nodes(g.node) if isinstance(n, ast.Name) and n.id not in own}
            todo.append((list(g.node.body), params, fresh))

        seen: set[str] = set()
        todo: list[tuple[list[ast.AST], set[str] | None, Any]] = [(list(body), None, None)]
        while todo:
            nodes, params, fresh = todo.pop()
            for b in nodes:
                for n in ast.walk(b):
                    if isinstance(n, ast.Call):
                        if isinstance(n.func, ast.Attribute):
                            if n.func.attr in PY_MUTATORS:
                                receiver(n.func.value, params)
                                if n.func.attr in REMOVERS:
                                    out["removing"] = True
                            for g in by_name.get(n.func.attr, []):
                                enter(g)
                        elif isinstance(n.func, ast.Name):
                            for g in by_name.get(n.func.id, []):
                                if g.cls is None or g.outer is not None:
                                    enter(g)
                            for c in self.repo.classes.values():
                                if c.name == n.func.id:
                                    for g in (self.repo.lookup_method(c, "__init__"), self.repo.lookup_method(c, "__post_init__")):
                                        if g is not None:
                                            enter(g)
                            if n.func.id in ("setattr", "delattr"):
                                out["anyarg"] = True
                    elif isinstance(n, ast.Subscript) and isinstance(n.ctx, (ast.Store, ast.Del)):
                        receiver(n.value, params)
                        if isinstance(n.ctx, ast.Del):
                            out["removing"] = True
                    elif isinstance(n, ast.Attribute) and isinstance(n.ctx, (ast.Store, ast.Del)):
                        if not (fresh is not None and isinstance(n.value, ast.Name) and n.value.id == fresh):
                            out["rebound"].add(n.attr)
                    elif isinstance(n, ast.AugAssign) and isinstance(n.target, (ast.Name, ast.Attribute)):
                        receiver(n.target, params)  # lst += [...] mutates in place
        memo[key] = out
        return out

    def is_memo_attr(self, attr: str) -> bool:
        """`<obj>.attr` is used as a memo table everywhere in the repository: its membership is only ever asked to guard the fill of the
        same key (`if k not in d: d[k] = e`, or `if k in d: return d[k]` followed by the fill), values are read by `d[k]`, nothing
        iterates it, measures it or hands it on.  What a skipped loop stored in such a table does not change what a later lookup
        yields (the value expression is taken to be a function of the key), so the table need not be opened: the executor recomputes
        the value on the miss branch, which is the value the hit branch would find."""
        from core.loader import parent

        memo = self.ex.__dict__.setdefault("memo_attrs", {})
        if attr in memo:
            return memo[attr]

        def same(a: ast.AST, b: ast.AST) -> bool:
            return ast.dump(a) == ast.dump(b)

        def block_of(st: ast.AST) -> list:
            p = parent(st)
            for fld in ("body", "orelse", "finalbody"):
                b = getattr(p, fld, None)
                if isinstance(b, list) and any(x is st for x in b):
                    return b
            return []

        def fill_of(st: ast.AST, d: ast.AST, k: ast.AST) -> bool:
            """st stores d[k] (possibly `v = d[k] = e`)."""
            return isinstance(st, ast.Assign) and any(isinstance(t, ast.Subscript) and same(t.value, d) and same(t.slice, k) for t in st.targets)

        def guarded_fill(test: ast.Compare) -> bool:
            """The membership test is the test of one of the two memo forms."""
            i = parent(test)
            if isinstance(i, ast.UnaryOp) and isinstance(i.op, ast.Not):
                neg, i = True, parent(i)
            else:
                neg = False
            if not isinstance(i, ast.If) or len(test.ops) != 1 or i.orelse:
                return False
            k, d = test.left, test.comparators[0]
            missing = isinstance(test.ops[0], ast.NotIn) != neg
            if missing:
                return len(i.body) == 1 and fill_of(i.body[0], d, k)
            if len(i.body) == 1 and isinstance(i.body[0], ast.Return) and isinstance(i.body[0].value, ast.Subscript) and same(i.body[0].value.value, d) and same(i.body[0].value.slice, k):
                blk = block_of(i)
                rest = blk[[x is i for x in blk].index(True) + 1:] if blk else []
                return any(fill_of(x, d, k) for x in rest)
            return False

        ok, forms = True, 0
        for f in self.repo.funcs.values():
            if not ok:
                break
            if isinstance(f.node, ast.Lambda):
                continue
            for n in own_nodes(f.node):
                if not (isinstance(n, ast.Attribute) and n.attr == attr):
                    continue
                p = parent(n)
                if isinstance(n.ctx, ast.Store):
                    continue  # (re-)initialisation
                if isinstance(p, ast.Subscript) and p.value is n:
                    if isinstance(p.ctx, ast.Load):
                        continue
                    if isinstance(p.ctx, ast.Store):
                        st = parent(p)
                        blk = block_of(st) if isinstance(st, ast.Assign) else []
                        i = parent(st) if isinstance(st, ast.Assign) else None
                        in_form_a = isinstance(i, ast.If) and isinstance(i.test, (ast.Compare, ast.UnaryOp)) and len(i.body) == 1
                        in_form_b = any(isinstance(x, ast.If) and isinstance(x.test, ast.Compare) and guarded_fill(x.test) and same(x.test.comparators[0], n) and same(x.test.left, p.slice) for x in blk[: [y is st for y in blk].index(True)]) if blk else False
                        if in_form_a:
                            t = i.test.operand if isinstance(i.test, ast.UnaryOp) else i.test
                            in_form_a = isinstance(t, ast.Compare) and guarded_fill(t) and same(t.comparators[0], n) and same(t.left, p.slice)
                        if in_form_a or in_form_b:
                            continue
                    ok = False
                    break
                if isinstance(p, ast.Compare) and any(c is n for c in p.comparators) and len(p.ops) == 1 and isinstance(p.ops[0], (ast.In, ast.NotIn)):
                    if guarded_fill(p):
                        forms += 1
                        continue
                ok = False
                break
        memo[attr] = ok and forms > 0
        return memo[attr]

    INSERTERS = {"add": 0, "append": 0, "appendleft": 0, "setdefault": 0, "insert": 1}

    def co_inserted(self, attr: str) -> set[str]:
        """Attribute names L such that every insertion of an element into `<obj>.attr` anywhere in the repository stands next to (same
        block) an insertion of the same expression into `<obj>.L`, and nothing is ever removed from `<obj>.L`: a member of the one is a
        member of the other (a set for membership kept beside a list for the order, ...)."""
        from core.loader import parent

        memo = self.ex.__dict__.setdefault("co_inserted", {})
        if attr in memo:
            return memo[attr]

        def insertion(st: ast.AST) -> list[tuple[str, str, str]]:
            """(receiver base, attribute, element) for a statement that inserts one element into `<base>.<attribute>`."""
            out = []
            if isinstance(st, ast.Expr) and isinstance(st.value, ast.Call) and isinstance(st.value.func, ast.Attribute) and st.value.func.attr in self.INSERTERS:
                recv, k = st.value.func.value, self.INSERTERS[st.value.func.attr]
                if isinstance(recv, ast.Attribute) and len(st.value.args) > k:
                    out.append((ast.dump(recv.value), recv.attr, ast.dump(st.value.args[k])))
            elif isinstance(st, ast.Assign):
                for tg in st.targets:
                    if isinstance(tg, ast.Subscript) and isinstance(tg.value, ast.Attribute):
                        out.append((ast.dump(tg.value.value), tg.value.attr, ast.dump(tg.slice)))
            return out

        REMOVERS = {"pop", "popleft", "remove", "clear", "discard", "popitem", "difference_update", "intersection_update", "symmetric_difference_update"}
        cands: set[str] | None = None
        removed_from: set[str] = set()
        for f in self.repo.funcs.values():
            if isinstance(f.node, ast.Lambda):
                continue
            for n in own_nodes(f.node):
                if isinstance(n, ast.Attribute) and isinstance(parent(n), ast.Attribute) and parent(n).value is n and parent(n).attr in REMOVERS:
                    removed_from.add(n.attr)
                if isinstance(n, ast.Subscript) and isinstance(n.ctx, ast.Del) and isinstance(n.value, ast.Attribute):
                    removed_from.add(n.value.attr)
                if not isinstance(n, ast.Attribute) or n.attr != attr or isinstance(n.ctx, ast.Store):
                    continue
                p = parent(n)
                mutating = (isinstance(p, ast.Attribute) and p.value is n and p.attr in PY_MUTATORS) or (isinstance(p, ast.Subscript) and p.value is n and isinstance(p.ctx, ast.Store)) or isinstance(p, ast.AugAssign)
                if not mutating:
                    continue
                st = p
                while st is not None and not isinstance(st, ast.stmt):
                    st = parent(st)
                mine = [x for x in insertion(st) if x[1] == attr] if st is not None else []
                if not mine:
                    cands = set()  # a bulk / unrecognised mutation: no relation can be claimed
                    continue
                blk = next((b for fld in ("body", "orelse", "finalbody") if isinstance(b := getattr(parent(st), fld, None), list) and any(x is st for x in b)), [st])
                here = {x[1] for other in blk for x in insertion(other) if x[1] != attr and (x[0], x[2]) == (mine[0][0], mine[0][2])}
                cands = here if cands is None else cands & here
        memo[attr] = (cands or set()) - removed_from
        return memo[attr]

    def live_values(self, frame: Frame) -> list:
        """Values bound to the local names of the active frame (and its enclosing closures)."""
        out = []
        f: Frame | None = frame
        while f is not None:
            out.extend(v for k, v in f.vars.items() if not k.startswith("__"))
            f = f.parent
        return out

    def open_after(self, body: list[ast.AST], frame: Frame) -> None:
        summ = self.mutation_summary(body, frame)
        if not (summ["names"] or summ["attrs"] or summ["rebound"] or summ["anyarg"]):
            return
        removing = summ["removing"]
        for n in sorted(summ["names"]):
            ok, v = frame.lookup(n)
            if ok and isinstance(v, (list, dict, set)):
                self.open_container(v, n, removing)
        roots = self.live_values(frame)
        if summ["anyarg"]:
            for v in roots:
                if isinstance(v, (list, dict, set)) and not any(v is frame.lookup(n)[1] for n in summ["names"]):
                    self.open_container(v, "container", removing)
        if summ["attrs"] or summ["rebound"]:
            seen: set[int] = set()
            todo = [v for v in roots if isinstance(v, Inst)]
            while todo:
                o = todo.pop()
                if id(o) in seen:
                    continue
                seen.add(id(o))
                for k, v in list(o.fields.items()):
                    if isinstance(v, Inst):
                        todo.append(v)
                    if k in summ["attrs"] and isinstance(v, (list, dict, set)):
                        if not (isinstance(v, dict) and self.is_memo_attr(k)):
                            self.open_container(v, k, removing)
                            self.opened(v).attr = k
                    elif k in summ["rebound"] and not isinstance(v, (ExtObj, FuncVal, ClassVal)):
                        o.fields[k] = self.new_sym(f"{k} after loop")

    def exec_for(self, s: ast.For, frame: Frame) -> None:
        parts = self.parts_of(self.eval(s.iter, frame), s, frame)
        yields_inside = any(isinstance(n, (ast.Yield, ast.YieldFrom)) for b in s.body for n in ast.walk(b))
        broke = False
        for part in parts:
            if part[0] == "item":
                self.assign(s.target, part[1], frame)
                if len(part) > 2:
                    self.iter_origins.append((part[2], part[3]))
                try:
                    self.exec_block(s.body, frame)
                except _Break:
                    broke = True
                    break
                except _Continue:
                    continue
                finally:
                    if len(part) > 2:
                        self.iter_origins.pop()
                continue
            _tag, template, source, _site = part
            if yields_inside:
                # generator body over a segment of unknown length: one representative repetition becomes a repeated segment of the result
                ys = self.yields_of(frame, s)
                start = len(ys)
                self.in_loop += 1
                for o in self.ext_objs:
                    o.version += 1
                try:
                    for tv in template:
                        self.assign(s.target, tv, frame)
                        try:
                            self.exec_block(s.body, frame)
                        except _Continue:
                            continue
                        except _Break:
                            break
                finally:
                    self.in_loop -= 1
                added = ys[start:]
                del ys[start:]
                if any(p[0] != "item" for p in added):
                    raise Unsupported("nested segments of unknown length in a generator", s, frame.fi)
                ys.append(("rep", [p[1] for p in added], source, self.havoc_site(s, frame)))
                self.havoc_after(s.body, [s.target], frame, keep_yields=True, site=self.havoc_site(s, frame), extra=source)
                continue
            if self.structural_decision("loop", self.havoc_site(s, frame)):
                self.body_sites.append(self.havoc_site(s, frame))
                self.in_loop += 1
                for o in self.ext_objs:
                    o.version += 1  # earlier iterations may have changed the abstract objects
                for tv in template:
                    self.assign(s.target, tv, frame)
                    try:
                        self.exec_block(s.body, frame)
                    except _Continue:
                        continue
                    except _Break:
                        break
                raise EndRun()
            self.havoc_after(s.body, [s.target], frame, site=self.havoc_site(s, frame), extra=source)
        if not broke:
            self.exec_block(s.orelse, frame)

    def comprehension(self, e: ast.AST, frame: Frame) -> Any:
        gens = e.generators
        inner = Frame(frame.fi, frame.module, frame, frame.cls_ctx)
        inner.self_name = None

        def emit() -> list:
            if isinstance(e, ast.DictComp):
                return [("item", (self.eval(e.key, inner), self.eval(e.value, inner)))]
            return [("item", self.eval(e.elt, inner))]

        def rec(i: int) -> list:
            if i == len(gens):
                return emit()
            g = gens[i]
            out: list = []
            for part in self.parts_of(self.eval(g.iter, inner if i else frame), e, frame):
                if part[0] == "item":
                    self.assign(g.target, part[1], inner)
                    if all(self.truth(self.eval(c, inner)) for c in g.ifs):
                        out += rec(i + 1)
                    continue
                _tag, template, source, _site = part
                self.in_loop += 1
                for o in self.ext_objs:
                    o.version += 1
                try:
                    rep: list = []
                    for tv in template:
                        self.assign(g.target, tv, inner)
                        if all(self.truth(self.eval(c, inner)) for c in g.ifs):
                            sub = rec(i + 1)
                            if any(p[0] != "item" for p in sub):
                                raise Unsupported("nested iteration over two iterables of unknown length in a comprehension", e, frame.fi)
                            rep += [p[1] for p in sub]
                finally:
                    self.in_loop -= 1
                out.append(("rep", rep, source, self.havoc_site(e, frame)))
            return out

        parts = rec(0)
        concrete = all(p[0] == "item" for p in parts)
        if isinstance(e, (ast.ListComp, ast.GeneratorExp)):
            return self.seq_value(parts)
        if not concrete:
            return App("comprehension", (self.havoc_site(e, frame), _h(Seq(parts))))
        if isinstance(e, ast.SetComp):
            s_: set = set()
            for p in parts:
                if not self.contains(s_, p[1]):
                    s_.add(_hashable(p[1]))
            return s_
        return {_hashable(p[1][0]): p[1][1] for p in parts}

    # ------------------------------------------------------------------ assignment
    def assign(self, t: ast.expr, v: Any, frame: Frame) -> None:
        if isinstance(t, ast.Name):
            if t.id in frame.vars.get("__global__", ()):
                self.module_global(frame.module, t.id)  # evaluates the initial value first
                self.modconst[(frame.module.name, t.id)] = v
                return
            if t.id in frame.vars.get("__nonlocal__", ()):
                f = frame.parent
                while f is not None and t.id not in f.vars:
                    f = f.parent
                if f is not None:
                    f.vars[t.id] = v
                    return
            frame.vars[t.id] = v
        elif isinstance(t, (ast.Tuple, ast.List)):
            if any(isinstance(x, ast.Starred) for x in t.elts):
                kind, items = self.iterate(v, t, frame)
                if kind != "concrete":
                    raise Unsupported("starred unpacking of an unknown iterable", t, frame.fi)
                k = [i for i, x in enumerate(t.elts) if isinstance(x, ast.Starred)][0]
                after = len(t.elts) - k - 1
                if len(items) < len(t.elts) - 1:
                    raise Raised(None, "ValueError")
                for x, item in zip(t.elts[:k], items[:k]):
                    self.assign(x, item, frame)
                self.assign(t.elts[k].value, items[k: len(items) - after], frame)
                for x, item in zip(t.elts[k + 1:], items[len(items) - after:]):
                    self.assign(x, item, frame)
                return
            if isinstance(v, Term):
                for i, x in enumerate(t.elts):
                    self.assign(x, App("index", (v, i)), frame)
                return
            kind, items = self.iterate(v, t, frame)
            if kind != "concrete":
                raise Unsupported("unpacking of an unknown iterable", t, frame.fi)
            if len(items) != len(t.elts):
                raise Raised(None, "ValueError")
            for x, item in zip(t.elts, items):
                self.assign(x, item, frame)
        elif isinstance(t, ast.Attribute):
            o = self.eval(t.value, frame)
            if isinstance(o, Inst):
                # property setter?
                o.fields[t.attr] = v
            elif isinstance(o, ANode):
                o.fields[t.attr] = v
            else:
                raise Unsupported(f"attribute assignment on a {type(o).__name__} value", t, frame.fi)
        elif isinstance(t, ast.Subscript):
            c = self.eval(t.value, frame)
            k = self.eval(t.slice, frame)
            if isinstance(c, dict):
                key = self.dict_key(c, _hashable(k))
                c[_hashable(k) if key is _MISSING else key] = v
            elif isinstance(c, list) and (isinstance(k, int) or isinstance(k, slice)):
                try:
                    c[k] = v
                except IndexError:
                    raise Raised(None, "IndexError")
            else:
                raise Unsupported("subscript assignment on a symbolic value", t, frame.fi)
        elif isinstance(t, ast.Starred):
            self.assign(t.value, v, frame)
        else:
            raise Unsupported(f"assignment target {type(t).__name__}", t, frame.fi)

    # ------------------------------------------------------------------ expressions
    def eval(self, e: ast.expr, frame: Frame) -> Any:
        self.tick(e, frame)
        fi = frame.fi
        if isinstance(e, ast.Constant):
            return e.value
        if isinstance(e, ast.Name):
            return self.lookup(e.id, frame, e)
        if isinstance(e, ast.Attribute):
            return self.getattr_value(self.eval(e.value, frame), e.attr, e, frame)
        if isinstance(e, ast.Call):
            return self.eval_call(e, frame)
        if isinstance(e, ast.BoolOp):
            v: Any = None
            for x in e.values:
                v = self.eval(x, frame)
                t = self.truth(v)
                if isinstance(e.op, ast.And) and not t:
                    return v if not isinstance(v, Term) or True else v
                if isinstance(e.op, ast.Or) and t:
                    return v
            return v
        if isinstance(e, ast.UnaryOp):
            v = self.eval(e.operand, frame)
            if isinstance(e.op, ast.Not):
                return not self.truth(v)
            if isinstance(e.op, ast.USub):
                if isinstance(v, (int, float)):
                    return -v
                if isinstance(v, App) and v.fn == "neg":
                    return v.args[0]
                return App("neg", (v,))
            if isinstance(e.op, ast.UAdd):
                return v
            raise Unsupported("unary operator", e, fi)
        if isinstance(e, ast.BinOp):
            return self.binop(e.op, self.eval(e.left, frame), self.eval(e.right, frame), e, frame)
        if isinstance(e, ast.Compare):
            left = self.eval(e.left, frame)
            for op, r in zip(e.ops, e.comparators):
                right = self.eval(r, frame)
                if not self.compare(op, left, right):
                    return False
                left = right
            return True
        if isinstance(e, ast.IfExp):
            return self.eval(e.body, frame) if self.truth(self.eval(e.test, frame)) else self.eval(e.orelse, frame)
        if isinstance(e, ast.JoinedStr):
            parts = []
            for p in e.values:
                if isinstance(p, ast.Constant):
                    parts.append(p.value)
                else:
                    v = self.eval(p.value, frame)
                    parts.append(self.to_str(v, p, frame))
            return cat(*parts)
        if isinstance(e, (ast.List, ast.Tuple, ast.Set)):
            dparts: list = []
            for x in e.elts:
                if isinstance(x, ast.Starred):
                    dparts += self.parts_of(self.eval(x.value, frame), e, frame)
                else:
                    dparts.append(("item", self.eval(x, frame)))
            if any(p[0] != "item" for p in dparts):
                if isinstance(e, ast.Set):
                    raise Unsupported("star-unpacking of an unknown iterable into a set display", e, fi)
                return Seq(dparts)
            items = [p[1] for p in dparts]
            if isinstance(e, ast.List):
                return items
            if isinstance(e, ast.Tuple):
                return tuple(items)
            return {_hashable(x) for x in items}
        if isinstance(e, ast.Dict):
            d: dict = {}
            for k, v in zip(e.keys, e.values):
                if k is None:
                    m = self.eval(v, frame)
                    if not isinstance(m, dict):
                        raise Unsupported("** of a non-dict in a dict display", e, fi)
                    d.update(m)
                else:
                    d[_hashable(self.eval(k, frame))] = self.eval(v, frame)
            return d
        if isinstance(e, (ast.ListComp, ast.SetComp, ast.DictComp, ast.GeneratorExp)):
            return self.comprehension(e, frame)
        if isinstance(e, ast.Subscript):
            return self.subscript(self.eval(e.value, frame), self.eval(e.slice, frame), e, frame)
        if isinstance(e, ast.Slice):
            lo = self.eval(e.lower, frame) if e.lower is not None else None
            hi = self.eval(e.upper, frame) if e.upper is not None else None
            st = self.eval(e.step, frame) if e.step is not None else None
            if all(x is None or isinstance(x, int) for x in (lo, hi, st)):
                return slice(lo, hi, st)
            return App("slice", (lo, hi, st))
        if isinstance(e, ast.Lambda):
            return Closure(e, frame)
        if isinstance(e, ast.NamedExpr):
            v = self.eval(e.value, frame)
            self.assign(e.target, v, frame)
            return v
        if isinstance(e, ast.Starred):
            raise Unsupported("starred expression", e, fi)
        raise Unsupported(f"expression {type(e).__name__}", e, fi)

    def to_str(self, v: Any, node: ast.AST, frame: Frame) -> Any:
        if isinstance(v, str):
            return v
        if isinstance(v, (int, float, bool, type(None))):
            return str(v)
        if isinstance(v, (Sym, Cat)):
            return v
        if isinstance(v, App):
            return v
        if isinstance(v, Inst):
            m = self.repo.lookup_method(v.ci, "__str__")
            if m is not None:
                return self.call_function(m, [v], {})
            return App("str", (show(v),))
        if is_native(v):
            return str(v)
        return App("str", (_h(v),))

    def binop(self, op: ast.operator, a: Any, b: Any, node: ast.AST, frame: Frame) -> Any:
        fi = frame.fi
        if isinstance(op, ast.Add):
            if isinstance(a, list) and isinstance(b, list):
                return a + b
            if isinstance(a, tuple) and isinstance(b, tuple):
                return a + b
            if isinstance(a, (str, Cat)) or isinstance(b, (str, Cat)) or (isinstance(a, Sym) and a.kind in ("str", "optstr", "anystr")) or (isinstance(b, Sym) and b.kind in ("str", "optstr", "anystr")):
                if isinstance(a, (str, Term)) and isinstance(b, (str, Term)):
                    return cat(a, b)
                raise Raised(None, "TypeError")
            if isinstance(a, (int, float)) and isinstance(b, (int, float)):
                return a + b
            if (isinstance(a, (list, tuple, Seq)) and isinstance(b, (Term, Seq, list, tuple))) or (isinstance(b, (list, tuple, Seq)) and isinstance(a, (Term, Seq))):
                return Seq(self.parts_of(a, node, frame) + self.parts_of(b, node, frame))
            if isinstance(a, Term) or isinstance(b, Term):
                if isinstance(a, (int, float)) and not isinstance(b, (int, float)):
                    a, b = b, a  # commutative for numbers: canonical order term first
                    if isinstance(b, (list, tuple)):
                        a, b = b, a
                return App("add", (_h(a), _h(b)))
        if isinstance(op, ast.Sub):
            if isinstance(a, (int, float)) and isinstance(b, (int, float)):
                return a - b
            if isinstance(a, (set, frozenset)) and isinstance(b, (set, frozenset)):
                return {x for x in a if not self.contains(b, x)}
            if isinstance(a, Term) or isinstance(b, Term):
                if isinstance(b, (int, float)):
                    return App("add", (_h(a), -b))
                return App("sub", (_h(a), _h(b)))
        if isinstance(op, (ast.Mult, ast.FloorDiv, ast.Mod, ast.Div, ast.Pow)) and is_native(a) and is_native(b):
            try:
                return {ast.Mult: lambda: a * b, ast.FloorDiv: lambda: a // b, ast.Mod: lambda: a % b, ast.Div: lambda: a / b, ast.Pow: lambda: a**b}[type(op)]()
            except Exception as ex:  # noqa: BLE001
                raise Raised(None, type(ex).__name__)
        if isinstance(op, ast.BitOr) and all(isinstance(x, (type, ClassVal, ExtRef, tuple)) or x is None for x in (a, b)):
            flat = []
            for x in (a, b):
                flat.extend(x if isinstance(x, tuple) else [type(None) if x is None else x])
            return tuple(flat)
        if isinstance(op, ast.Mod) and isinstance(a, str):
            vals = list(b) if isinstance(b, tuple) else [b]
            pieces = a.split("%s")
            if len(pieces) == len(vals) + 1 and all("%" not in p.replace("%%", "") for p in pieces):
                out = [pieces[0].replace("%%", "%")]
                for v, p in zip(vals, pieces[1:]):
                    out += [self.to_str(v, node, frame), p.replace("%%", "%")]
                return cat(*out)
            if is_native(b):
                try:
                    return a % b
                except (TypeError, ValueError) as ex:
                    raise Raised(None, type(ex).__name__)
            raise Unsupported("%-formatting other than %s with symbolic values", node, fi)
        if isinstance(op, ast.BitOr) and isinstance(a, (set, frozenset)) and isinstance(b, (set, frozenset)):
            return set(a) | set(b)
        if isinstance(op, ast.BitOr) and isinstance(a, dict) and isinstance(b, dict):
            return {**a, **b}
        if isinstance(op, ast.BitAnd) and isinstance(a, (set, frozenset)) and isinstance(b, (set, frozenset)):
            return {x for x in a if self.contains(b, x)}
        if isinstance(a, Term) or isinstance(b, Term):
            return App(type(op).__name__.lower(), (_h(a), _h(b)))
        raise Unsupported(f"operator {type(op).__name__} on {type(a).__name__} and {type(b).__name__}", node, fi)

    def subscript(self, c: Any, k: Any, node: ast.AST, frame: Frame | None) -> Any:
        fi = frame.fi if frame is not None else None
        if isinstance(c, (list, dict)) and self.opened(c) is not None:
            o = self.opened(c)
            if isinstance(c, dict):
                key = self.dict_key(c, _hashable(k))
                if key is not _MISSING:
                    return c[key]
                if self.decide(self.member_atom(o, k)):
                    return App("value", (o.src, _h(k)))
                if isinstance(c, DDict) and c.factory is not None:
                    c[_hashable(k)] = self.call(c.factory, [], {}, node, frame)
                    return c[_hashable(k)]
                raise Raised(None, "KeyError")
            if isinstance(k, slice):
                k = App("slice", (k.start, k.stop, k.step))
            return App("index", (o.src, _h(k)))
        if isinstance(c, (list, tuple, str)):
            if isinstance(k, (int, slice)) and not isinstance(k, bool):
                try:
                    return c[k]
                except IndexError:
                    raise Raised(None, "IndexError")
            if isinstance(k, Term):
                return App("index", (_h(c), k))
            raise Raised(None, "TypeError")
        if isinstance(c, dict):
            hk = _hashable(k)
            key = self.dict_key(c, hk)
            if key is not _MISSING:
                return c[key]
            if isinstance(c, DDict) and c.factory is not None:
                c[hk] = self.call(c.factory, [], {}, node, frame)
                return c[hk]
            raise Raised(None, "KeyError")
        if isinstance(c, Seq):
            if c.concrete:
                return self.subscript(c.items(), k, node, frame)
            if isinstance(k, int) and not isinstance(k, bool) and not c.unordered:
                lead = []
                for p in c.parts:
                    if p[0] != "item":
                        break
                    lead.append(p[1])
                trail = []
                for p in reversed(c.parts):
                    if p[0] != "item":
                        break
                    trail.insert(0, p[1])
                if 0 <= k < len(lead):
                    return lead[k]
                if k < 0 and -k <= len(trail):
                    return trail[k]
            if isinstance(k, slice):
                k = App("slice", (k.start, k.stop, k.step))
            return App("index", (_h(c), _h(k)))
        if isinstance(c, Term):
            if isinstance(k, slice):
                k = App("slice", (k.start, k.stop, k.step))
            return App("index", (c, _h(k)))
        if isinstance(c, ExtObj) and c.concrete:
            if not is_native(k):
                raise Unsupported("symbolic node in a concrete graph", node, fi)
            if k not in c.cadj:
                raise Raised(None, "KeyError")
            return c.cadj[k]
        if isinstance(c, ExtView) and c.obj.concrete:
            return self.subscript(self.view_native(c), k, node, frame)
        if isinstance(c, ExtObj):
            return ExtView(c, "adj1", k)
        if isinstance(c, ExtView):
            o, v = c.obj, c.obj.version
            if c.kind == "nodes":
                if not self.decide(App(f"hasnode@{v}", (o.name, _h(k)))):
                    raise Raised(None, "KeyError")
                return App(f"nodedata@{v}", (o.name, _h(k)))
            if c.kind in ("adj", "pred"):
                return ExtView(o, c.kind + "1", k)
            if c.kind == "edges":
                if not (isinstance(k, tuple) and len(k) == 2):
                    raise Unsupported("edge view subscript that is not a pair", node, fi)
                a, b = k
            else:
                a, b = (c.key, k) if c.kind == "adj1" else (k, c.key)
            if not self.decide(App(f"hasedge@{v}", (o.name, _h(a), _h(b)))):
                raise Raised(None, "KeyError")
            return App(f"edgedata@{v}", (o.name, _h(a), _h(b)))
        if isinstance(c, Inst) and c.args[:1] == ("namedtuple",) and isinstance(k, (int, slice)):
            try:
                return tuple(c.fields[n] for n in c.args[1:])[k]
            except IndexError:
                raise Raised(None, "IndexError")
        if isinstance(c, Inst):
            m = self.repo.lookup_method(c.ci, "__getitem__")
            if m is not None:
                return self.call_function(m, [c, k], {})
        if isinstance(c, (ExtRef, type, ClassVal)):
            return c  # generic alias such as list[str]
        raise Unsupported(f"subscript of a {type(c).__name__} value", node, fi)

    def value_equality(self, v: Inst) -> bool:
        """The instance's class (or a base inside the repository) defines __eq__: containers compare it by value."""
        return self.repo.lookup_method(v.ci, "__eq__") is not None or dataclass_eq(v.ci) or v.args[:1] == ("namedtuple",)

    def dict_key(self, d: dict, k: Any) -> Any:
        """The key of `d` equal to k: structurally, or by an equality already decided on this path (distinct terms are distinct keys)."""
        if isinstance(k, Inst) and self.value_equality(k):
            for key in d:
                if key is k or (isinstance(key, Inst) and self.equal(key, k)):
                    return key
            return _MISSING
        try:
            if k in d:
                return k
        except TypeError:
            raise Raised(None, "TypeError")
        if isinstance(k, Term) or any(isinstance(x, Term) for x in d):
            for key in d:
                a, b = sorted([key, k], key=lambda t: (not isinstance(t, Term), show(t)))
                if self.path.get(App("eq", (a, b))) is True:
                    return key
        return _MISSING

    # ------------------------------------------------------------------ calls (expression level)
    def effect_only(self, fi: FuncInfo) -> bool:
        """True if (by a conservative syntactic scan of the function and everything it may call, resolved by name) the function writes to
        nothing but its own locals and abstract library objects: skipping such a call only loses knowledge about those objects."""
        memo = self.ex.effect_only
        if fi.fq in memo:
            return memo[fi.fq]
        memo[fi.fq] = False  # recursion: conservative
        seen: set[str] = set()
        todo = [fi]
        ok = True
        by_name: dict[str, list[FuncInfo]] = {}
        for f in self.repo.funcs.values():
            by_name.setdefault(f.name, []).append(f)
        while todo and ok:
            f = todo.pop()
            if f.fq in seen:
                continue
            seen.add(f.fq)
            if isinstance(f.node, ast.Lambda):
                continue
            for n in ast.walk(f.node):
                if isinstance(n, (ast.Attribute, ast.Subscript)) and isinstance(n.ctx, (ast.Store, ast.Del)):
                    ok = False
                elif isinstance(n, (ast.Global, ast.Nonlocal, ast.Yield, ast.YieldFrom, ast.Await)):
                    ok = False
                elif isinstance(n, ast.Call):
                    if isinstance(n.func, ast.Attribute):
                        if n.func.attr in PY_MUTATORS:
                            ok = False
                        todo += [g for g in by_name.get(n.func.attr, []) if g.cls is not None]
                    elif isinstance(n.func, ast.Name):
                        nm = n.func.id
                        if nm in ("setattr", "delattr", "exec", "eval"):
                            ok = False
                        elif nm in f.module.functions:
                            todo.append(f.module.functions[nm])
                        elif nm in f.module.classes or (nm in f.module.imports and self.repo._canonical(f.module.imports[nm]).rpartition(".")[0] in self.repo.modules and self.repo._canonical(f.module.imports[nm]).rpartition(".")[2][:1].isupper()):
                            ok = False  # constructing repo objects runs __init__ bodies: not worth modelling here
                        elif nm in f.module.imports:
                            d = self.repo._canonical(f.module.imports[nm])
                            m = self.repo.modules.get(d.rpartition(".")[0])
                            if m is not None and d.rpartition(".")[2] in m.functions:
                                todo.append(m.functions[d.rpartition(".")[2]])
                        elif nm not in BUILTIN_FUNCS and nm not in PY_TYPES and nm not in PY_EXC:
                            # a local / parameter holding a callable: unknown target
                            if nm != "super":
                                ok = False
                    else:
                        ok = False
                if not ok:
                    break
        memo[fi.fq] = ok
        return ok

    def eval_call(self, e: ast.Call, frame: Frame, statement: bool = False) -> Any:
        fi = frame.fi
        # super()
        if isinstance(e.func, ast.Name) and e.func.id == "super" and not frame.lookup("super")[0]:
            f: Frame | None = frame
            while f is not None and f.self_name is None:
                f = f.parent
            if f is None or f.cls_ctx is None:
                raise Unsupported("super() outside a method", e, fi)
            if e.args:
                raise Unsupported("super() with arguments", e, fi)
            return SuperVal(f.vars[f.self_name], f.cls_ctx)
        func = self.eval(e.func, frame)
        args: list = []
        for i, a in enumerate(e.args):
            if isinstance(a, ast.Starred):
                kind, items = self.iterate(self.eval(a.value, frame), e, frame)
                if kind != "concrete":
                    # an opaque tuple splatted into a call of known arity: it has exactly as many elements as the callee still takes
                    n = self.positional_arity(func, {k.arg for k in e.keywords if k.arg})
                    rest = len(e.args) - i - 1
                    if n is None or any(isinstance(x, ast.Starred) for x in e.args[i + 1:]) or n - len(args) - rest < 0:
                        raise Unsupported("*args of unknown length", e, fi)
                    args.extend(App("index", (items, j)) for j in range(n - len(args) - rest))
                    continue
                args.extend(items)
            else:
                args.append(self.eval(a, frame))
        kwargs: dict = {}
        for k in e.keywords:
            if k.arg is None:
                m = self.eval(k.value, frame)
                if not isinstance(m, dict):
                    raise Unsupported("**kwargs of unknown shape", e, fi)
                kwargs.update(m)
            else:
                kwargs[k.arg] = self.eval(k.value, frame)
        if statement and isinstance(func, FuncVal) and func.fi.fq not in self.ex.stop and self.effect_only(func.fi):
            site = self.havoc_site(e, frame)
            if self.structural_decision("call", site):
                self.body_sites.append(site)
                self.call(func, args, kwargs, e, frame)
                raise EndRun()
            for o in self.ext_objs:
                o.version += 1
            return None
        return self.call(func, args, kwargs, e, frame)

    EXT_ARITY = {"add_edge": 2, "has_edge": 2, "remove_edge": 2, "get_edge_data": 2, "add_node": 1, "has_node": 1, "remove_node": 1, "has_successor": 2, "has_predecessor": 2}

    def positional_arity(self, f: Any, keywords: set[str]) -> int | None:
        """Number of positional arguments a call of f takes when it takes a fixed number (required positional parameters not given by keyword)."""
        if isinstance(f, BoundBuiltin) and isinstance(f.recv, ExtObj):
            return self.EXT_ARITY.get(f.name)
        fn = f.fi.node if isinstance(f, FuncVal) else f.node if isinstance(f, Closure) else None
        if fn is None or fn.args.vararg is not None:
            return None
        pos = [p.arg for p in [*fn.args.posonlyargs, *fn.args.args]]
        if isinstance(f, FuncVal) and f.self_val is not None:
            pos = pos[1:]
        required = pos[: len(pos) - len(fn.args.defaults)] if fn.args.defaults else pos
        return len([p for p in required if p not in keywords])

    # ------------------------------------------------------------------ concrete graph views
    def view_native(self, w: ExtView) -> Any:
        """The native (live where networkx' is live) value of a view of a concrete graph."""
        o = w.obj
        if w.kind == "nodes":
            return o.cnodes
        if w.kind == "adj":
            return o.cadj
        if w.kind == "edges":
            return {(u, v): a for u in o.cnodes for v, a in o.cadj.get(u, {}).items()}
        if w.kind == "pred":
            return {n: {u: o.cadj[u][n] for u in o.cnodes if n in o.cadj.get(u, {})} for n in o.cnodes}
        if not is_native(w.key):
            raise Unsupported("symbolic node in a concrete graph")
        if w.key not in o.cnodes:
            raise Raised(None, "NetworkXError")
        if w.kind == "adj1":
            return o.cadj[w.key]
        return {u: o.cadj[u][w.key] for u in o.cnodes if w.key in o.cadj.get(u, {})}

    def view_call(self, w: ExtView, args: list, kwargs: dict, node: ast.AST | None, frame: Frame | None) -> Any:
        """G.nodes(data=...) / G.edges(data=..., default=...) of a concrete graph."""
        data = kwargs.get("data", args[0] if args and w.kind == "nodes" else False)
        default = kwargs.get("default")
        nat = self.view_native(w)
        if w.kind == "nodes":
            if data is False:
                return list(nat)
            return [(n, a if data is True else a.get(data, default)) for n, a in nat.items()]
        if w.kind == "edges":
            if args and args[0] is not None:
                raise Unsupported("G.edges(nbunch)", node, frame.fi if frame else None)
            if data is False:
                return list(nat)
            return [(u, v, a if data is True else a.get(data, default)) for (u, v), a in nat.items()]
        raise Unsupported(f"call of a {w.kind} view", node, frame.fi if frame else None)

    # ------------------------------------------------------------------ isinstance
    def isinstance_(self, v: Any, t: Any, node: ast.AST | None, frame: Frame | None) -> bool:
        if isinstance(t, tuple):
            return any(self.isinstance_(v, x, node, frame) for x in t)
        if isinstance(t, ExtRef):
            r = self.ext_class(t.dotted)
            if r is None:
                if isinstance(v, ExtObj):
                    return v.type.split(".")[-1] == t.dotted.split(".")[-1]
                if isinstance(v, (ANode, Inst)) or is_native(v):
                    if isinstance(v, Inst) and any(b.split(".")[-1] == t.dotted.split(".")[-1] for b in self.repo.external_bases(v.ci)):
                        return True
                    if t.dotted.split(".")[-1] in ("Sequence", "Iterable", "Collection"):
                        return isinstance(v, (list, tuple, str)) or (t.dotted.endswith("Iterable") and isinstance(v, (set, dict)))
                    if t.dotted.split(".")[-1] in ("Mapping", "MutableMapping"):
                        return isinstance(v, dict)
                    return False
                return self.decide(App("isinstance", (_h(v), t.dotted)))
            t = r
        if isinstance(t, type):
            if isinstance(v, ANode):
                return issubclass(v.pycls, t)
            if isinstance(v, Sym):
                if v.kind in ("str", "anystr"):
                    return t in (str, object)
                if v.kind == "optstr":
                    return t is object or (t is str and not self.is_none(v))
                if v.kind == "nat":
                    return t in (int, object)
                if v.kind == "set":
                    return t in (set, object)
            if isinstance(v, Cat):
                return t in (str, object)
            if isinstance(v, Term):
                return self.decide(App("isinstance", (v, t.__name__)))
            if isinstance(v, (Inst, ExtObj, FuncVal, ClassVal, Closure, Partial)):
                return t is object
            return isinstance(v, t)
        if isinstance(t, ClassVal):
            if isinstance(v, Inst):
                return self.repo.is_subclass(v.ci, t.ci.fq)
            if isinstance(v, Term):
                return self.decide(App("isinstance", (v, t.ci.name)))
            return False
        raise Unsupported(f"isinstance against a {type(t).__name__} value", node, frame.fi if frame else None)

    @staticmethod
    def ext_class(dotted: str):
        if dotted.startswith("ast."):
            c = getattr(ast, dotted[4:], None)
            if isinstance(c, type):
                return c
        if dotted.startswith("builtins."):
            c = getattr(_pybuiltins, dotted[9:], None)
            if isinstance(c, type):
                return c
        return None


_MISSING = _MISSING_KEY


class _Opaque(Exception):
    def __init__(self, term: Term) -> None:
        self.term = term


def _hashable(v: Any) -> Any:
    if isinstance(v, list):
        return tuple(_hashable(x) for x in v)
    return v


def _as_load(t: ast.expr) -> ast.expr:
    import copy

    n = copy.copy(t)
    n.ctx = ast.Load()
    return n


Explorer.interp_cls = None  # set in c02_builtins (the full interpreter)
