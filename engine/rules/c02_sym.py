"""Symbolic executor used by the C02 rules (static: interprets the *source* of /repo with symbolic inputs; nothing is imported or run).

The rules of C02 are phrased as *symbolic test cases against public entry points*: `ImportConverter().convert(asts, prefix, internal)`
on an abstract syntax tree whose nodes are known only by their grammar class and whose leaves are symbolic, and
`NetworkxGraph(all_modules, imports, level_limit)` on symbolic import records.  Every path through the code is enumerated (a decision
on a condition that the symbolic inputs do not determine forks the run); the values that come out are *terms* over the inputs
(`<P>.<n1>`, `parents(<importer>)[-<level>]`) and each path carries the truth values of the atoms it decided (`<P>.<n1> in <internal>`).
Because only entry points are anchored, renaming / extracting / inlining / moving helpers, swapping branches, early returns, loops
vs comprehensions etc. do not change what the executor computes.

Values
  native python constants (str, int, bool, None, tuple), native mutable list / dict / set (each run starts from scratch, so no copying)
  Sym / Cat / App            symbolic terms (immutable, structural equality)
  Inst                       instance of a repo class, fields in a dict
  ANode                      abstract `ast` node: grammar class + fields
  ExtObj                     instance of a library class that is modelled abstractly (networkx graph): reads are atoms / terms that carry a
                             state version, calls of mutators are recorded as effects
  FuncVal / ClassVal / ExtRef / Partial / Closure

  OpenInfo                   side table for native list / dict / set objects that a skipped loop may have changed: known items plus an
                             unknown rest; membership is an atom `member@epoch.version(name, x)`, iteration yields the known items, every
                             value known to be a member on this path, and one repeated segment for the rest
  CtxGen / DDict             contextlib.contextmanager generators (entered by `with`), collections.defaultdict

Loops whose continuation the oracle (not the data) decided twice in a row (`while` with symbolic tests / breaks) and functions that
re-entered themselves three times on symbolic arguments are loops / recursions of unknown length: skipped with their effects forgotten
(havoc values are uninterpreted functions `after(var, site, state)` of the state they start from) or explored for one arbitrary iteration.

Path enumeration is by re-execution: a run follows a vector of decisions; when it needs a new decision it takes True and the sibling is
scheduled.  Loops over iterables of unknown length ("havoc loops") do not multiply paths: a run either skips the loop (variables
assigned in it become unknown, abstract objects get a new state version) or executes the body once and stops there.
"""

from __future__ import annotations

import ast
from dataclasses import dataclass, field
from typing import Any, Callable

from core.loader import ClassInfo, FuncInfo, ModuleInfo, Repo


_MISSING_KEY = object()


class Unsupported(Exception):
    """The executor cannot interpret a construct (reported as *undecided*, never as a verdict)."""

    def __init__(self, msg: str, node: ast.AST | None = None, fi: FuncInfo | None = None) -> None:
        super().__init__(msg)
        self.msg = msg
        self.node = node
        self.fi = fi

    def where(self) -> str:
        if self.fi is not None and self.node is not None:
            return f"{self.fi.relpath}:{getattr(self.node, 'lineno', 0)}"
        return ""


class Budget(Unsupported):
    pass


# --------------------------------------------------------------------------- terms


class Term:
    __slots__ = ()


@dataclass(frozen=True)
class Sym(Term):
    name: str
    kind: str = ""  # str | optstr | anystr | nat | optint | set | bool | list | "" (unknown)

    def __repr__(self) -> str:
        return f"<{self.name}>"


@dataclass(frozen=True)
class Cat(Term):
    parts: tuple  # of str | Term, no two adjacent str, no nested Cat

    def __repr__(self) -> str:
        return "".join(p if isinstance(p, str) else repr(p) for p in self.parts)


@dataclass(frozen=True)
class App(Term):
    fn: str
    args: tuple

    def __repr__(self) -> str:
        return show(self)


def show(t: Any) -> str:
    if isinstance(t, App):
        a = t.args
        f = t.fn
        if f == "index":
            return f"{show(a[0])}[{show(a[1])}]"
        if f == "neg":
            return f"-{show(a[0])}"
        if f == "in":
            return f"{show(a[0])} in {show(a[1])}"
        if f == "eq":
            return f"{show(a[0])} == {show(a[1])}"
        if f == "isnone":
            return f"{show(a[0])} is None"
        if f == "truthy":
            return f"bool({show(a[0])})"
        if f.startswith("meth:"):
            return f"{show(a[0])}.{f[5:]}({', '.join(show(x) for x in a[1:])})"
        if f.startswith("attr:"):
            return f"{show(a[0])}.{f[5:]}"
        if f.startswith("call:"):
            return f"{f[5:].split('::')[-1].split('.')[-1]}({', '.join(show(x) for x in a)})"
        if f.startswith("ext:"):
            return f"{f[4:]}({', '.join(show(x) for x in a)})"
        if f == "after":
            return f"<{a[0]} after the loop at {str(a[1]).split('::')[-1]}>"
        return f"{f}({', '.join(show(x) for x in a)})"
    if isinstance(t, (Sym, Cat)):
        return repr(t)
    if isinstance(t, ExtObj):
        return t.name
    if isinstance(t, Inst):
        return f"<{t.ci.name} object>"
    if isinstance(t, ANode):
        return f"<ast.{t.cls}>"
    if isinstance(t, Seq):
        return "[" + ", ".join(show(p[1]) if p[0] == "item" else "*" + show(p[2]) for p in t.parts) + "]"
    if isinstance(t, (list, tuple)):
        o, c = ("[", "]") if isinstance(t, list) else ("(", ")")
        return o + ", ".join(show(x) for x in t) + c
    return repr(t)


def cat(*parts: Any) -> Any:
    """String concatenation of constants and terms, normalised."""
    out: list = []
    for p in parts:
        ps = p.parts if isinstance(p, Cat) else (p,)
        for q in ps:
            if isinstance(q, str) and out and isinstance(out[-1], str):
                out[-1] = out[-1] + q
            elif isinstance(q, str) and q == "":
                continue
            else:
                out.append(q)
    if not out:
        return ""
    if len(out) == 1:
        return out[0]
    return Cat(tuple(out))


def subterms(t: Any):
    yield t
    if isinstance(t, Cat):
        for p in t.parts:
            yield from subterms(p)
    elif isinstance(t, App):
        for a in t.args:
            yield from subterms(a)
    elif isinstance(t, (tuple, list)):
        for a in t:
            yield from subterms(a)


def mentions(t: Any, x: Any) -> bool:
    return any(s == x for s in subterms(t) if isinstance(s, Term) or isinstance(x, str))


# --------------------------------------------------------------------------- other values


@dataclass(eq=False)
class Inst:
    ci: ClassInfo
    fields: dict = field(default_factory=dict)
    args: tuple = ()
    site: str = ""  # file:line of the constructor call (diagnostics)


@dataclass(eq=False)
class ANode:
    cls: str
    fields: dict = field(default_factory=dict)
    tag: str = ""

    @property
    def pycls(self):
        return getattr(ast, self.cls)


@dataclass(eq=False)
class ExtObj:
    type: str
    name: str
    version: int = 0
    # concrete mode (Explorer(concrete_graph=True)): a directed graph over native values with networkx' semantics, insertion ordered
    concrete: bool = False
    cnodes: dict = field(default_factory=dict)  # node -> attribute dict
    cadj: dict = field(default_factory=dict)  # node -> {successor -> attribute dict}
    frozen: bool = False


@dataclass(eq=False)
class Seq:
    """Partially known sequence: known items interleaved with repeated segments of unknown length.

    parts: ("item", value) | ("rep", [values of one repetition], source term, site)
    """

    parts: list
    unordered: bool = False  # the position of the known items among the unknown ones is not known

    @property
    def concrete(self) -> bool:
        return all(p[0] == "item" for p in self.parts)

    def items(self) -> list:
        return [p[1] for p in self.parts if p[0] == "item"]


@dataclass(eq=False)
class OpenInfo:
    """A native list / dict / set that a skipped loop of unknown length may have changed: besides the items the executor knows it holds
    an unknown number of unknown elements.  `ver` counts the openings (an element that was not a member may have become one), `epoch`
    the openings by a body that may also remove elements (then an element that was a member may have ceased to be one)."""

    obj: Any
    name: str
    epoch: int = 0
    ver: int = 0
    attr: str = ""  # name of the attribute that holds the container (when it was found as a field of an object)

    @property
    def src(self) -> "App":
        return App(f"open@{self.epoch}.{self.ver}", (self.name,))


@dataclass(eq=False)
class ExtView:
    """View of an abstract graph: nodes | edges | adj | pred (mapping node -> neighbours) | adj1 | pred1 (neighbours of `key`)."""

    obj: ExtObj
    kind: str
    key: Any = None


@dataclass(eq=False)
class FuncVal:
    fi: FuncInfo
    self_val: Any = None  # bound receiver (instance or ClassVal for classmethods)
    closure: "Frame | None" = None


@dataclass(eq=False)
class ClassVal:
    ci: ClassInfo

    def __eq__(self, other: Any) -> bool:  # a class is the same value wherever it is looked up (dict dispatch on type(x))
        return isinstance(other, ClassVal) and other.ci is self.ci

    def __hash__(self) -> int:
        return hash(self.ci.fq)


@dataclass(frozen=True)
class ExtRef:
    dotted: str


@dataclass(eq=False)
class Partial:
    func: Any
    args: tuple
    kwargs: dict


@dataclass(eq=False)
class CtxGen:
    """Result of calling a generator function decorated with contextlib.contextmanager: its body runs when a `with` statement enters it."""

    fi: FuncInfo
    args: list
    kwargs: dict
    closure: "Frame | None"


class DDict(dict):
    """collections.defaultdict: a dict whose missing keys are created by `factory`."""

    factory: Any = None


@dataclass(eq=False)
class Closure:
    node: ast.AST  # Lambda or nested FunctionDef
    frame: "Frame"


@dataclass(eq=False)
class BoundBuiltin:
    recv: Any
    name: str


@dataclass(eq=False)
class SuperVal:
    inst: Any
    after: ClassInfo


class Frame:
    def __init__(self, fi: FuncInfo | None, module: ModuleInfo, parent: "Frame | None" = None, cls_ctx: ClassInfo | None = None) -> None:
        self.vars: dict[str, Any] = {}
        self.fi = fi
        self.module = module
        self.parent = parent
        self.cls_ctx = cls_ctx
        self.self_name: str | None = None

    def lookup(self, name: str):
        f: Frame | None = self
        while f is not None:
            if name in f.vars:
                return True, f.vars[name]
            f = f.parent
        return False, None


class _Return(Exception):
    def __init__(self, value: Any) -> None:
        self.value = value


class _Break(Exception):
    pass


class _Continue(Exception):
    pass


class Raised(Exception):
    """A python exception raised by the interpreted program."""

    def __init__(self, exc: Any, name: str) -> None:
        super().__init__(name)
        self.exc = exc
        self.name = name


class EndRun(Exception):
    """The run stops here on purpose (body of a havoc loop executed once)."""


@dataclass
class Effect:
    kind: str  # "ext" (mutator call on an abstract object) | "call" (stopped repo call)
    obj: Any
    name: str
    args: tuple
    kwargs: dict
    in_loop: bool
    path: dict  # snapshot of the decisions at that point
    version: int = 0
    where: str = ""
    n_decisions: int = 0  # number of decisions the run had taken when the effect happened
    origins: tuple = ()  # (name of an open collection, value): the effect happened while iterating that collection, at a value known to be a member


@dataclass
class Run:
    outcome: str  # return | raise | loop-body
    value: Any
    effects: list
    path: dict
    trace: list  # [(atom, value)] in decision order (atoms only)
    body_runs: tuple  # havoc loop sites whose body this run executed
    raised: str = ""

    @property
    def main(self) -> bool:
        return not self.body_runs


MUTATORS = {"add_node", "add_edge", "add_nodes_from", "add_edges_from", "remove_node", "remove_edge", "remove_nodes_from", "remove_edges_from", "clear", "update", "add_weighted_edges_from", "clear_edges"}

STR_METHODS = {"split", "rsplit", "join", "startswith", "endswith", "partition", "rpartition", "count", "find", "rfind", "index", "replace", "strip", "lstrip", "rstrip", "lower", "upper", "removeprefix", "removesuffix", "format", "isidentifier", "splitlines", "title", "isdigit"}


def dataclass_eq(ci: ClassInfo) -> bool:
    """@dataclass without eq=False: instances compare field by field."""
    for d in ci.node.decorator_list:
        name = d.func if isinstance(d, ast.Call) else d
        if (isinstance(name, ast.Name) and name.id == "dataclass") or (isinstance(name, ast.Attribute) and name.attr == "dataclass"):
            if isinstance(d, ast.Call) and any(k.arg == "eq" and isinstance(k.value, ast.Constant) and k.value.value is False for k in d.keywords):
                return False
            return True
    return False


def is_native(v: Any) -> bool:
    if isinstance(v, (str, int, float, bool, type(None), bytes)):
        return True
    if isinstance(v, (tuple, list, set, frozenset)):
        return all(is_native(x) for x in v)
    if isinstance(v, dict):
        return all(is_native(k) and is_native(x) for k, x in v.items())
    return False


def is_immutable(v: Any) -> bool:
    if isinstance(v, (str, int, float, bool, type(None), bytes, Term, ExtRef)):
        return True
    if isinstance(v, tuple):
        return all(is_immutable(x) for x in v)
    return False


class Explorer:
    """Enumerates the paths of one entry call."""

    def __init__(self, repo: Repo, opaque: set[str] | None = None, stop: set[str] | None = None, max_runs: int = 4000, max_steps: int = 200000, split_calls: bool = False) -> None:
        self.repo = repo
        self.concrete_graph = False  # library graph objects are modelled concretely (all inputs of the entry are constants)
        self.split_calls = split_calls  # explore statement-level calls that only touch abstract objects separately (paths add up instead of multiplying)
        self.effect_only: dict[str, bool] = {}
        self.opaque = opaque or set()
        self.stop = stop or set()
        self.max_runs = max_runs
        self.max_steps = max_steps
        self.force_opaque: set[str] = set()
        self.entered: set[str] = set()  # fq of every repo function interpreted on some path
        self.fallbacks: set[str] = set()  # functions treated as uninterpreted because their body could not be interpreted on symbolic arguments

    interp_cls: Any = None

    def explore(self, entry: Callable[[Any], Any]) -> list[Run]:
        runs: list[Run] = []
        prefix: list[bool] = []
        while True:
            it = self.interp_cls(self, prefix)
            try:
                value = entry(it)
                outcome, raised = "return", ""
            except EndRun:
                value, outcome, raised = None, "loop-body", ""
            except Raised as r:
                value, outcome, raised = r.exc, "raise", r.name
            except RecursionError as e:  # pragma: no cover
                raise Unsupported(f"recursion too deep while interpreting: {e}")
            runs.append(Run(outcome, value, it.effects, dict(it.path), list(it.trace), tuple(it.body_sites), raised))
            self.fallbacks |= it.fallbacks
            if len(runs) > self.max_runs:
                raise Budget(f"more than {self.max_runs} paths")
            d = it.decisions
            while d and d[-1] is False:
                d.pop()
            if not d:
                return runs
            d[-1] = False
            prefix = d


class InterpBase:
    def __init__(self, ex: "Explorer", prefix: list[bool]) -> None:
        self.ex = ex
        self.repo = ex.repo
        self.prefix = list(prefix)
        self.decisions: list[bool] = []
        self.path: dict[App, bool] = {}
        self.trace: list[tuple[App, bool]] = []
        self.effects: list[Effect] = []
        self.body_sites: list[str] = []
        self.steps = 0
        self.depth = 0
        self.fresh = 0
        self.fallbacks: set[str] = set()
        self.modconst: dict[tuple[str, str], Any] = {}
        self.ext_objs: list[ExtObj] = []
        self.open: dict[int, OpenInfo] = {}  # id(container) -> OpenInfo (the container is kept alive by the entry)
        self.ctx_bodies: list = []  # bodies of the `with` statements that are entering a generator context manager
        self.n_asked = 0  # how often a condition was answered by the oracle (freshly or by an earlier decision) rather than by the data
        self.iter_origins: list = []  # (open collection name, member) of the enclosing iterations over known members
        self.active: list = []  # keys of the repo functions / closures being interpreted (recursion)
        self.while_frames: list = []  # [frame, number of oracle decisions on an exit in the current iteration] per active while loop

    # ------------------------------------------------------------------ open containers
    def opened(self, c: Any) -> "OpenInfo | None":
        o = self.open.get(id(c))
        return o if o is not None and o.obj is c else None

    def open_container(self, c: Any, hint: str, removing: bool) -> None:
        o = self.opened(c)
        if o is None:
            o = self.open[id(c)] = OpenInfo(c, f"{hint}#{len(self.open) + 1}")
        else:
            o.ver += 1
        if removing:
            o.epoch += 1

    def member_atom(self, o: "OpenInfo", x: Any) -> App:
        return App(f"member@{o.epoch}.{o.ver}", (o.name, _h(x)))

    def known_members(self, o: "OpenInfo") -> list:
        """Values whose membership in the open container was decided positively on this path (and cannot have been undone)."""
        out: list = []
        for at, v in self.path.items():
            if v and at.fn.startswith("member@") and at.args[0] == o.name and int(at.fn[7:].split(".")[0]) == o.epoch:
                x = at.args[1]
                if isinstance(x, (Term, str, int)) or (isinstance(x, tuple) and is_immutable(x) and not (len(x) == 3 and x[0] == "obj")):
                    if not any(y is x or (type(y) is type(x) and y == x) for y in out):
                        out.append(x)
        return out

    # ------------------------------------------------------------------ decisions
    def _next_decision(self) -> bool:
        i = len(self.decisions)
        v = self.prefix[i] if i < len(self.prefix) else True
        self.decisions.append(v)
        return v

    def forced(self, atom: App) -> bool | None:
        """Value of an atom that follows from decisions already taken (axioms of the symbolic domain)."""
        if atom in self.path:
            return self.path[atom]
        if atom.fn == "in":
            x, s = atom.args
            t = self.path.get(App("truthy", (s,)))
            if t is False:
                return False
        if atom.fn == "truthy":
            (s,) = atom.args
            for a, v in self.path.items():
                if a.fn == "in" and a.args[1] == s and v:
                    return True
        if atom.fn.startswith("member@"):
            x = atom.args[1]
            if isinstance(x, App) and x.fn in ("elem", "key") and isinstance(x.args[0], App) and x.args[0].fn.startswith("open@") and x.args[0].args[0] == atom.args[0]:
                return True  # the element an iteration over the collection is looking at
            ep, ver = atom.fn[7:].split(".")
            for a, v in self.path.items():
                if v and a.fn.startswith("member@") and a.args == atom.args:
                    ep2, ver2 = a.fn[7:].split(".")
                    if ep2 == ep and int(ver2) <= int(ver):
                        return True  # it was a member, and nothing can have removed it since
        return None

    def structural_decision(self, kind: str, site: str) -> bool:
        """Decision that is not about a condition of the program: explore the body of a loop / a call separately (True) or skip it."""
        v = self._next_decision()
        self.trace.append((App(kind, (site,)), v))
        return v

    def decide(self, atom: App) -> bool:
        self.n_asked += 1
        v = self.forced(atom)
        if v is None:
            v = self._next_decision()
            self.trace.append((atom, v))
        self.path[atom] = v
        return v

    def new_sym(self, hint: str, kind: str = "") -> Sym:
        self.fresh += 1
        return Sym(f"{hint}#{self.fresh}", kind)

    # ------------------------------------------------------------------ truth / comparison
    def truth(self, v: Any) -> bool:
        if isinstance(v, (bool, int, float, str, bytes, type(None), tuple, list, dict, set, frozenset)):
            if isinstance(v, (list, dict, set)) and not v and self.opened(v) is not None:
                return self.decide(App("truthy", (self.opened(v).src,)))
            return bool(v)
        if isinstance(v, Sym):
            k = v.kind
            if k == "str":
                return True
            if k == "optstr":
                return not self.decide(App("isnone", (v,)))
            if k == "nat":
                return not self.decide(App("eq", (v, 0)))
            return self.decide(App("truthy", (v,)))
        if isinstance(v, Cat):
            if any(isinstance(p, str) and p for p in v.parts) or any(isinstance(p, Sym) and p.kind == "str" for p in v.parts):
                return True
            return self.decide(App("truthy", (v,)))
        if isinstance(v, App):
            if v.fn in ("in", "eq", "isnone", "truthy", "isinstance") or v.fn.startswith(("hasnode@", "hasedge@", "meth:", "ext:", "callval", "call:")):
                return self.decide(v)
            return self.decide(App("truthy", (v,)))
        if isinstance(v, (Inst, ANode, FuncVal, ClassVal, ExtRef, Partial, Closure, BoundBuiltin)):
            if isinstance(v, Inst):
                for name in ("__bool__", "__len__"):
                    m = self.repo.lookup_method(v.ci, name)
                    if m is not None:
                        return self.truth(self.call_function(m, [v], {}))
            return True
        if isinstance(v, ExtObj) and v.concrete:
            return bool(v.cnodes)
        if isinstance(v, ExtView) and v.obj.concrete:
            return bool(self.view_native(v))
        if isinstance(v, ExtObj):
            return self.decide(App(f"nonempty@{v.version}", (v.name,)))
        if isinstance(v, ExtView):
            return self.decide(App(f"nonempty@{v.obj.version}", (v.obj.name, v.kind, _h(v.key))))
        if isinstance(v, Seq):
            if v.items():
                return True
            return self.decide(App("truthy", (_h(v),)))
        raise Unsupported(f"truth value of {type(v).__name__}")

    def is_none(self, v: Any) -> bool:
        if v is None:
            return True
        if isinstance(v, Sym):
            if v.kind in ("optstr", "optint", ""):
                return self.decide(App("isnone", (v,)))
            return False
        if isinstance(v, App):
            if v.fn.startswith(("edgedata@",)):
                return False
            return self.decide(App("isnone", (v,)))
        return False

    def equal(self, a: Any, b: Any) -> bool:
        if a is b:
            return True
        if isinstance(a, Term) or isinstance(b, Term):
            if a == b:
                return True
            if a is None or b is None:
                return self.is_none(b if a is None else a)
            for x, y in ((a, b), (b, a)):
                if isinstance(x, Sym) and x.kind == "nat" and isinstance(y, int) and not isinstance(y, bool):
                    if y < 0:
                        return False
                if isinstance(x, Sym) and x.kind in ("str", "optstr", "anystr") and not isinstance(y, (str, Term, type(None))):
                    return False
            k = sorted([a, b], key=lambda t: (not isinstance(t, Term), show(t)))
            return self.decide(App("eq", (k[0], k[1])))
        if isinstance(a, (list, tuple)) and isinstance(b, (list, tuple)) and type(a) is type(b):
            if len(a) != len(b):
                return False
            return all(self.equal(x, y) for x, y in zip(a, b))
        if is_native(a) and is_native(b):
            return a == b
        if isinstance(a, (Inst, ANode, ExtObj, FuncVal, ClassVal)) or isinstance(b, (Inst, ANode, ExtObj, FuncVal, ClassVal)):
            ta, tb = (tuple(x.fields[n] for n in x.args[1:]) if isinstance(x, Inst) and x.args[:1] == ("namedtuple",) else x for x in (a, b))
            if (ta is not a or tb is not b) and isinstance(ta, tuple) and isinstance(tb, tuple):
                return self.equal(ta, tb)  # NamedTuple records are tuples: compared by value, also with plain tuples
            if isinstance(a, Inst) and isinstance(b, Inst) and a.ci is b.ci and self.repo.lookup_method(a.ci, "__eq__") is None and dataclass_eq(a.ci):
                return all(self.equal(a.fields.get(k), b.fields.get(k)) for k in a.fields)
            for x, y in ((a, b), (b, a)):
                if isinstance(x, Inst) and self.repo.lookup_method(x.ci, "__eq__") is not None:
                    r = self.call_function(self.repo.lookup_method(x.ci, "__eq__"), [x, y], {})
                    if r is not NotImplemented:
                        return self.truth(r)
            if isinstance(a, ClassVal) and isinstance(b, ClassVal):
                return a.ci is b.ci
            return False
        if isinstance(a, ExtRef) and isinstance(b, ExtRef):
            return a == b
        try:
            return a == b
        except Exception:  # noqa: BLE001
            raise Unsupported(f"equality of {type(a).__name__} and {type(b).__name__}")

    def contains(self, container: Any, x: Any) -> bool:
        o = self.opened(container) if isinstance(container, (list, dict, set)) else None
        if isinstance(container, (list, tuple, set, frozenset)):
            items = list(container)
            if isinstance(container, (set, frozenset)) and is_native(x) and all(is_native(i) for i in items):
                if x in container or o is None:
                    return x in container
            for i in items:
                if i is x or (isinstance(i, Term) and i == x):
                    return True
            if o is not None:
                return self.decide(self.member_atom(o, x))  # one decision: whether x equals a known item or an unknown one makes no difference
            for i in items:
                if self.equal(i, x):
                    return True
            return self.decide(self.member_atom(o, x)) if o is not None else False
        if isinstance(container, dict):
            if self.dict_key(container, x if not isinstance(x, list) else tuple(x)) is not _MISSING_KEY:
                return True
            return self.decide(self.member_atom(o, x)) if o is not None else False
        if isinstance(container, Seq):
            for i in container.items():
                if i is x or (isinstance(i, Term) and i == x):
                    return True
            if container.concrete:
                return self.contains(container.items(), x)
            return self.decide(App("in", (_h(x), _h(container))))
        if isinstance(container, str):
            if isinstance(x, str):
                return x in container
            return self.decide(App("in", (x, container)))
        if isinstance(container, ExtObj) and container.concrete:
            return self.contains(container.cnodes, x)
        if isinstance(container, ExtView) and container.obj.concrete:
            return self.contains(self.view_native(container), x)
        if isinstance(container, ExtObj):
            return self.decide(App(f"hasnode@{container.version}", (container.name, _h(x))))
        if isinstance(container, ExtView):
            o, v = container.obj, container.obj.version
            if container.kind in ("nodes", "adj", "pred"):
                return self.decide(App(f"hasnode@{v}", (o.name, _h(x))))
            if container.kind == "edges":
                if isinstance(x, tuple) and len(x) >= 2:
                    return self.decide(App(f"hasedge@{v}", (o.name, _h(x[0]), _h(x[1]))))
                raise Unsupported("membership of a symbolic value in an edge view")
            a, b = (container.key, x) if container.kind == "adj1" else (x, container.key)
            return self.decide(App(f"hasedge@{v}", (o.name, _h(a), _h(b))))
        if isinstance(container, Term):
            return self.decide(App("in", (x, container)))
        if isinstance(container, Inst):
            m = self.repo.lookup_method(container.ci, "__contains__")
            if m is not None:
                return self.truth(self.call_function(m, [container, x], {}))
        raise Unsupported(f"membership test in {type(container).__name__}")

    def compare(self, op: ast.cmpop, a: Any, b: Any) -> bool:
        if isinstance(op, ast.Eq):
            return self.equal(a, b)
        if isinstance(op, ast.NotEq):
            return not self.equal(a, b)
        if isinstance(op, ast.Is):
            if a is None or b is None:
                return self.is_none(b if a is None else a)
            if isinstance(a, (bool,)) or isinstance(b, bool):
                return self.equal(a, b)
            if isinstance(a, type) or isinstance(b, type):
                return a is b
            if isinstance(a, ClassVal) and isinstance(b, ClassVal):
                return a.ci is b.ci
            if isinstance(a, Term) or isinstance(b, Term):
                return self.equal(a, b)
            return a is b
        if isinstance(op, ast.IsNot):
            return not self.compare(ast.Is(), a, b)
        if isinstance(op, ast.In):
            return self.contains(b, a)
        if isinstance(op, ast.NotIn):
            return not self.contains(b, a)
        # subset tests against the node / edge set of an abstract graph: membership of every element
        for small, big, o in ((a, b, op), (b, a, _flip(op))):
            if isinstance(o, (ast.LtE, ast.Lt)) and isinstance(small, (set, frozenset)) and isinstance(big, (ExtObj, ExtView)):
                return all([self.contains(big, x) for x in sorted(small, key=show)])
        # ordering
        if is_native(a) and is_native(b):
            try:
                if isinstance(op, ast.Lt):
                    return a < b
                if isinstance(op, ast.LtE):
                    return a <= b
                if isinstance(op, ast.Gt):
                    return a > b
                if isinstance(op, ast.GtE):
                    return a >= b
            except TypeError:
                raise Raised(None, "TypeError")
        # natural numbers against 0 / 1
        for x, y, o in ((a, b, op), (b, a, _flip(op))):
            if isinstance(x, Sym) and x.kind == "nat" and isinstance(y, int) and not isinstance(y, bool):
                zero = App("eq", (x, 0))
                if isinstance(o, ast.Gt) and y == 0 or isinstance(o, ast.GtE) and y == 1:
                    return not self.decide(zero)
                if isinstance(o, ast.Lt) and y == 1 or isinstance(o, ast.LtE) and y == 0:
                    return self.decide(zero)
                if isinstance(o, ast.GtE) and y <= 0 or isinstance(o, ast.Gt) and y < 0:
                    return True
                if isinstance(o, ast.Lt) and y <= 0 or isinstance(o, ast.LtE) and y < 0:
                    return False
        name = {ast.Lt: "lt", ast.LtE: "le", ast.Gt: "gt", ast.GtE: "ge"}[type(op)]
        if name in ("gt", "ge"):
            a, b, name = b, a, {"gt": "lt", "ge": "le"}[name]
        return self.decide(App(name, (_h(a), _h(b))))


def _flip(op: ast.cmpop) -> ast.cmpop:
    return {ast.Lt: ast.Gt, ast.LtE: ast.GtE, ast.Gt: ast.Lt, ast.GtE: ast.LtE}.get(type(op), type(op))()


def _h(v: Any) -> Any:
    """Hashable stand-in of a value inside a term."""
    if isinstance(v, list):
        return tuple(_h(x) for x in v)
    if isinstance(v, tuple):
        return tuple(_h(x) for x in v)
    if isinstance(v, (set, frozenset)):
        return ("set", tuple(sorted((_h(x) for x in v), key=show)))
    if isinstance(v, dict):
        return ("dict", tuple((_h(k), _h(x)) for k, x in v.items()))
    if isinstance(v, Seq):
        return ("seq", tuple(("item", _h(p[1])) if p[0] == "item" else ("rep", tuple(_h(x) for x in p[1]), _h(p[2])) for p in v.parts))
    if isinstance(v, ExtObj):
        return v.name
    if isinstance(v, ExtView):
        return ("view", v.obj.name, v.kind, _h(v.key), v.obj.version)
    if isinstance(v, (Inst, ANode, FuncVal, ClassVal, Partial, Closure, BoundBuiltin)):
        return ("obj", id(v), show(v))
    return v
