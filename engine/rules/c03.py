"""C03 - violation reports name exactly the offending imports and missing imports.

  C03.R1  worklist closure of the 'something else' searches: nothing outside the subject's subtree / the excluded objects is examined
  C03.R2  single re-orientation into user subject/object order on every path from a query result to a bucket
  C03.R3  nothing dropped: every bucket is rendered, every pair gets a line, de-duplication by full text, sorted
  C03.R4  missing-import lines group by subject and list all objects
  C03.R5  the query result stored for one key depends on that key only (no state shared between the searches of one batch)
"""

from __future__ import annotations

import ast

from core.flow import Flow, Spec
from core.guards import atom, conds_formula, f_not, f_or, implies, to_formula
from core.loader import AnalysisError, FuncInfo, Repo, calls_in, header, norm, own_nodes, parent
from core.report import Result

from . import search as S
from .common import conds, dotted, guard_formula, is_attr_call, loops_around, reachable_funcs, stmt_of, types_of, where
from .tables import DETECTOR, LAYER_DETECTOR, VIOLATIONS, Inliner, bucket_wiring

MSG = "pytestarch.rule_assessment.error_message.message_generator"


def run_r1(repo: Repo, res: Result, rule_id: str = "C03.R1") -> None:
    n = 0
    for m in S.models(repo):
        if m.role != "other":
            continue
        fi = m.fi
        subj = fi.param_names[1] if m.direction == "succ" else fi.param_names[2]
        own = [v for v, p in m.submodule_sets.items() if p == subj]
        exc = list(m.accumulated_sets)
        if not own or not exc:
            raise AnalysisError(f"{fi.fq}: own-subtree / excluded sets not recognised")
        pushes = [e for e in m.events if e.kind == "push"]
        for e in pushes:
            n += 1
            goal = f_or([atom(f"{e.what} in {own[0]}"), atom(f"{e.what} in {exc[0]}")])
            ok = implies(e.guard, goal)
            res.add(
                rule_id,
                repo.key(fi, stmt_of(e.call)) + " [push stays inside subject or excluded objects]",
                ok,
                "pushed node is inside the subject's subtree or an excluded object (skipped when popped)" if ok else f"`{e.what}` is pushed under `{e.guard_text}`, which does not imply `{e.what} in {own[0]} or {e.what} in {exc[0]}`: modules unrelated to the rule's subject are expanded and their imports reported",
                where(fi, e.call),
                kind="dominance",
            )
        # worklist is initialised from the subject's subtree only
        inits = [s_ for s_ in own_nodes(fi.node) if isinstance(s_, ast.Assign) and dotted(s_.targets[0]) == m.worklist]
        for s_ in inits:
            n += 1
            src = s_.value.args[0] if isinstance(s_.value, ast.Call) and s_.value.args else s_.value
            ok = dotted(src) in own
            res.add(rule_id, repo.key(fi, s_) + " [worklist start]", ok, f"worklist starts from {S.SUBMODULES}(graph, {subj})" if ok else f"worklist starts from `{norm(s_.value)}`, not from the subject's subtree", where(fi, s_), kind="structural")
        # popped nodes that belong to the excluded set are skipped before expansion
        if pushes:
            n += 1
            ok = implies(guard_formula(fi, m.neighbour_call), f_not(atom(f"{m.popped} in {exc[0]}")))
            res.add(rule_id, f"{fi.relpath}::{fi.qualname}::excluded nodes are not expanded", ok, "popped nodes in the excluded set are skipped" if ok else f"a popped node in `{exc[0]}` is expanded: imports of the rule's objects are reported as the subject's", where(fi, m.neighbour_call), kind="dominance")
        else:
            n += 1
            res.add(rule_id, f"{fi.relpath}::{fi.qualname}::no push", True, "the search never extends its worklist beyond the subject's subtree", where(fi, fi.node), nontrivial=False)
    res.floor(rule_id, 4, n)


def run_r2(repo: Repo, res: Result, inl: Inliner) -> None:
    T = inl.T
    base = repo.cls(DETECTOR, "RuleViolationBaseDetector")
    reorder = None
    for m in base.methods.values():
        rets = [s for s in own_nodes(m.node) if isinstance(s, ast.Return) and s.value is not None]
        if len(rets) == 2 and any(isinstance(r.value, ast.Tuple) and len(r.value.elts) == 2 and all(isinstance(x, ast.Subscript) for x in r.value.elts) for r in rets):
            reorder = m
    if reorder is None:
        raise AnalysisError("the function re-ordering a pair into user subject/object order was not found")
    p = reorder.param_names[1]
    ident = [s for s in own_nodes(reorder.node) if isinstance(s, ast.Return) and dotted(s.value) == p]
    swap = [s for s in own_nodes(reorder.node) if isinstance(s, ast.Return) and isinstance(s.value, ast.Tuple)]
    ok = len(ident) == 1 and len(swap) == 1
    if ok:
        idx = [x.slice.value if isinstance(x.slice, ast.Constant) else None for x in swap[0].value.elts]
        ok = idx == [1, 0] and all(dotted(x.value) == p for x in swap[0].value.elts)

        def subst(x: ast.expr):
            if isinstance(x, ast.Attribute) and x.attr == "rule_specified_with_importer_as_rule_subject":
                return atom("importer_is_subject")
            if isinstance(x, ast.Attribute) and x.attr == "rule_specified_with_importer_as_rule_object":
                return f_not(atom("importer_is_subject"))
            return None

        fi_ = conds_formula(conds(reorder, ident[0]), subst)
        fs_ = conds_formula(conds(reorder, swap[0]), subst)
        ok = ok and implies(fi_, atom("importer_is_subject")) and implies(fs_, f_not(atom("importer_is_subject"))) and "importer_is_subject" in str(fi_)
    res.add("C03.R2", f"{reorder.relpath}::{reorder.qualname}::swap iff be-imported-by", ok, "pair is exchanged exactly for be-imported-by rules" if ok else "the re-orientation does not exchange the pair exactly for be-imported-by rules", where(reorder, reorder.node), kind="decision-table")

    # every bucket method returns pairs that went through the re-orientation exactly once
    def transfer(f: FuncInfo, call: ast.Call, names, args, recv, kwargs):
        if reorder.fq in names and len(names) == 1:
            t = set(args[0]) if args else set()
            out = set()
            if "RAW" in t:
                out.add("ORDERED")
            if "ORDERED" in t or "TWICE" in t:
                out.add("TWICE")
            return out
        return None

    grv, buckets = bucket_wiring(repo, inl)
    n = 0
    for cls_mod, cls_name in ((DETECTOR, "RuleViolationDetector"), (LAYER_DETECTOR, "LayerRuleViolationDetector")):
        cls = repo.cls(cls_mod, cls_name)
        seeds = {}
        methods = []
        for b in buckets:
            m = repo.lookup_method(cls, b.method)
            if m is None or m.is_abstract:
                raise AnalysisError(f"{cls.fq}.{b.method}: no concrete implementation")
            methods.append((b, m))
            seeds[(m.fq, m.param_names[2])] = {"RAW"}
        flow = Flow(repo, T, Spec(transfer=transfer, param_seeds=seeds, objects_carry=False, scope=lambda f: f.module.name in (DETECTOR, LAYER_DETECTOR)))
        for b, m in methods:
            n += 1
            tags = set(flow.ret_tags.get(m.fq, ()))
            ok = tags == {"ORDERED"}
            why = "returned pairs pass the re-orientation exactly once"
            if not ok:
                why = (
                    f"{cls_name}.{b.method} ({b.field}) returns pairs that " + ("never pass" if "RAW" in tags and "ORDERED" not in tags else "do not all pass" if "RAW" in tags else "pass twice through" if "TWICE" in tags else "do not derive from the query result and")
                    + " the re-orientation into user subject/object order: the message names subject and object the wrong way round for be-imported-by rules"
                )
            res.add("C03.R2", f"{m.relpath}::{m.qualname}::orientation of {b.field}", ok, why, where(m, m.node), kind="flow")
    res.floor("C03.R2", 16, n)


def run_r3_r4(repo: Repo, res: Result) -> None:
    T = types_of(repo)
    viol = repo.cls(VIOLATIONS, "RuleViolations")
    fields = list(viol.ann_attrs)
    base = repo.cls(MSG, "RuleViolationMessageBaseGenerator")
    entry = base.methods.get("create_rule_violation_messages")
    collect = base.methods.get("_create_violation_messages")
    if entry is None or collect is None:
        raise AnalysisError("message generator entry points not found")
    abstract = sorted(n for n, m in base.methods.items() if m.is_abstract)
    called = {c.func.attr for c in calls_in(collect.node) if isinstance(c.func, ast.Attribute) and dotted(c.func.value) == "self"}
    for a in abstract:
        # the creator's result must reach the returned list (argument of an extend / _extend call)
        used = False
        for c in calls_in(collect.node):
            if isinstance(c.func, ast.Attribute) and c.func.attr == a:
                p = parent(c)
                used = isinstance(p, ast.Call) or isinstance(p, (ast.Assign, ast.AugAssign, ast.Return))
                if isinstance(p, ast.Expr):
                    used = False
        res.add("C03.R3", f"{collect.relpath}::{collect.qualname}::creator {a}", used, f"messages of {a} are collected" if used else f"the messages of {a} are never added to the report: a whole class of violations is silently missing from the message", where(collect, collect.node), kind="structural")
    for gen_name in ("RuleViolationMessageGenerator", "LayerRuleViolationMessageGenerator"):
        gen = repo.cls(MSG, gen_name)
        roots = [repo.lookup_method(gen, a) for a in abstract]
        reach = reachable_funcs(repo, [r for r in roots if r is not None], byname=False)
        read = set()
        for f in reach:
            for n in own_nodes(f.node):
                if isinstance(n, ast.Attribute) and n.attr in fields and isinstance(n.ctx, ast.Load):
                    read.add(n.attr)
        for fld in fields:
            res.add("C03.R3", f"{gen.module.relpath}::{gen_name}::field {fld} rendered", fld in read, f"{fld} is read by a message creator" if fld in read else f"bucket {fld} is never turned into message lines by {gen_name}", kind="structural")
    # entry: de-duplication by the full text, sorted
    sets_ = [s for s in own_nodes(entry.node) if isinstance(s, ast.Call) and is_attr_call(s, "add")]
    ok = False
    detail = "message text does not contain subject, verb and object"
    for c in sets_:
        if c.args and isinstance(c.args[0], ast.JoinedStr):
            attrs = {n.attr for n in ast.walk(c.args[0]) if isinstance(n, ast.Attribute)}
            if {"rule_subject", "rule_verb", "rule_object"} <= attrs:
                ok = True
                detail = "lines are de-duplicated by their full text (subject, verb, object)"
        lp = [l for l in loops_around(c, entry.node) if isinstance(l, ast.For)]
        if lp and any(isinstance(x, (ast.Break, ast.Continue)) for x in ast.walk(lp[0])) or (lp and conds(entry, c)):
            ok = False
            detail = "some messages are skipped before being added to the report"
    res.add("C03.R3", f"{entry.relpath}::{entry.qualname}::full-text lines", ok, detail, where(entry, entry.node), kind="structural")
    rets = [s for s in own_nodes(entry.node) if isinstance(s, ast.Return)]
    ok = len(rets) == 1 and isinstance(rets[0].value, ast.Call) and dotted(rets[0].value.func) == "sorted" and not any(isinstance(n, ast.Subscript) for n in ast.walk(rets[0].value))
    res.add("C03.R3", f"{entry.relpath}::{entry.qualname}::sorted, complete", ok, "all lines are returned, sorted" if ok else f"the report is `{norm(rets[0].value) if rets else '?'}`: not the complete sorted list of lines", where(entry, entry.node), kind="structural")
    # present-mode creator: one message per pair
    gen = repo.cls(MSG, "RuleViolationMessageGenerator")
    n = 0
    for m in gen.methods.values():
        params = m.param_names[1:]
        if len(params) != 1:
            continue
        ann = norm(m.params[1].annotation) if m.params[1].annotation is not None else ""
        if "Dependency" not in ann or not any(k in ann for k in ("Iterable", "list[", "set[", "Sequence", "Collection")):
            continue
        loops = [l for l in own_nodes(m.node) if isinstance(l, ast.For) and dotted(l.iter) == params[0]]
        for l in loops:
            n += 1
            bad = [x for x in ast.walk(l) if isinstance(x, (ast.Break, ast.Continue, ast.Return))]
            appends = [c for c in ast.walk(l) if is_attr_call(c, "append") or is_attr_call(c, "add")]
            guarded = [c for c in appends if len(conds(m, c)) > len(conds(m, l))]
            ok = bool(appends) and not bad and not guarded
            res.add("C03.R3", repo.key(m, l) + " [one line per pair]", ok, "every pair of the bucket yields a message" if ok else f"not every pair of `{params[0]}` yields a message ({'loop left early' if bad else 'append is conditional' if guarded else 'nothing appended'}): offending imports are missing from the report", where(m, l), kind="structural")
        sliced = [x for x in own_nodes(m.node) if isinstance(x, ast.Subscript) and dotted(x.value) == params[0]]
        if sliced:
            n += 1
            res.add("C03.R3", repo.key(m, stmt_of(sliced[0])) + " [whole bucket]", False, f"only `{norm(sliced[0])}` of the bucket is rendered", where(m, sliced[0]), kind="structural")
    res.floor("C03.R3.pairs", 1, n)
    # R4: absent-mode creators list all objects grouped under the subject
    k = 0
    for gen_name in ("RuleViolationMessageGenerator", "LayerRuleViolationMessageGenerator"):
        gen = repo.cls(MSG, gen_name)
        for m in gen.methods.values():
            grp = [c for c in calls_in(m.node) if isinstance(c.func, ast.Attribute) and c.func.attr.startswith("_get_violating_rule_subject")]
            if not grp or m.name.startswith("_get_violating"):
                continue
            st = stmt_of(grp[0])
            if not (isinstance(st, ast.Assign) and isinstance(st.targets[0], ast.Tuple) and len(st.targets[0].elts) == 2):
                raise AnalysisError(f"{m.fq}: grouping result not unpacked into (objects by subject, subjects)")
            by_subj, subjects = (dotted(x) for x in st.targets[0].elts)
            outer = [l for l in own_nodes(m.node) if isinstance(l, ast.For) and dotted(l.iter) == subjects]
            if len(outer) != 1:
                raise AnalysisError(f"{m.fq}: loop over the violating subjects not found")
            sv = dotted(outer[0].target)
            inner = [l for l in ast.walk(outer[0]) if isinstance(l, ast.For) and by_subj in norm(l.iter) and sv in norm(l.iter)]
            k += 1
            ok = len(inner) == 1 and not any(isinstance(x, (ast.Break, ast.Continue)) for x in ast.walk(outer[0])) and not any(isinstance(n, ast.Subscript) and isinstance(n.slice, ast.Slice) for n in ast.walk(inner[0].iter)) if inner else False
            if ok:
                app = [c for c in ast.walk(inner[0]) if is_attr_call(c, "append")]
                ok = bool(app) and all(len(conds(m, c)) == len(conds(m, inner[0])) for c in app)
            res.add("C03.R4", repo.key(m, outer[0]) + " [all objects per subject]", ok, "each missing-import line names one subject and all objects grouped under it" if ok else "a missing-import line does not list exactly the objects grouped under its subject", where(m, outer[0]), kind="structural")
    res.floor("C03.R4", 4, k)
    # grouping function: keyed by subject, every pair appended
    for gen_name, fn in (("RuleViolationMessageGenerator", "_get_violating_rule_subjects_and_objects"), ("LayerRuleViolationMessageGenerator", "_get_violating_rule_subject_and_objects_layers")):
        m = repo.cls(MSG, gen_name).methods.get(fn)
        if m is None:
            raise AnalysisError(f"{gen_name}.{fn} not found")
        loops = [l for l in own_nodes(m.node) if isinstance(l, ast.For) and dotted(l.iter) == m.param_names[1]]
        ok = len(loops) == 1 and not any(isinstance(x, (ast.Break, ast.Continue, ast.If)) for x in ast.walk(loops[0]))
        res.add("C03.R4", f"{m.relpath}::{m.qualname}::grouping is total", ok, "every (subject, object) pair is grouped" if ok else "some pairs are skipped while grouping objects by subject", where(m, m.node), kind="structural")


def run(repo: Repo) -> Result:
    res = Result("C03")
    res.explanation = (
        "Decides four necessary conditions of exact reports: (R1) the 'something else' searches never expand a module outside the subject's "
        "subtree and the excluded objects, so no import unrelated to the subject can be recorded; (R2) every pair reaching a violation bucket "
        "passes the re-orientation into user subject/object order exactly once and that function exchanges exactly for be-imported-by rules; "
        "(R3) every bucket is rendered by both message generators, each pair yields a line, lines are de-duplicated by full text and sorted; "
        "(R4) missing-import lines group by subject and list all grouped objects."
    )
    res.not_decided = "equality of the rendered set with a reference violating set on every graph (needs the values the searches compute)."
    res.trusted_base = ["engine search model (rules/search.py), flow analysis and guard implication"]
    inl = Inliner(repo)
    run_r1(repo, res)
    run_r2(repo, res, inl)
    run_r3_r4(repo, res)
    # R5: the result stored for one (subject, object) key depends on that key only - otherwise a 'does not import' line can be
    # produced for a subject whose import was credited to another key of the same batch
    from . import c11

    tmp = Result("C11")
    c11.run_r4(repo, tmp)
    for o in tmp.obligations:
        res.add("C03.R5", o.construct, o.ok, o.detail, o.where, o.nontrivial, o.kind)
    res.floor("C03.R5", 12, len(tmp.obligations))
    return res
