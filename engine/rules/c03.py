"""C03 - violation reports name exactly the offending imports and missing imports.

  C03.R1  worklist closure of the 'something else' searches: nothing outside the subject's subtree / the excluded objects is examined
  C03.R2  every pair that reaches a RuleViolations bucket is in user (subject, object) order, for import and for be-imported-by rules
  C03.R3  nothing dropped: the module-rule detector forwards every pair of the query results, every bucket is rendered, every pair
          gets a line, a line is the full text (subject, verb, object)
  C03.R4  missing-import lines list, for one subject, all objects grouped under it - and only objects that were paired with it
  C03.R5  the query result stored for one key depends on that key only (no state shared between the searches of one batch)
  C03.R6  everything a match() derives from the evaluable is recomputed in that call before it is used (no stale module lists)

R2 - R6 are decided by abstract interpretation (rules/c03_absint.py) of public entry points on every concrete class

    RuleViolationBaseDetector.<public method returning RuleViolations>(explicit, other)         R2, R3 (detector part)
    RuleViolationMessageBaseGenerator.<public methods turning RuleViolations into text>(...)    R3, R4
    EvaluableArchitecture.<queries returning a dict> on the implementing class                  R5
    RuleMatcher.<public method taking an EvaluableArchitecture>, applied twice to one matcher   R6

with abstract inputs built from the parameter annotations, once for import rules and once for be-imported-by rules.  Private helper
names, the number of helpers, loops vs comprehensions, callbacks, early returns and local variable names play no role.  A construct the
interpreter does not model yields `undecided` (exit 2), never a pass and never a VIOLATION; VIOLATIONs rest on positive evidence
(a pair with exchanged roles, a data-dependent condition / slice / early exit on the way, subject and object content of different
pairs combined, a field left over from the first application being read).
"""

from __future__ import annotations

import ast

from core.guards import atom, f_not, f_or, implies
from core.loader import AnalysisError, ClassInfo, FuncInfo, Repo, norm, own_nodes
from core.report import Result
from core.types import NONE, members

from . import search as S
from .searchrules import start_filters, unresolved_subtree_sets
from .c03_absint import Const, E, Interp, Opaque, Ref, Sc, Top, Tup, V
from .common import guard_formula, helper_object_sources, stmt_of, types_of, where
# anchors: modules and classes that other modules of pytestarch import by these names (nothing private)
DETECTOR = "pytestarch.rule_assessment.rule_check.rule_violation_detector"  # RuleViolationBaseDetector
MATCHER = "pytestarch.rule_assessment.rule_check.rule_matcher"  # RuleMatcher
MODREQ = "pytestarch.rule_assessment.rule_check.module_requirement"  # ModuleRequirement
VIOLATIONS = "pytestarch.rule_assessment.rule_check.rule_violations"  # RuleViolations
SEARCHES = "pytestarch.eval_structure.breadth_first_searches"  # the public graph searches
MSG = "pytestarch.rule_assessment.error_message.message_generator"  # RuleViolationMessageBaseGenerator
EVAL_ARCH = "pytestarch.eval_structure.evaluable_architecture"  # EvaluableArchitecture (protocol), type aliases of the query results
BOOL = ("b", "bool", ())
ROLE_S = frozenset({"S"})
ROLE_O = frozenset({"O"})


# --------------------------------------------------------------------------- R1


def run_r1(repo: Repo, res: Result, rule_id: str = "C03.R1") -> None:
    n = 0
    try:
        ms = S.models(repo)
    except AnalysisError as e:
        if rule_id != "C03.R1":
            raise  # C12.MONO reports the search model's failure itself
        # a search shape the model cannot read must not hide the verdicts of R2-R6
        res.undecide(rule_id, "pytestarch/eval_structure/breadth_first_searches.py", f"search model: {e}")
        return
    for m in ms:
        if m.role != "other":
            continue
        fi = m.fi
        subj = fi.param_names[1] if m.direction == "succ" else fi.param_names[2]
        own = [v for v, p in m.submodule_sets.items() if p == subj]
        exc = list(m.accumulated_sets)
        if not own or not exc:
            res.undecide(rule_id, f"{fi.relpath}::{getattr(fi, 'shown', fi.qualname)}::subject subtree / excluded set", f"the set holding the subject's subtree ({own or 'not found'}) or the set of excluded objects ({exc or 'not found'}) was not recognised", where(fi, fi.node))
            continue
        pushes = [e for e in m.events if e.kind == "push"]
        for e in pushes:
            n += 1
            goal = f_or([atom(f"{e.what} in {o}") for o in own] + [atom(f"{e.what} in {x}") for x in exc])
            ok = implies(e.guard, goal)
            unresolved = [] if ok else unresolved_subtree_sets(m, e.guard, [e.what])
            if unresolved:
                res.undecide(rule_id, repo.key(fi, stmt_of(e.call)) + " [push stays inside subject or excluded objects]", f"`{e.what}` is pushed under `{e.guard_text}`: `{unresolved[0]}` is computed from sub-tree lookups in a way the model cannot relate to `{own[0]}` / `{exc[0]}`", where(fi, e.call))
                continue
            res.add(
                rule_id,
                repo.key(fi, stmt_of(e.call)) + " [push stays inside subject or excluded objects]",
                ok,
                "pushed node is inside the subject's subtree or an excluded object (skipped when popped)" if ok else f"`{e.what}` is pushed under `{e.guard_text}`, which does not imply `{e.what} in {own[0]} or {e.what} in {exc[0]}`: modules unrelated to the rule's subject are expanded and their imports reported",
                where(fi, e.call),
                kind="dominance",
            )
        # worklist is initialised from the subject's subtree only
        sources = getattr(m, "worklist_sources", None)
        if sources is not None:
            n += 1
            ok = bool(sources) and all(s in own for s in sources)
            # a start list that is a filtered copy of the sub-tree: every node that has to be examined must pass the filter
            bad_filter = next((f_ for f_ in start_filters(m, subj, own) if f_[1] != "ok"), None) if ok else None
            if bad_filter is not None and bad_filter[1] == "undecided":
                res.undecide(rule_id, f"{fi.relpath}::{getattr(fi, 'shown', fi.qualname)}::worklist start", bad_filter[2], where(fi, m.loop))
            elif bad_filter is not None:
                res.add(rule_id, f"{fi.relpath}::{getattr(fi, 'shown', fi.qualname)}::worklist start", False, bad_filter[2], where(fi, m.loop), kind="structural")
            elif not ok and helper_object_sources(fi, sources):
                res.undecide(rule_id, f"{fi.relpath}::{getattr(fi, 'shown', fi.qualname)}::worklist start", f"the worklist is owned by a helper object `{helper_object_sources(fi, sources)[0]}` of a class defined in this module; the search model does not read that class, so where the traversal starts is not decided", where(fi, m.loop))
            else:
                res.add(rule_id, f"{fi.relpath}::{getattr(fi, 'shown', fi.qualname)}::worklist start", ok, f"worklist starts from {S.SUBMODULES}(graph, {subj})" if ok else f"worklist starts from `{', '.join(sources) or '?'}`, not only from the subject's subtree", where(fi, m.loop), kind="structural")
        else:
            inits = [s_ for s_ in own_nodes(fi.node) if isinstance(s_, ast.Assign) and isinstance(s_.targets[0], ast.Name) and s_.targets[0].id == m.worklist]
            for s_ in inits:
                n += 1
                src = s_.value.args[0] if isinstance(s_.value, ast.Call) and s_.value.args else s_.value
                ok = isinstance(src, ast.Name) and src.id in own
                res.add(rule_id, repo.key(fi, s_) + " [worklist start]", ok, f"worklist starts from {S.SUBMODULES}(graph, {subj})" if ok else f"worklist starts from `{norm(s_.value)}`, not from the subject's subtree", where(fi, s_), kind="structural")
        # popped nodes that belong to the excluded set are skipped before expansion
        if pushes:
            n += 1
            in_own = [atom(f"{m.popped} in {o}") for o in own]  # a module of the subject is expanded even when it lies inside an excepted object (D21)
            ok = all(all(implies(m.guard_of(c), f_or([f_not(atom(f"{m.popped} in {x}")), *in_own])) for c in (m.neighbour_calls or [m.neighbour_call])) for x in exc)
            unresolved = [] if ok else [x for c in (m.neighbour_calls or [m.neighbour_call]) for x in unresolved_subtree_sets(m, m.guard_of(c), [m.popped])]
            if unresolved:
                res.undecide(rule_id, f"{fi.relpath}::{getattr(fi, 'shown', fi.qualname)}::excluded nodes are not expanded", f"the expansion of `{m.popped}` is guarded by a test of `{unresolved[0]}`, which is computed from sub-tree lookups in a way the model cannot relate to `{exc[0]}`", where(fi, m.neighbour_call))
                continue
            res.add(rule_id, f"{fi.relpath}::{getattr(fi, 'shown', fi.qualname)}::excluded nodes are not expanded", ok, "popped nodes in the excluded set are skipped (unless they belong to the subject itself)" if ok else f"a popped node in `{exc[0]}` is expanded: imports of the rule's objects are reported as the subject's", where(fi, m.neighbour_call), kind="dominance")
        else:
            n += 1
            res.add(rule_id, f"{fi.relpath}::{getattr(fi, 'shown', fi.qualname)}::no push", True, "the search never extends its worklist beyond the subject's subtree", where(fi, fi.node), nontrivial=False)
    if not any(u["rule"] == rule_id for u in res.undecided):  # an undecided search already says why fewer obligations were formed
        res.floor(rule_id, 4, n)


# --------------------------------------------------------------------------- shared: classes and entry points


def _concrete_classes(repo: Repo, base: ClassInfo) -> list[ClassInfo]:
    out = []
    for c in [base, *repo.subclasses(base)]:
        names = {n for k in repo.mro(c) for n, m in k.methods.items() if m.is_abstract}
        if all(not _abstract_on(repo, c, n) for n in names):
            out.append(c)
    return out


def _abstract_on(repo: Repo, c: ClassInfo, name: str) -> bool:
    """Is `name` still abstract on class c?  A method definition or a class level assignment (`name = partialmethod(...)`, an
    alias of another method) earlier in the method resolution order implements it."""
    for k in repo.mro(c):
        if name in k.methods:
            return k.methods[name].is_abstract
        if name in k.class_attrs:
            return False
    return False


def _ann(T, fi: FuncInfo, p: ast.arg):
    return T.ann(fi.module, p.annotation)


def _mentions_class(t, fq: str) -> bool:
    return any(m == ("cls", fq) for m in members(t))


def _public(repo: Repo, m: FuncInfo) -> bool:
    return not m.name.startswith("_")


def _returns_text(T, m: FuncInfo) -> bool:
    """Return annotation is str / a collection of str (or absent)."""
    if m.node.returns is None:
        return True

    def texty(t) -> bool:
        for x in members(t):
            if x == ("b", "str", ()):
                return True
            if x[0] == "b" and x[1] in ("list", "set", "seq", "iter", "frozenset", "tuple") and x[2] and any(texty(a) for a in x[2]):
                return True
        return False

    return texty(T.ann(m.module, m.node.returns))


# --------------------------------------------------------------------------- R2


def _value_of_type(it: Interp, t, roles: dict, key, pos: str = "key", src: str = ""):
    """Abstract value of a query result, built from its annotation: dict[tuple[Module, Module], list[tuple[Module, Module]]] etc."""
    out = set()
    for m in members(t):
        if m == NONE:
            out.add(Const(None))
        elif m[0] == "b" and m[1] == "dict" and len(m[2]) == 2:
            r = it.dict_((key, "dict"), "query result")
            it.store_entry(r, _value_of_type(it, m[2][0], roles, (key, "k"), "key", src), _value_of_type(it, m[2][1], roles, (key, "v"), "val", src))
            out.add(r)
        elif m[0] == "b" and m[1] in ("list", "set", "seq", "iter", "frozenset") and m[2]:
            out.add(it.coll((key, "coll"), "query result", _value_of_type(it, m[2][0], roles, (key, "e"), "elem", src)))
        elif m[0] == "b" and m[1] == "tuple" and len(m[2]) == 2:
            out.add(Tup((_value_of_type(it, m[2][0], roles, (key, 0), "importer", src), _value_of_type(it, m[2][1], roles, (key, 1), "importee", src)), "query result (importer, importee)"))
        elif m[0] == "cls" and pos in roles:
            out.add(Sc(roles=frozenset({roles[pos]}), srcs=frozenset({src} if src else ())))
        else:
            out.add(Opaque(f"{pos}"))
    return frozenset(out)


def _pair_verdict(it: Interp, elem) -> str:
    """good | swapped | unknown for one abstract element of a bucket."""
    if isinstance(elem, Ref) and elem.kind == "obj" and it.is_namedtuple(it.cell(elem).ci) and len(it.record_fields(it.cell(elem).ci)) == 2:
        # a two-field NamedTuple is a pair
        c = it.cell(elem)
        elem = Tup(tuple(frozenset(c.fields.get(n, E)) for n in it.record_fields(c.ci)), c.site)
    if not isinstance(elem, Tup) or len(elem.items) != 2:
        return "unknown"
    a = {s.roles for s in it.scalars(elem.items[0])}
    b = {s.roles for s in it.scalars(elem.items[1])}
    if a == {ROLE_S} and b == {ROLE_O}:
        return "good"
    if a == {ROLE_O} and b == {ROLE_S}:
        return "swapped"
    return "unknown"


def run_r2(repo: Repo, res: Result) -> None:
    T = types_of(repo)
    base = repo.cls(DETECTOR, "RuleViolationBaseDetector")
    viol = repo.cls(VIOLATIONS, "RuleViolations")
    modreq = repo.cls(MODREQ, "ModuleRequirement")
    fields = list(viol.ann_attrs)
    classes = _concrete_classes(repo, base)
    if not classes:
        raise AnalysisError("no concrete subclass of RuleViolationBaseDetector found")
    n = 0
    for cls in classes:
        entries = [m for k in repo.mro(cls) for m in k.methods.values() if _public(repo, m) and not m.is_abstract and m.node.returns is not None and _mentions_class(T.ann(m.module, m.node.returns), viol.fq)]
        entries = [m for m in entries if repo.lookup_method(cls, m.name) is m]
        if not entries:
            # no return annotation: the public method that constructs the RuleViolations object
            for k in repo.mro(cls):
                for m in k.methods.values():
                    if _public(repo, m) and not m.is_abstract and repo.lookup_method(cls, m.name) is m and any(isinstance(c, ast.Call) and (ci := T.ctor_class(m, c)) is not None and ci.fq == viol.fq for c in own_nodes(m.node)):
                        entries.append(m)
        if not entries:
            raise AnalysisError(f"{cls.fq}: no public method returning RuleViolations found")
        for entry in entries:
            verdicts: dict[str, dict[str, list]] = {f: {"good": [], "swapped": [], "unknown": []} for f in fields}
            dropped: dict[str, set] = {f: set() for f in fields}
            lost_track: list[str] = []
            init = repo.lookup_method(cls, "__init__")
            filters_by_design = init is not None and any(any(m[0] == "cls" and m[1].rsplit(".", 1)[-1] == "LayerMapping" for m in members(_ann(T, init, p))) for p in init.params[1:])
            for world in (True, False):
                it = Interp(repo)
                kind = "import" if world else "be-imported-by"

                def make_modreq(it=it, world=world):
                    counter = {"n": 0}

                    def mr_arg(p: ast.arg, init: FuncInfo):
                        if _ann(T, init, p) == BOOL:
                            return V(Const(world))
                        counter["n"] += 1
                        # ModuleRequirement(rule subjects, rule objects, importer is rule subject)
                        role = ROLE_S if counter["n"] == 1 else ROLE_O
                        return V(it.coll(("input", "modreq", p.arg), "rule configuration", V(Sc(roles=role))))

                    return it.instantiate(modreq, mr_arg, f"modreq-{world}")

                def det_arg(p: ast.arg, init: FuncInfo, world=world, make_modreq=make_modreq):
                    t = _ann(T, init, p)
                    if _mentions_class(t, modreq.fq):
                        return make_modreq()
                    if t == BOOL:
                        return V(Const(world))
                    return V(Opaque(p.arg))

                det = it.instantiate(cls, det_arg, f"det-{world}")
                roles = {"importer": "S" if world else "O", "importee": "O" if world else "S", "key": "S"}
                args = []
                arch = repo.module(EVAL_ARCH)
                for i, p in enumerate(entry.params[1:]):
                    t = _ann(T, entry, p)
                    v = _value_of_type(it, t, roles, ("input", p.arg), src=p.arg)
                    if not any(isinstance(sh, Ref) and sh.kind == "dict" for sh in v):
                        # not annotated: (explicitly requested, not explicitly requested) by position, shapes from the public type aliases
                        alias = ("ExplicitlyRequestedDependenciesByBaseModules", "NotExplicitlyRequestedDependenciesByBaseModule")[i] if i < 2 else None
                        if alias is not None and alias in arch.constants:
                            v = _value_of_type(it, T.ann(arch, arch.constants[alias]), roles, ("input", p.arg), src=p.arg) | V(Const(None))
                    if not any(isinstance(sh, Ref) and sh.kind == "dict" for sh in v):
                        raise AnalysisError(f"{entry.fq}: parameter `{p.arg}` is not annotated with a query result type (dict of dependencies)")
                    args.append(v)
                try:
                    rv = it.call_method(det, entry.name, args, f"run-{world}")
                except (RuntimeError, RecursionError, KeyError, AttributeError, TypeError, IndexError, ValueError) as e:
                    raise AnalysisError(f"{entry.fq}: abstract interpretation failed ({type(e).__name__}: {e})") from e
                lost_track += [t for t in it.tops if t not in lost_track]
                objs = [sh for sh in rv if isinstance(sh, Ref) and sh.kind == "obj" and it.cell(sh).ci is not None and it.cell(sh).ci.fq == viol.fq]
                if not objs:
                    n += len(fields)
                    res.undecide("C03.R2", f"{entry.relpath}::{cls.name}.{entry.name}::result", f"the abstract evaluation did not produce a RuleViolations object ({'; '.join(it.tops[:2]) or 'no value'})", where(entry, entry.node))
                    continue
                for o in objs:
                    cell = it.cell(o)
                    for f in fields:
                        fv = cell.fields.get(f, E)
                        for sh in fv:
                            if isinstance(sh, Ref) and sh.kind == "coll":
                                for el in it.elems(V(sh)):
                                    verdicts[f][_pair_verdict(it, el)].append((kind, getattr(el, "site", "") or (el.why if isinstance(el, Top) else "")))
                                    for sc in it.scalars(V(el)):
                                        dropped[f] |= {(mk[1], mk[2]) for mk in sc.marks if mk[0] == "part"}
                            elif isinstance(sh, Top):
                                verdicts[f]["unknown"].append((kind, sh.why))
                            elif not (isinstance(sh, Const) and sh.value is None):
                                verdicts[f]["unknown"].append((kind, f"bucket value is not a collection: {type(sh).__name__}"))
            if lost_track and not any(v["good"] or v["swapped"] or v["unknown"] for v in verdicts.values()):
                # no pair reached any bucket and the interpreter met something it does not model: that is no verdict
                n += len(fields)
                res.undecide("C03.R2", f"{entry.relpath}::{cls.name}.{entry.name}::buckets", f"no pair of the query results reached a bucket in the abstract evaluation, which lost track ({'; '.join(lost_track[:2])})", where(entry, entry.node))
                continue
            for f in fields:
                v = verdicts[f]
                construct = f"{cls.module.relpath}::{cls.name}.{entry.name}::orientation of {f}"
                if v["swapped"]:
                    kinds = sorted({k for k, _ in v["swapped"]})
                    sites = sorted({s for _, s in v["swapped"] if s})
                    n += 1
                    res.add(
                        "C03.R2",
                        construct,
                        False,
                        f"for {' and '.join(kinds)} rules the bucket {f} receives pairs in (rule object, rule subject) order (pair built at {', '.join(sites[:3]) or '?'}): the message names subject and object the wrong way round",
                        sites[0] if sites else where(entry, entry.node),
                        kind="flow",
                    )
                elif v["unknown"]:
                    n += 1
                    res.undecide("C03.R2", construct, f"the orientation of some pairs could not be determined ({'; '.join(sorted({s for _, s in v['unknown'] if s})[:2]) or 'no provenance'})", where(entry, entry.node))
                elif v["good"]:
                    n += 1
                    res.add("C03.R2", construct, True, "every pair reaching the bucket is (rule subject, rule object) for import and for be-imported-by rules", where(entry, entry.node), kind="flow")
                else:
                    res.add("C03.R2", construct, True, "the bucket receives no pairs from the query results", where(entry, entry.node), nontrivial=False)
                if not filters_by_design and (v["good"] or v["swapped"]):
                    # module rules: every realised pair / every key without realisation is forwarded (layer detectors drop same-layer pairs by design: C05)
                    ok = not dropped[f]
                    res.add(
                        "C03.R3",
                        f"{cls.module.relpath}::{cls.name}.{entry.name}::{f} keeps every pair",
                        ok,
                        "no pair of the query result is dropped on the way into the bucket (only emptiness of a key's list decides)" if ok else "pairs of the query result are dropped on the way into the bucket: " + "; ".join(f"{why} [{w}]" for w, why in sorted(dropped[f])[:2]) + ": imports of the violating set are not listed",
                        sorted(dropped[f])[0][0] if dropped[f] else where(entry, entry.node),
                        kind="flow",
                    )
    res.floor("C03.R2", 16, n)


# --------------------------------------------------------------------------- R3 / R4


def _field_matters(it: Interp, ci: ClassInfo, field: str, line: Sc) -> bool:
    """Does a field of the message record that the line was not formatted from distinguish lines?  Not when everything it carries
    is in the line anyway (a sort key made of subject and object) or when it only ever holds flags / numbers / None; text of its own
    (the verb) does."""
    from .c03_absint import ObjCell

    seen = False
    for c in it.cells.values():
        if not (isinstance(c, ObjCell) and c.ci is not None and c.ci.fq == ci.fq and field in c.fields):
            continue
        seen = True
        v = c.fields[field]
        if any(isinstance(sh, Const) and isinstance(sh.value, str) and sh.value for sh in v):
            return True
        for sc in it.scalars(v):
            content = {x for x in sc.srcs if not str(x).startswith("fld:")}
            if not sc.roles and not content:
                return True  # text computed from constants and flags
            if not sc.roles <= line.roles:
                return True
    return not seen


def run_r3_r4(repo: Repo, res: Result) -> None:
    T = types_of(repo)
    base = repo.cls(MSG, "RuleViolationMessageBaseGenerator")
    viol = repo.cls(VIOLATIONS, "RuleViolations")
    fields = list(viol.ann_attrs)
    classes = _concrete_classes(repo, base)
    if not classes:
        raise AnalysisError("no concrete subclass of RuleViolationMessageBaseGenerator found")
    n3 = n4 = 0
    for cls in classes:
        entries = []
        for k in repo.mro(cls):
            for m in k.methods.values():
                if _public(repo, m) and not m.is_abstract and repo.lookup_method(cls, m.name) is m and any(_mentions_class(_ann(T, m, p), viol.fq) for p in m.params[1:]) and _returns_text(T, m):
                    entries.append(m)
        if not entries:
            raise AnalysisError(f"{cls.fq}: no public method turning RuleViolations into text found")
        for entry in entries:
            rendered: dict[str, bool] = {f: True for f in fields}
            missing_in: dict[str, set] = {f: set() for f in fields}
            parts3: dict[tuple, set] = {}
            parts4: dict[tuple, set] = {}
            mixes: dict[tuple, set] = {}
            incomplete_text: dict[str, set] = {}
            tops: set = set()
            lost: set = set()
            lines_seen = 0
            for world in (True, False):
                it = Interp(repo)
                kind = "import" if world else "be-imported-by"

                def gen_arg(p: ast.arg, init: FuncInfo, world=world):
                    return V(Const(world)) if _ann(T, init, p) == BOOL else V(Opaque(p.arg))

                gen = it.instantiate(cls, gen_arg, f"gen-{world}")
                rv = it.obj(("input", "violations"), viol, "input")
                for f in fields:
                    c = it.coll(("input", f), "input", V(Tup((V(Sc(roles=ROLE_S, srcs=frozenset({f}))), V(Sc(roles=ROLE_O, srcs=frozenset({f})))), "input")))
                    it.cell(c).order = ("unsorted",)  # the buckets are sets
                    it.set_field(rv, f, V(c), True)
                args = [V(rv) if _mentions_class(_ann(T, entry, p), viol.fq) else V(Opaque(p.arg)) for p in entry.params[1:]]
                try:
                    out = it.call_method(gen, entry.name, args, f"run-{world}")
                except (RuntimeError, RecursionError, KeyError, AttributeError, TypeError, IndexError, ValueError) as e:
                    raise AnalysisError(f"{entry.fq}: abstract interpretation failed ({type(e).__name__}: {e})") from e
                w = it.has_top(out)
                if w:
                    tops.add(w)
                lost |= set(it.tops)
                lines = it.scalars(out)
                lines_seen += len(lines)
                got = set()
                for s in lines:
                    got |= {x for x in s.srcs if x in fields}
                for f in fields:
                    if f not in got:
                        rendered[f] = False
                        missing_in[f].add(kind)
                for s in lines:
                    which = sorted(x for x in s.srcs if x in fields)
                    for mk in s.marks:
                        if mk[0] == "part":
                            (parts4 if mk[3] else parts3).setdefault((mk[1], mk[2]), set()).update(which)
                        elif mk[0] == "mix":
                            mixes.setdefault((mk[1], mk[2]), set()).update(which)
                    # full text: subject and object content, and every field of the message record the line was formatted from
                    if which:
                        lacks = []
                        if "S" not in s.roles:
                            lacks.append("the rule subject")
                        if "O" not in s.roles:
                            lacks.append("the rule object")
                        recs = {x.split(":", 1)[1].rsplit(".", 1)[0] for x in s.srcs if str(x).startswith("fld:")}
                        for rc in sorted(recs):
                            ci = next((c for c in repo.classes.values() if c.name == rc and c.fq != viol.fq), None)
                            if ci is None:
                                continue
                            for a in ci.ann_attrs:
                                if f"fld:{rc}.{a}" not in s.srcs and _field_matters(it, ci, a, s):
                                    lacks.append(f"{rc}.{a}")
                        if lacks:
                            incomplete_text.setdefault(", ".join(lacks), set()).update(which)
            head = f"{cls.module.relpath}::{cls.name}.{entry.name}"
            absent = [f for f in fields if not rendered[f]] or incomplete_text
            if tops or not lines_seen or (absent and lost):
                # something is missing from the abstract report, but the interpreter met constructs it does not model: no verdict
                res.undecide("C03.R3", f"{head}::report", f"the abstract evaluation of the message generator lost track ({'; '.join(sorted(tops | lost)[:2]) or 'no lines produced'})", where(entry, entry.node))
                n3 += len(fields) + 2
                n4 += 2
                continue
            for f in fields:
                n3 += 1
                res.add("C03.R3", f"{head}::field {f} rendered", rendered[f], f"pairs of {f} reach the report" if rendered[f] else f"bucket {f} is never turned into message lines ({' and '.join(sorted(missing_in[f]))} rules): a whole class of violations is silently missing from the message", where(entry, entry.node), kind="flow")
            n3 += 1
            ok = not parts3
            detail = "every pair of every bucket yields a line (no early exit, slice, filter or data-dependent condition on the way)"
            if not ok:
                detail = "not every pair yields a line: " + "; ".join(f"{why} [{w}] (buckets: {', '.join(sorted(b)) or '?'})" for (w, why), b in sorted(parts3.items())[:3]) + ": offending imports are missing from the report"
            res.add("C03.R3", f"{head}::one line per pair", ok, detail, sorted(parts3)[0][0] if parts3 else where(entry, entry.node), kind="flow")
            n3 += 1
            ok = not incomplete_text
            detail = "each line is formatted from rule subject, verb and rule object (de-duplication by the full text)"
            if not ok:
                detail = "; ".join(f"lines of {', '.join(sorted(b))} do not contain {k}" for k, b in sorted(incomplete_text.items())[:3]) + ": different violations collapse into one line"
            res.add("C03.R3", f"{head}::full-text lines", ok, detail, where(entry, entry.node), kind="flow")
            n4 += 1
            ok = not parts4
            detail = "each missing-import line lists all objects grouped under its subject"
            if not ok:
                detail = "a missing-import line does not list all objects grouped under its subject: " + "; ".join(f"{why} [{w}] (buckets: {', '.join(sorted(b)) or '?'})" for (w, why), b in sorted(parts4.items())[:3])
            res.add("C03.R4", f"{head}::all objects per subject", ok, detail, sorted(parts4)[0][0] if parts4 else where(entry, entry.node), kind="flow")
            n4 += 1
            ok = not mixes
            detail = "subject and objects of a line stem from the same (subject, object) pairs of the bucket"
            if not ok:
                detail = "a line combines a rule subject with objects of other pairs: " + "; ".join(f"{w} `{c.rsplit('::', 1)[-1]}` (buckets: {', '.join(sorted(b)) or '?'})" for (w, c), b in sorted(mixes.items())[:3]) + ": objects are listed for a subject that does import them"
            res.add("C03.R4", f"{head}::objects belong to their subject", ok, detail, sorted(mixes)[0][0] if mixes else where(entry, entry.node), kind="flow")
    res.floor("C03.R3", 20, n3)
    res.floor("C03.R4", 4, n4)


# --------------------------------------------------------------------------- R5


def _roots(it: Interp, ids) -> frozenset:
    """Iteration identities with every iteration over something that stems from another iteration (the pairs of one search result,
    the parts of one key, a filtered copy of the key set, the items a generator yielded per key) replaced by the iteration(s) it
    stems from: they all stand for 'the work done for one key'."""
    out: set = set()

    def walk(x, seen):
        ps = it.loop_parents.get(x, set()) - seen - {x}
        if not ps:
            out.add(x)
            return
        for p_ in ps:
            walk(p_, seen | {x})

    for x in ids:
        walk(x, frozenset())
    return frozenset(out)


def _plain(srcs) -> set:
    """Provenance tags that name parameters of the query (without the bookkeeping tags of this rule)."""
    return {x for x in srcs if x not in ("search", "batched") and not str(x).startswith(("fld:", "pos:"))}


def _found_pair(el: Sc) -> Tup:
    """(importer, importee) as a search reports it; the position tags tell whether a query hands the pairs on as they are."""
    from dataclasses import replace as _replace

    return Tup((V(_replace(el, srcs=el.srcs | {"pos:importer"})), V(_replace(el, srcs=el.srcs | {"pos:importee"}))), "search result")


def _deep_scalars(it: Interp, v, depth: int = 0) -> list:
    """Scalars inside a value, also keys and values of dictionaries."""
    out: list = []
    if depth > 5:
        return out
    for sh in v:
        if isinstance(sh, Ref) and sh.kind == "dict":
            for k, x in list(it.cell(sh).entries):
                out += _deep_scalars(it, k, depth + 1) + _deep_scalars(it, x, depth + 1)
        elif isinstance(sh, Ref) and sh.kind == "coll":
            out += _deep_scalars(it, it.elems(V(sh)), depth + 1)
        elif isinstance(sh, Tup):
            for x in sh.items:
                out += _deep_scalars(it, x, depth + 1)
        elif isinstance(sh, Sc):
            out.append(sh)
    return out


_MUTATING = {"add", "update", "discard", "remove", "pop", "clear", "append", "extend", "insert", "difference_update", "intersection_update", "symmetric_difference_update", "setdefault", "popitem", "sort", "reverse", "appendleft", "extendleft", "popleft"}


def _mutates_param(repo: Repo, fn: FuncInfo, pname: str, depth: int = 0):
    """(function, node) of a statement of `fn` (or of a repository function it hands the value on to) that changes the object
    bound to parameter `pname` in place - through the parameter or a local alias of it; None when there is none."""
    if depth > 3 or pname not in fn.param_names:
        return None
    aliases = {pname}
    nodes = list(own_nodes(fn.node))

    def is_alias(e) -> bool:
        if isinstance(e, ast.Name):
            return e.id in aliases
        if isinstance(e, ast.IfExp):
            return is_alias(e.body) or is_alias(e.orelse)
        if isinstance(e, ast.BoolOp):
            return any(is_alias(x) for x in e.values)
        if isinstance(e, ast.NamedExpr):
            return is_alias(e.value)
        return False

    changed = True
    while changed:
        changed = False
        for n in nodes:
            tgt = None
            if isinstance(n, ast.Assign) and len(n.targets) == 1 and isinstance(n.targets[0], ast.Name) and is_alias(n.value):
                tgt = n.targets[0].id
            elif isinstance(n, ast.AnnAssign) and isinstance(n.target, ast.Name) and n.value is not None and is_alias(n.value):
                tgt = n.target.id
            elif isinstance(n, ast.NamedExpr) and isinstance(n.target, ast.Name) and is_alias(n.value):
                tgt = n.target.id
            if tgt is not None and tgt not in aliases:
                aliases.add(tgt)
                changed = True
    # a name that is re-bound to something that is not the parameter's object (`xs = set(xs)`, `xs = xs - {x}`) stands for a
    # private object from there on: changes made through it further down do not reach the caller (textual order; a VIOLATION
    # needs a change that certainly is one)
    rebound: dict[str, int] = {}
    for n in getattr(fn.node, "body", []):  # only statements that every path through the function executes
        tgt = None
        if isinstance(n, ast.Assign) and len(n.targets) == 1 and isinstance(n.targets[0], ast.Name) and not is_alias(n.value):
            tgt = n.targets[0].id
        elif isinstance(n, ast.AnnAssign) and isinstance(n.target, ast.Name) and n.value is not None and not is_alias(n.value):
            tgt = n.target.id
        if tgt in aliases:
            rebound[tgt] = min(rebound.get(tgt, n.lineno), n.lineno)
    # ... unless the name is (again) bound to the parameter's object further down (`else: xs = param`)
    for n in nodes:
        tgt = None
        if isinstance(n, ast.Assign) and len(n.targets) == 1 and isinstance(n.targets[0], ast.Name) and is_alias(n.value):
            tgt = n.targets[0].id
        elif isinstance(n, ast.AnnAssign) and isinstance(n.target, ast.Name) and n.value is not None and is_alias(n.value):
            tgt = n.target.id
        if tgt in rebound and n.lineno >= rebound[tgt]:
            del rebound[tgt]

    def shared_at(e, line: int) -> bool:
        if isinstance(e, ast.Name):
            return e.id in aliases and not (e.id in rebound and line > rebound[e.id])
        if isinstance(e, ast.IfExp):
            return shared_at(e.body, line) or shared_at(e.orelse, line)
        if isinstance(e, ast.BoolOp):
            return any(shared_at(x, line) for x in e.values)
        if isinstance(e, ast.NamedExpr):
            return shared_at(e.value, line)
        return False

    for n in nodes:
        line = getattr(n, "lineno", 0)
        if isinstance(n, ast.Call) and isinstance(n.func, ast.Attribute) and n.func.attr in _MUTATING and shared_at(n.func.value, line):
            return fn, n
        if isinstance(n, ast.AugAssign) and isinstance(n.target, ast.Name) and shared_at(n.target, line):
            return fn, n
        if isinstance(n, (ast.Subscript,)) and isinstance(n.ctx, (ast.Store, ast.Del)) and shared_at(n.value, line):
            return fn, n
    for n in nodes:
        if not isinstance(n, ast.Call):
            continue
        callee = None
        if isinstance(n.func, ast.Name):
            fq = repo.resolve_name(fn.module, n.func)
            if fq:
                m, _, a = fq.rpartition(".")
                om = repo.modules.get(m)
                callee = om.functions.get(a) if om is not None else None
        if callee is None or callee.fq == fn.fq:
            continue
        for i, a in enumerate(n.args):
            if is_alias(a) and i < len(callee.param_names):
                r = _mutates_param(repo, callee, callee.param_names[i], depth + 1)
                if r is not None:
                    return r
        for k in n.keywords:
            if k.arg and is_alias(k.value):
                r = _mutates_param(repo, callee, k.arg, depth + 1)
                if r is not None:
                    return r
    return None


def run_r5(repo: Repo, res: Result) -> None:
    """The three graph queries of the evaluable: one independent search per key over the complete key set, stored under that key."""
    T = types_of(repo)
    proto = repo.cls(EVAL_ARCH, "EvaluableArchitecture")
    queries = [m for m in proto.methods.values() if m.node.returns is not None and any(x[0] == "b" and x[1] == "dict" for x in members(T.ann(m.module, m.node.returns)))]
    if len(queries) < 3:
        raise AnalysisError(f"EvaluableArchitecture declares {len(queries)} dictionary-valued queries (expected the explicit and the two 'other' queries)")
    search_funcs = [f for f in repo.module(SEARCHES).functions.values() if not f.name.startswith("_")]
    impls: list[ClassInfo] = []
    seen: set = set()
    for c in repo.classes.values():
        if c.fq == proto.fq or not repo.is_subclass(c, proto.fq):
            continue
        ms = [repo.lookup_method(c, q.name) for q in queries]
        if any(m is None or m.cls is None or m.cls.fq == proto.fq or m.is_abstract for m in ms):
            continue
        sig = tuple(m.fq for m in ms)
        if sig not in seen:
            seen.add(sig)
            impls.append(c)
    if not impls:
        raise AnalysisError("no implementation of the EvaluableArchitecture queries found")
    n = 0
    for cls in impls:
        for q in queries:
            impl = repo.lookup_method(cls, q.name)
            calls: list[dict] = []

            def make_intr(fn: FuncInfo, calls=calls):
                batched = fn.node.returns is not None and any(x[0] == "b" and x[1] == "dict" for x in members(T.ann(fn.module, fn.node.returns)))

                def intr(it: Interp, args, kwargs, node, fr):
                    allv = [*args, *kwargs.values()]
                    key_scalars = [sc for a in allv for sh in a for sc in ([sh] if isinstance(sh, Sc) else [])]
                    eids = frozenset().union(*[sc.eids for sc in key_scalars]) if key_scalars else frozenset()
                    srcs = frozenset().union(*[sc.srcs for sc in key_scalars]) if key_scalars else frozenset()
                    if not key_scalars:
                        # no module of its own: a helper that answers for a whole collection (sub trees of all objects, ...)
                        srcs = frozenset(x for a in allv for sc in _deep_scalars(it, a) for x in _plain(sc.srcs))
                    pnames = [p for p in fn.param_names if not (fn.node.args.vararg and p == fn.node.args.vararg.arg)]
                    calls.append({"fn": fn, "args": allv, "names": [*pnames[: len(args)], *([None] * max(0, len(args) - len(pnames))), *kwargs.keys()], "node": node, "fr": fr, "live": frozenset(it.active)})
                    if batched:
                        # a search that answers for many modules at once (`-> dict[module, list of imports]`): one list per
                        # member of the collections / indexes it is given; whoever reads the dictionary by a key (or iterates its
                        # items) gets the list of that key
                        msrcs: set = set()
                        for a in allv:
                            for sh in a:
                                if isinstance(sh, Ref) and sh.kind in ("coll", "dict"):
                                    for sc in _deep_scalars(it, V(sh)):
                                        msrcs |= _plain(sc.srcs)
                        if msrcs:
                            member = Sc(srcs=frozenset(msrcs))
                            el = Sc(srcs=srcs | frozenset(msrcs) | {"search", "batched"}, eids=eids)
                            d = it.dict_((id(node), fr.inv, "search-dict"), it.site(fr, node))
                            it.store_entry(d, V(member), V(it.coll((id(node), fr.inv, "search"), it.site(fr, node), V(_found_pair(el)))))
                            return V(d)
                    el = Sc(srcs=srcs | {"search"}, eids=eids)
                    return V(it.coll((id(node), fr.inv, "search"), it.site(fr, node), V(_found_pair(el))))

                return intr

            it = Interp(repo, {f.fq: make_intr(f) for f in search_funcs})
            obj = it.instantiate(cls, lambda p, init: V(Opaque(p.arg)), "evaluable")
            params = [p.arg for p in impl.params[1:]]
            args = [V(it.coll(("input", p), "input", V(Sc(srcs=frozenset({p}))))) for p in params]
            try:
                out = it.call_method(obj, q.name, args, "query")
            except (RuntimeError, RecursionError, KeyError, AttributeError, TypeError, IndexError, ValueError) as e:
                raise AnalysisError(f"{impl.fq}: abstract interpretation failed ({type(e).__name__}: {e})") from e
            head = f"{impl.relpath}::{cls.name}.{q.name}"
            dicts = [sh for sh in out if isinstance(sh, Ref) and sh.kind == "dict"]
            w = it.has_top(out)
            if w or not dicts or not calls or len(dicts) != len([sh for sh in out if not (isinstance(sh, Const) and sh.value is None)]):
                n += 3
                res.undecide("C03.R5", f"{head}::result", f"the abstract evaluation of the query lost track ({w or '; '.join(it.tops[:2]) or ('no search call reached' if not calls else 'result is not a dictionary')})", where(impl, impl.node))
                continue
            pset = set(params)
            clean = not it.tops
            # (a) what every search receives
            extra: list[str] = []
            unmodelled: list[str] = []
            partial: list[str] = []
            used: set = set()
            for c in calls:
                for ai, a in enumerate(c["args"]):
                    cn = c["node"]
                    texts = [norm(x, 50) for x in cn.args] + [norm(k.value, 50) for k in cn.keywords] if isinstance(cn, ast.Call) else []
                    if not a:
                        extra.append(f"`{texts[ai] if ai < len(texts) else '?'}` (neither the graph, nor the current key, nor one of the complete module sets) in `{norm(cn, 80)}`")
                        continue
                    for sh in a:
                        if isinstance(sh, Opaque) or (isinstance(sh, Const) and sh.value is None):
                            continue
                        if isinstance(sh, Sc):
                            if _plain(sh.srcs) and _plain(sh.srcs) <= pset and "search" not in sh.srcs and sh.eids:
                                used |= sh.srcs & pset
                                partial += [f"{mk[2]} [{mk[1]}]" for mk in sh.marks if mk[0] == "part"]
                            else:
                                extra.append(f"`{norm(c['node'], 80)}`: a scalar argument that is not an element of {sorted(pset)}")
                        elif isinstance(sh, Ref) and sh.kind == "coll":
                            els = it.elems(V(sh))
                            scs = _deep_scalars(it, els)
                            plain = lambda sc: _plain(sc.srcs)  # noqa: E731
                            if scs and all(isinstance(x, Sc) for x in els) and all(_plain(sc.srcs) and _plain(sc.srcs) <= pset and "search" not in sc.srcs and not (sc.eids & c["live"]) for sc in scs):
                                for sc in scs:
                                    used |= sc.srcs & pset
                                    partial += [f"a search is handed an incomplete set of the given modules - {mk[2]} [{mk[1]}]" for mk in sc.marks if mk[0] == "part"]
                                pname = c["names"][ai] if ai < len(c["names"]) else None
                                mut = _mutates_param(repo, c["fn"], pname) if pname and c["live"] and not (it.cell(sh).born & c["live"]) else None
                                if mut is not None:
                                    extra.append(f"`{texts[ai] if ai < len(texts) else '?'}`, one object for the whole batch, which {c['fn'].name} changes (`{norm(mut[1], 60)}` at {mut[0].relpath}:{getattr(mut[1], 'lineno', 0)}) in `{norm(cn, 80)}`")
                            elif scs and all(sc.srcs and plain(sc) and plain(sc) <= pset and not (sc.eids & c["live"]) for sc in scs):
                                # computed once per query from the complete module sets (the sub trees of all objects, ...): the one
                                # object is handed to every search of the batch - fine as long as no search changes it
                                pname = c["names"][ai] if ai < len(c["names"]) else None
                                mut = _mutates_param(repo, c["fn"], pname) if pname else None
                                if mut is not None:
                                    extra.append(f"`{texts[ai] if ai < len(texts) else '?'}`, a collection computed once for the whole batch, which {c['fn'].name} changes (`{norm(mut[1], 60)}` at {mut[0].relpath}:{getattr(mut[1], 'lineno', 0)}) in `{norm(cn, 80)}`")
                                elif pname is None:
                                    unmodelled.append(f"`{norm(cn, 80)}`: a collection computed once for the whole batch is passed to a parameter that could not be identified")
                                else:
                                    for sc in scs:
                                        used |= sc.srcs & pset
                                        partial += [f"a search is handed an incomplete set of the given modules - {mk[2]} [{mk[1]}]" for mk in sc.marks if mk[0] == "part"]
                            else:
                                extra.append(f"`{norm(c['node'], 80)}`: a collection that is not one of the complete module sets {sorted(pset)}")
                        elif isinstance(sh, Ref) and sh.kind == "dict":
                            # an index computed beforehand from the complete module sets (node -> modules it was requested for)
                            scs = _deep_scalars(it, V(sh))
                            if scs and all(sc.srcs and _plain(sc.srcs) <= pset and not ((sc.eids - sc.gone) & c["live"]) for sc in scs):
                                for sc in scs:
                                    used |= sc.srcs & pset
                                    partial += [f"a search is handed an incomplete set of the given modules - {mk[2]} [{mk[1]}]" for mk in sc.marks if mk[0] == "part"]
                                pname = c["names"][ai] if ai < len(c["names"]) else None
                                mut = _mutates_param(repo, c["fn"], pname) if pname and c["live"] and not (it.cell(sh).born & c["live"]) else None
                                if mut is not None:
                                    extra.append(f"`{texts[ai] if ai < len(texts) else '?'}`, one dictionary for the whole batch, which {c['fn'].name} changes (`{norm(mut[1], 60)}` at {mut[0].relpath}:{getattr(mut[1], 'lineno', 0)}) in `{norm(cn, 80)}`")
                            else:
                                extra.append(f"`{norm(c['node'], 80)}`: a dictionary that is not computed from the complete module sets {sorted(pset)} alone")
                        else:
                            extra.append(f"`{norm(c['node'], 80)}`: an argument of kind {type(sh).__name__}{' (' + sh.why + ')' if isinstance(sh, Top) else ''}")
            if (not clean and (extra or sorted(pset - used))) or (unmodelled and not extra):
                n += 3
                res.undecide("C03.R5", f"{head}::searches", f"the abstract evaluation met constructs it does not model ({'; '.join([*unmodelled, *it.tops][:2])})", where(impl, impl.node))
                continue
            n += 1
            ok = not extra
            res.add("C03.R5", f"{head}::independent searches", ok, "each search receives only the graph, its own key and the whole opposite set" if ok else f"a search also receives {extra[0]}: state is shared between the searches of one batch, so a pair found for one key can be missing under another", where(impl, calls[0]["node"]) if calls else where(impl, impl.node), kind="flow")
            # (b) keys: complete, derived from the parameters
            key_marks: list[str] = list(partial)
            bad_keys: list[str] = []
            bad_vals: list[str] = []
            unsure: list[str] = []
            for d in dicts:
                for k, v in it.cell(d).entries:
                    ks = it.scalars(k)
                    if not ks or not all(sc.srcs and sc.srcs - {x for x in sc.srcs if str(x).startswith("fld:")} <= pset for sc in ks):
                        bad_keys.append("a key that does not derive from the given modules")
                    key_marks += [f"{mk[2]} [{mk[1]}]" for sc in ks for mk in sc.marks if mk[0] == "part"]
                    keids = frozenset().union(*[sc.eids for sc in ks]) if ks else frozenset()
                    ksrcs = frozenset().union(*[sc.srcs & pset for sc in ks]) if ks else frozenset()
                    for sh in v:
                        if not (isinstance(sh, Ref) and sh.kind == "coll"):
                            bad_vals.append("the value stored for a key is not the list of imports found by a search")
                            continue
                        for el in it.elems(V(sh)):
                            if isinstance(el, Tup) and len(el.items) == 2:
                                first = {x for sc in it.scalars(el.items[0]) for x in sc.srcs if str(x).startswith("pos:")}
                                second = {x for sc in it.scalars(el.items[1]) for x in sc.srcs if str(x).startswith("pos:")}
                                if first == {"pos:importee"} and second == {"pos:importer"}:
                                    bad_vals.append(f"the pairs found by the search are stored as (importee, importer) (pair built at {el.site or '?'}): the callers of the query read them as (importer, importee)")
                        vs = it.scalars(it.elems(V(sh)))
                        if not vs or not all("search" in sc.srcs for sc in vs):
                            bad_vals.append("the value stored for a key is not (only) the result of a graph search")
                            continue
                        veids = frozenset().union(*[sc.eids | sc.assoc for sc in vs])
                        # iterations over something that stems from another iteration (the pairs of one search result, the parts of one
                        # key, the items a generator yielded per key) are part of that iteration's work
                        veids, keids = _roots(it, veids), _roots(it, keids)
                        vsrcs = frozenset().union(*[sc.srcs & pset for sc in vs])
                        key_loops = {x for x in keids if x in it.loop_eids}
                        origin = _roots(it, it.cell(sh).origin)
                        if vsrcs != ksrcs:
                            bad_vals.append(f"the key derives from {sorted(ksrcs)}, the search stored under it was run for {sorted(vsrcs)}")
                        elif (vloops := {x for x in veids if x in it.loop_eids} & key_loops) and not (origin & vloops):
                            # the list outlives the iterations (over the keys) whose search results it holds
                            bad_vals.append("the list stored under a key is shared between the keys (created outside the loop over the keys): it also holds the imports found for other keys")
                        elif key_loops and veids and not (veids & it.loop_eids):
                            bad_vals.append("the list stored under every key is the result of one search for a fixed module (selected by position, not by the loop over the keys)")
                        elif veids != keids or not keids:
                            unsure.append("the search result and the key it is stored under could not be matched (they stem from different iterations)")
                        key_marks += [f"{mk[2]} [{mk[1]}]" for sc in vs for mk in sc.marks if mk[0] == "part"]
                        key_marks += [f"{mk[2]} [{mk[1]}]" for mk in it.effective_part(it.cell(sh))]
            n += 1
            missing = sorted(pset - used)
            ok = not key_marks and not bad_keys and not missing
            detail = f"one search per element of {params} (duplicates removed only)"
            if not ok:
                detail = (f"parameter(s) {missing} never reach a search" if missing else bad_keys[0] if bad_keys else f"not every given module gets a search / an entry of its own: {sorted(set(key_marks))[0]}") + ": a subject/object of the batch gets no judgement of its own"
            res.add("C03.R5", f"{head}::all keys", ok, detail, where(impl, impl.node), kind="flow")
            n += 1
            if unsure and not bad_vals:
                res.undecide("C03.R5", f"{head}::result per key", unsure[0], where(impl, impl.node))
                continue
            ok = not bad_vals
            res.add("C03.R5", f"{head}::result per key", ok, "the result of each search is stored under its own key" if ok else bad_vals[0], where(impl, impl.node), kind="flow")
    res.floor("C03.R5", 9, n)


# --------------------------------------------------------------------------- R6


def _derives(it: Interp, v, tag: str, depth: int = 0) -> bool:
    if depth > 6:
        return False
    for sh in v:
        if isinstance(sh, Sc) and tag in sh.srcs:
            return True
        if isinstance(sh, Tup) and any(_derives(it, x, tag, depth + 1) for x in sh.items):
            return True
        if isinstance(sh, Ref):
            c = it.cell(sh)
            if sh.kind == "coll" and _derives(it, frozenset(c.elem), tag, depth + 1):
                return True
            if sh.kind == "dict" and any(_derives(it, k, tag, depth + 1) or _derives(it, x, tag, depth + 1) for k, x in list(c.entries)):
                return True
            if sh.kind == "obj" and any(_derives(it, x, tag, depth + 1) for x in list(c.fields.values())):
                return True
    return False


def run_r6(repo: Repo, res: Result) -> None:
    """A matcher that is applied a second time (same Rule object, other architecture) must not read anything the first application
    derived from *its* evaluable: the second application is interpreted on the very same abstract matcher object."""
    T = types_of(repo)
    base = repo.cls(MATCHER, "RuleMatcher")
    modreq = repo.cls(MODREQ, "ModuleRequirement")
    proto = repo.cls(EVAL_ARCH, "EvaluableArchitecture")
    classes = _concrete_classes(repo, base)
    if not classes:
        raise AnalysisError("no concrete RuleMatcher found")
    n = 0
    for cls in classes:
        entries = []
        for k in repo.mro(cls):
            for m in k.methods.values():
                if _public(repo, m) and not m.is_abstract and repo.lookup_method(cls, m.name) is m and any(_mentions_class(_ann(T, m, p), proto.fq) for p in m.params[1:]):
                    entries.append(m)
        if not entries:
            raise AnalysisError(f"{cls.fq}: no public method taking an EvaluableArchitecture found")
        for entry in entries:
            it = Interp(repo)

            def mr_args():
                counter = {"n": 0}

                def mr_arg(p: ast.arg, init: FuncInfo):
                    if _ann(T, init, p) == BOOL:
                        return V(Const(True))
                    counter["n"] += 1
                    return V(it.coll(("input", "modreq", p.arg), "rule configuration", V(Sc(roles=ROLE_S if counter["n"] == 1 else ROLE_O))))

                return mr_arg

            def m_arg(p: ast.arg, init: FuncInfo):
                if _mentions_class(_ann(T, init, p), modreq.fq):
                    return it.instantiate(modreq, mr_args(), "modreq")
                return V(Opaque(p.arg))

            matcher = it.instantiate(cls, m_arg, "matcher")
            it.writes = set()
            head = f"{entry.relpath}::{cls.name}.{entry.name}"
            try:
                it.call_method(matcher, entry.name, [V(Sc(srcs=frozenset({"evaluable#1"}))) if _mentions_class(_ann(T, entry, p), proto.fq) else V(Opaque(p.arg)) for p in entry.params[1:]], "call-1")
                consulted = [c[0] for c in it.scalar_calls if "evaluable#1" in c[1]]
                stale = {(k, f) for (k, f) in it.writes if _derives(it, it.cells[k].fields.get(f, E), "evaluable#1")}
                it.stale = set(stale)
                it.stale_reads = []
                it.call_method(matcher, entry.name, [V(Sc(srcs=frozenset({"evaluable#2"}))) if _mentions_class(_ann(T, entry, p), proto.fq) else V(Opaque(p.arg)) for p in entry.params[1:]], "call-2")
            except (RuntimeError, RecursionError, KeyError, AttributeError, TypeError, IndexError, ValueError) as e:
                raise AnalysisError(f"{entry.fq}: abstract interpretation failed ({type(e).__name__}: {e})") from e
            if not consulted:
                n += 1
                res.undecide("C03.R6", f"{head}::second application", f"the abstract evaluation never saw the evaluable being queried ({'; '.join(it.tops[:2]) or 'no call on it'})", where(entry, entry.node))
                continue
            reads = it.stale_reads
            # whatever is handed to the second evaluable must not stem from the first one (caches outside the matcher: module level
            # dictionaries, the requirement objects, class attributes)
            crossed = [c for c in it.scalar_calls if "evaluable#2" in c[1] and "evaluable#1" in c[2]]
            if crossed and not reads:
                n += 1
                res.add("C03.R6", f"{head}::second application", False, f"applied a second time, the matcher asks the new architecture about modules that were resolved against the first one (`{crossed[0][3].rsplit('::', 1)[-1]}`): imports of modules that exist only in the new architecture are missing from the report", crossed[0][3].split("::", 1)[0], kind="flow")
                continue
            own = {sh.key for sh in matcher if isinstance(sh, Ref)}
            names = sorted({f for k, f in stale if k in own})
            n += 1
            ok = not reads
            detail = f"everything derived from the evaluable ({', '.join(names) or 'nothing is kept on the matcher'}) is recomputed before it is read when the matcher is applied again"
            if not ok:
                fields = sorted({r[2] for r in reads})
                detail = f"applied a second time, the matcher reads `{'`, `'.join(fields)}` as left behind by the first application (first read: {reads[0][1].split('::', 1)[1]}): module lists resolved against another architecture are re-used, so imports of modules that exist only in the new architecture are missing from the report"
            res.add("C03.R6", f"{head}::second application", ok, detail, reads[0][0] if reads else where(entry, entry.node), nontrivial=bool(names), kind="flow")
    res.floor("C03.R6", 2, n)
    _run_r6_rule_level(repo, res, T, proto)


# public fluent API (docs/, tests/): Rule().modules_that().are_named(..).should_not().import_modules_that().are_named(..)
_FLUENT = (("modules_that", None), ("are_named", "pkg.subject"), ("should_not", None), ("import_modules_that", None), ("are_named", "pkg.object"))
# ... and Rule().modules_that().have_name_matching(regex).should_not().import_anything()  (regex subjects + the 'anything' alias)
_FLUENT_ALIAS = (("modules_that", None), ("have_name_matching", "pkg\\..*"), ("should_not", None), ("import_anything", None))


def _run_r6_rule_level(repo: Repo, res: Result, T, proto: ClassInfo) -> None:
    """The same obligation one level up: a rule object (the public object users keep and re-apply) that is applied to a second
    architecture reads nothing derived from the first one and asks the second one nothing that was resolved against the first.
    Only decided when the rule object can be configured through the public fluent API in the abstract; otherwise no obligation."""
    bases = [c for c in repo.classes.values() if any(m.is_abstract and _public(repo, m) and any(_mentions_class(_ann(T, m, p), proto.fq) for p in m.params[1:]) for m in c.methods.values())]
    seen: set = set()
    for base in bases:
        names = [m.name for m in base.methods.values() if m.is_abstract and _public(repo, m) and any(_mentions_class(_ann(T, m, p), proto.fq) for p in m.params[1:])]
        for cls in _concrete_classes(repo, base):
            if cls.fq in seen or cls.fq == base.fq:
                continue
            seen.add(cls.fq)
            init = repo.lookup_method(cls, "__init__")
            if init is not None and len(init.node.args.args) - 1 - len(init.node.args.defaults) > 0:
                continue  # needs constructor arguments
            for name, (label, fluent) in [(n_, sc_) for n_ in names for sc_ in (("", _FLUENT), (" [regex subjects, anything]", _FLUENT_ALIAS))]:
                entry = repo.lookup_method(cls, name)
                if entry is None or entry.is_abstract or not all(repo.lookup_method(cls, f) is not None for f, _ in fluent):
                    continue
                it = Interp(repo)
                try:
                    obj = it.instantiate(cls, lambda p, init: None, "rule")
                    cur = obj
                    for i, (f, arg) in enumerate(fluent):
                        cur = it.call_method(cur, f, [V(Const(arg))] if arg is not None else [], f"fluent-{i}")
                        cur = frozenset(sh for sh in cur if isinstance(sh, Ref) and sh.kind == "obj") or obj
                    it.writes = set()
                    it.scalar_calls = []
                    arg1 = [V(Sc(srcs=frozenset({"evaluable#1"}))) if _mentions_class(_ann(T, entry, p), proto.fq) else V(Opaque(p.arg)) for p in entry.params[1:]]
                    it.call_method(obj, name, arg1, "call-1")
                    consulted = [c for c in it.scalar_calls if "evaluable#1" in c[1]]
                    stale = {(k, f) for (k, f) in it.writes if _derives(it, it.cells[k].fields.get(f, E), "evaluable#1")}
                    it.stale = set(stale)
                    it.stale_reads = []
                    arg2 = [V(Sc(srcs=frozenset({"evaluable#2"}))) if _mentions_class(_ann(T, entry, p), proto.fq) else V(Opaque(p.arg)) for p in entry.params[1:]]
                    it.call_method(obj, name, arg2, "call-2")
                except (RuntimeError, RecursionError, KeyError, AttributeError, TypeError, IndexError, ValueError):
                    continue
                if not consulted or not any("evaluable#2" in c[1] for c in it.scalar_calls):
                    continue  # the abstract rule never reached a query: nothing to decide at this level
                head = f"{entry.relpath}::{cls.name}.{name}"
                reads = it.stale_reads
                crossed = [c for c in it.scalar_calls if "evaluable#2" in c[1] and "evaluable#1" in c[2]]
                ok = not reads and not crossed
                detail = "a rule object applied to a second architecture re-creates everything it derives from the architecture"
                if reads:
                    detail = f"a rule object applied to a second architecture reads `{'`, `'.join(sorted({r[2] for r in reads}))}` as left behind by the first application (first read: {reads[0][1].split('::', 1)[1]}): the report is about the modules of the first architecture"
                elif crossed:
                    detail = f"a rule object applied to a second architecture asks it about modules that were resolved against the first one (`{crossed[0][3].rsplit('::', 1)[-1]}`)"
                res.add("C03.R6", f"{head}::rule object applied twice{label}", ok, detail, reads[0][0] if reads else (crossed[0][3].split("::", 1)[0] if crossed else where(entry, entry.node)), kind="flow")


def run(repo: Repo) -> Result:
    res = Result("C03")
    res.explanation = (
        "Decides necessary conditions of exact reports: (R1) the 'something else' searches never expand a module outside the subject's "
        "subtree and the excluded objects, so no import unrelated to the subject can be recorded; (R2) abstract interpretation of every concrete "
        "violation detector, for import and be-imported-by rules: every pair stored in a RuleViolations bucket is (rule subject, rule object); "
        "(R3) the module-rule detector drops no pair of the query results; abstract interpretation of every concrete message generator: pairs of every "
        "bucket reach the report, no early exit / slice / filter / data-dependent condition drops a pair, a line is formatted from subject, verb and object; "
        "(R4) the objects listed on a missing-import line are all objects grouped under its subject and only objects paired with it; (R5) each of the "
        "three graph queries runs one search per element of the complete key set, hands it only the graph, that key and the whole opposite set, and stores "
        "the result under that key; (R6) a matcher applied a second time reads nothing the first application derived from its evaluable."
    )
    res.not_decided = "equality of the rendered set with a reference violating set on every graph (needs the values the searches compute)."
    res.trusted_base = ["engine search model (rules/search.py)", "abstract interpreter rules/c03_absint.py (joins over-approximate; unknown constructs give 'undecided', never a pass)", "guard implication"]
    try:
        run_r1(repo, res)
    except AnalysisError as e:
        # the search model gave no verdict: R1 is undecided, R2 - R6 do not depend on it and are still decided (a violation found
        # by them is reported; without one the check ends undecided, never silent)
        res.undecide("C03.R1", "pytestarch/eval_structure/breadth_first_searches.py::search model", str(e), "")
    run_r2(repo, res)
    run_r3_r4(repo, res)
    run_r5(repo, res)
    run_r6(repo, res)
    return res
